#!/bin/sh
# MANIFEST.setup_cmd: regenerate the translated tables from /repo, then build model, proofs and
# driver of every claimed property.  Offline.  A property whose build fails is reported by its own
# check (never silently): setup itself only fails when nothing could be built.
cd "$(dirname "$0")" || exit 2
/venv/bin/python harness/tables.py || exit 2
ok=0
for p in $(/venv/bin/python -c "import json;print(' '.join(c['property_id'] for c in json.load(open('MANIFEST.json'))['checks']))"); do
  lc=$(echo "$p" | tr 'A-Z' 'a-z')
  if tools/lk build "RichModel.Props.$p" "drv_$lc" >/tmp/verif-setup-$p.log 2>&1; then ok=$((ok+1)); else echo "setup: build of $p failed"; tail -20 /tmp/verif-setup-$p.log; fi
  rm -f /tmp/verif-setup-$p.log
done
echo "setup: built $ok properties"
[ "$ok" -gt 0 ]
