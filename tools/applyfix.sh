#!/bin/sh
# usage: tools/applyfix.sh <diff> "<commit message>"   -- apply one pending fix to /repo, run baseline, commit
set -e
cd /repo
git apply "$1"
/verif/tools/baseline.py | tail -3
git commit -qam "$2"
git log --oneline | head -1
