#!/venv/bin/python
"""Regenerate the generated parts of DESIGN.md (between the markers) from known_findings.txt and seeded/*/meta.json."""
import glob, json, os, re
V = os.path.dirname(os.path.dirname(os.path.abspath(__file__)))
rows = []
for d in sorted(glob.glob(os.path.join(V, "seeded", "*"))):
    m = json.load(open(os.path.join(d, "meta.json")))
    name = os.path.basename(d)
    diff = open(os.path.join(d, "patch.diff")).read()
    files = sorted(set(re.findall(r"^\+\+\+ b/(\S+)", diff, flags=re.M)))
    need = " ".join(m.get("needs_to_manifest", "").split())
    need = (need[:230] + "…") if len(need) > 230 else need
    det = []
    for c, v in m["detected_by"].items():
        if v["exit"] == 1 and v["violation_lines"]:
            kind = "no-failing-input-found" if all("no-failing-input-found" in l for l in v["violation_lines"]) else "failing input on real rich"
            det.append(f"**{c}**: exit 1, {kind}")
        else:
            det.append(f"{c}: NOT caught (exit {v['exit']})")
    if not m.get("confirmed", {}).get("valid_mutant", True):
        det.append("(on the latest tree the recorded demonstration no longer discriminates: a later fix: commit changed the behaviour it relied on; validity was confirmed on the tree the change was written for)")
    if m.get("latest_recheck", {}).get("applies") is False:
        det.append("(patch no longer applies to the latest tree: the lines it changes were rewritten by a later fix: commit)")
    rows.append(f"| {name} | {m['property']} | {', '.join(files)} | {need} | {'; '.join(det)} |")
seeded = "| seeded change | property | files | what it is / what it needs to manifest | which check catches it |\n|---|---|---|---|---|\n" + "\n".join(rows)
known = []
for line in open(os.path.join(V, "known_findings.txt")):
    line = line.strip()
    m = re.match(r"(fixed|known):\s+property=(\S+)\s+(.*)", line)
    if m:
        kind, prop, rest = m.groups()
        if kind == "fixed":
            commit, what = rest.split(" ", 1)
            known.append(f"| {prop} | fixed in `{commit}` | {what} |")
        else:
            mm = re.match(r"id=(\S+)\s+(.*)", rest)
            known.append(f"| {prop} | known finding `{mm.group(1)}` | {mm.group(2)} |")
findings = "| property | disposition | what failed on the tree as found |\n|---|---|---|\n" + "\n".join(known)
p = os.path.join(V, "DESIGN.md")
s = open(p).read()
for tag, body in (("SEEDED", seeded), ("FINDINGS", findings)):
    a, b = f"<!-- BEGIN {tag} -->", f"<!-- END {tag} -->"
    if a in s:
        s = s[: s.index(a) + len(a)] + "\n" + body + "\n" + s[s.index(b):]
open(p, "w").write(s)
print("seeded rows:", len(rows), "findings rows:", len(known))
