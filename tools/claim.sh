#!/bin/sh
# usage: tools/claim.sh C18  -- add to claimed.json, regenerate MANIFEST, validate manifest + evidence
cd "$(dirname "$0")/.." || exit 2
/venv/bin/python - "$1" <<'PY'
import json,sys
p='tools/claimed.json'; c=json.load(open(p))
if sys.argv[1] not in c: c.append(sys.argv[1]); c.sort()
json.dump(c,open(p,'w'))
PY
tools/mkmanifest.py && /opt/veriftools/pyvenv/bin/python - <<'PY'
import json,jsonschema,os
m=json.load(open('MANIFEST.json')); jsonschema.validate(m, json.load(open('/root/.vp/MANIFEST.schema.json')))
es=json.load(open('/root/.vp/EVIDENCE.schema.json'))
for c in m['checks']:
    f=c['evidence_file']
    if os.path.exists(f): jsonschema.validate(json.load(open(f)), es)
    else: print('missing evidence', f)
print('manifest+evidence valid')
PY
