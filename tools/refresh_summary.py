#!/venv/bin/python
"""Refresh the numeric columns (theorems, quick: compared, quick wall s) of the summary table of DESIGN.md section 7 from evidence/*.json,
and the counts quoted in the status paragraph at the top.  The other columns are hand-written."""
import glob, json, os, re, subprocess
V = os.path.dirname(os.path.dirname(os.path.abspath(__file__)))
p = os.path.join(V, "DESIGN.md"); s = open(p).read()
tot = 0
for f in sorted(glob.glob(os.path.join(V, "evidence", "C*.json"))):
    e = json.load(open(f)); pid = e["property_id"]; c = e["coverage"]
    tot += c["obligations"]
    def rep(m):
        cells = m.group(0).split(" | ")
        cells[2] = str(c["obligations"]); cells[3] = f"{c['traces_validated_against_impl']:,}"; cells[4] = str(e["wall_s"])
        return " | ".join(cells)
    s = re.sub(r"^\| %s \| [^\n]*$" % pid, rep, s, count=1, flags=re.M)
def wc(pattern):
    n = 0
    for f in glob.glob(os.path.join(V, pattern), recursive=True):
        n += sum(1 for _ in open(f, encoding="utf-8", errors="replace"))
    return n
counts = {"models": wc("lean/RichModel/Model/*.lean"), "lemmas": wc("lean/RichModel/Lemmas/*.lean"), "props": wc("lean/RichModel/Props/*.lean"),
          "drv": wc("lean/RichModel/Drv/*.lean") + wc("lean/Drivers/*.lean"), "harness": wc("harness/**/*.py"),
          "nmodel": len(glob.glob(os.path.join(V, "lean/RichModel/Model/*.lean"))), "nlemma": len(glob.glob(os.path.join(V, "lean/RichModel/Lemmas/*.lean")))}
print("theorems", tot, counts)
json.dump({"theorems": tot, **counts}, open(os.path.join(V, "tools", "reports", "counts.json"), "w"))
open(p, "w").write(s)
