#!/bin/sh
# usage: tools/seeds.sh C05 [seed ...]   -- run the quick check with several seeds (sequentially), print exit codes
cd "$(dirname "$0")/.." || exit 2
p=$1; shift
[ $# -eq 0 ] && set -- 1 2 3 4 5
for s in "$@"; do
  VERIF_SEED=$s ./check "$p" --tier quick > /tmp/seeds-$p-$s.log 2>&1; rc=$?
  echo "$p seed=$s exit=$rc $(grep -c '^VIOLATION' /tmp/seeds-$p-$s.log) violation-lines"
  [ $rc -ne 0 ] && grep -E '^VIOLATION|Error|error' /tmp/seeds-$p-$s.log | head -3
  rm -f /tmp/seeds-$p-$s.log
done
