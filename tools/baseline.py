#!/venv/bin/python
"""Run the repository's pinned suite (command from /root/.vp/BASELINE.json) in a given checkout and
report which of the 430 stable-pass tests no longer pass.  usage: baseline.py [repo_dir]"""
import json, os, subprocess, sys, tempfile
import xml.etree.ElementTree as ET

repo = sys.argv[1] if len(sys.argv) > 1 else "/repo"
b = json.load(open("/root/.vp/BASELINE.json"))
out = tempfile.mktemp(suffix=".xml", dir="/var/tmp")
env = dict(os.environ)
env.pop("RICH_VERIF", None)
env["PYTHONPATH"] = repo
subprocess.run(["/venv/bin/python", "-m", "pytest", "-q", "-p", "no:cacheprovider", "--timeout=900",
                "--continue-on-collection-errors", f"--junitxml={out}"], cwd=repo, env=env,
               stdout=subprocess.DEVNULL, stderr=subprocess.DEVNULL)
passed = set()
for tc in ET.parse(out).getroot().iter("testcase"):
    if not any(ch.tag in ("failure", "error", "skipped") for ch in tc):
        passed.add(f"{tc.get('classname')}::{tc.get('name')}")
os.remove(out)
missing = [t for t in b["stable_pass"] if t not in passed]
print(f"stable_pass={len(b['stable_pass'])} passed_now={len(passed)} missing={len(missing)}")
for t in missing:
    print("  NOT PASSING:", t)
sys.exit(1 if missing else 0)
