#!/venv/bin/python
"""Builds DESIGN.md section 13 from tools/reports/SESSION3_SECTION.md and the tables below; idempotent (replaces an existing section 13)."""
import json, os, re, glob
V = os.path.dirname(os.path.dirname(os.path.dirname(os.path.abspath(__file__))))
ROWS = {
 "C13": ("Lru, SegmentExtra", "25 → 37", "`chop_cells` from ANY starting position and width (`chop_cells_first_piece`, `chop_cells_fit_any_position`, and exactness `chop_cells_unique`: the greedy split is the only piece list with those clauses) — the old hypothesis `p ≤ m` is gone, `divide_line` really passes positions beyond the width; `LRUCache` as a state machine (`__setitem__`, `__getitem__`, `get`, `in`, `len`, KeyError branches, capacity ≤ 0) refining a never-evicting map restricted to the `cap` most recent keys for every history (`lru_refines_plain_map`, `lru_bounded`, `lru_hit_sound`, `cell_len_cache_is_lru`); `set_cell_size` for every integer total; `make_control`, `Segment.line`, `get_line_length`.  Follow-up: the style-carrying helpers run over 30 real `Style` objects judged by a structural key, never `Style.__eq__`"),
 "C05": ("TextStr, TextFrag", "48 → 65", "`Text.split` for any non-empty separator, both `include_separator` and `allow_blank` values (`split_str_view`, `split_incl_concat`, `split_join_inverse`); per-operation refinement theorems for `pad`, `remove_suffix`, `+`, `append_tokens`, `fit`, `detect_indentation`, `rstrip_end` (exact amount removed), `with_indent_guides`; the whole operation set as one type `OpAll` with `inv_history_full` / `history_render_full` over every history; the `_text` fragment list modelled as the code keeps it and proved unobservable (`frag_refines_history`, `plain_normalisation_unobservable`)"),
 "C16": ("PrettyConsole", "32 → 42", "`Pretty.__rich_console__` has theorems (`console_chars_exact`, `console_is_pretty_repr`, `console_guides_chars`: `Text.with_indent_guides` itself is modelled, ZeroDivisionError at indent_size 0 included); the measurement theorem covers `margin ≥ 0` (`pretty_measure_sound_margin`, for the repaired code) and leaf reprs with line boundaries (`pretty_measure_sound_pieces`, with a `decide` witness that its remaining hypothesis cannot be dropped)"),
 "C07": ("TableRows", "53 → 68", "exact expansion beyond free columns: `table_expand_exact_general`, `table_expand_exact_no_wrap` (no_wrap / width / max_width columns, no proviso), `table_expand_exact_above_floors` (min_width columns whenever the collapse stays above every floor — with the witness `expand_min_width_column_overflows` this is the exact boundary, see the known finding); `add_row` modelled statement by statement incl. the half-updated table after `NotRenderableError` (`add_row_spec`, `add_rows_in_insertion_order`, `add_row_error_state`, `built_table_rows`); row / cell / border / divider styles as symbolic source lists (`row_styles_cycle`, `cell_style_spec`, …) compared with real `Style.__add__` per character.  Follow-up: cell texts with U+3000 / U+00A0 / U+2003 / U+200B separators and range-boundary wide characters, widths by a linear scan of the translated table"),
 "C03": ("AnsiPrint", "32 → 45", "the route `console.print` → `Segment.apply_style` → crop / soft-wrap resolution → `split_and_crop_lines` → `_buffer` → `_render_buffer` → write is a model (`print_means_segments`, `print_step_sound`, `print_crop_adds_no_esc`; the character-level form `…_chars_partial` only without `style=`); the `NoEscIn` hypothesis weakened to `SafeText` at token level with witnesses that it cannot be weakened further (`tokenize_reads_back_safe`, `embedded_sequences_are_executed`); `ansi_codes_table`, `attr_codes_table` (every attribute word), `style_map_rows`"),
 "C01": ("— (Lemmas/CollapseLow, LayoutTableLow)", "18 → 22", "two of the three NOT DISCHARGED exclusions of `Dom` are proved and removed (tables / Columns / Constrain / Align offered fewer cells than columns: `collapseWidths_low` by induction over the collapse loop and `ratio_reduce` with banker's rounding; `free_table_below_one_cell_per_column`, `column_widths_below_one_cell_per_column`, `collapse_below_one_cell_per_column`, and a `decide +kernel` witness that the bound is reached exactly); `Dom` is strictly larger, so `render_fits` and C09's `render_at_max_fits` / `render_at_min_fits` are stronger.  `Columns(width ≥ 1)` stays NOT DISCHARGED"),
 "C12": ("ProgressFmt", "25 → 38", "`speed_window`, `samples_within_window`, `samples_bounded` (the sample deque on any clock / history), `track_finishes_iff`; `filesize.pick_unit_and_suffix` / `_to_str` / `decimal`, the Download / TransferSpeed / TimeRemaining / TimeElapsed columns incl. `str(timedelta)` and its OverflowError branch, the percentage text, `BarColumn` arguments and `ProgressBar`'s half-cell arithmetic modelled with Python's float division and `,.1f` formatting exactly (compared as text): `pick_unit_law`, `pick_unit_unique`, `td_str_hms`, `bar_args_clamped`, …; `bar_text_width_partial` (needs monotonicity of the rounded division for total ≠ 0)"),
 "C17": ("SyntaxTrace", "30 → 37", "`Traceback.extract` + `__rich_console__` over any finite exception tree (`chain_is_shown_oldest_first`: cause vs context wording), `_render_stack` frame by frame incl. the code cache (`render_stack_frame_by_frame`), `readable_frame_shows_marked_line` (for the repaired code), the gutter (`gutter_shows_pointer_and_number`) and word-wrap continuation rows (`folded_rows_have_blank_gutter`, `wordwrap_rows_numbered_once`)"),
 "C15": ("ConsoleFormat, ConsoleLogTime", "32 → 40", "`code_format` as a `str.format` scan with its error branch (`code_format_ok_iff`, `code_format_error_branch`, `code_format_doubled_braces`, `code_format_step`: a raising format leaves the record), the whole-document theorem for ANY template containing `{code}` once (`export_html_document_decoded`, `…_format`, with a `decide` witness for its `&` condition), `LogRender._last_time` as model state (`log_time_cells`)"),
}
FINDINGS = [
 "* **C16 `pretty-measure-ignores-margin`** — `Pretty.__rich_measure__` never looked at `self.margin` although `__rich_console__` renders at `max_width - margin`: `Panel.fit(Pretty([['aaaa']], margin=1))` cropped `'aaaa'` to `'a`. Repaired in /repo `f3605d0` (three lines); flag `MEASURE_IGNORES_MARGIN` flipped to 0; theorem `pretty_measure_sound_margin`, witness `old_pretty_measure_margin_unsound`.",
 "* **C17 `traceback-unknown-extension-shows-no-source`** — `Traceback._guess_lexer` let Pygments' `ClassNotFound` escape into the generic `except Exception` of `_render_stack`: a frame in a readable file whose name no lexer claims (script without extension, `tool.zzq`) showed \"no lexer for filename … found\" instead of its source line. Repaired in /repo `52ad8fd`; flag `GUESS_RAISES` flipped to 0; theorem `readable_frame_shows_marked_line`, witness `old_unknown_extension_shows_no_source`.",
 "* **C07 `table-column-min-width-overflow`** (known finding, not repaired) — an expanding table with a `min_width` column comes out wider than the available width although the floors fit (`[10, 8]` for 16): `_collapse_widths` ignores `min_width`, the re-measure puts the floor back and nothing shrinks the other columns. One extra collapse pass fails with several `min_width` columns (counterexample in `tools/reports/C07-deepen4.md`), a floor-aware collapse changes tables that render correctly today: no small safe repair. `table_expand_exact_above_floors` + `expand_min_width_column_overflows` give the exact boundary.",
]
SEEDED_NOTES = {}
if __name__ == "__main__":
    extra = os.path.join(os.path.dirname(__file__), "session3_extra.json")
    if os.path.exists(extra):
        e = json.load(open(extra))
        ROWS.update({k: tuple(v) for k, v in e.get("rows", {}).items()})
        FINDINGS.extend(e.get("findings", []))
        SEEDED_NOTES.update(e.get("seeded_notes", {}))
    order = sorted(ROWS, key=lambda k: int(k[1:]))
    rows = "\n".join(f"| {k} | {ROWS[k][0]} | {ROWS[k][1]} | {ROWS[k][2]} |" for k in order)
    # seeded summary: the first-run misses are listed by hand in session3_extra.json / FIRST_MISSES, the latest state is read from meta.json
    caught = 0; still = []
    for d in sorted(glob.glob(os.path.join(V, "seeded", "*-g[123]"))):
        m = json.load(open(os.path.join(d, "meta.json"))); name = os.path.basename(d); own = m["property"]
        if m["detected_by"].get(own, {}).get("exit") == 1: caught += 1
        else: still.append(name)
    seeded = (f"First run: 49 of the 60 were caught by the owning property's quick check (47 with a failing input on real rich, C19-g1 and C11-g2 as "
              f"`no-failing-input-found`); 11 were not.  Latest recorded run (after the follow-ups of this session): {caught} of 60 caught by the owning check"
              + (f"; not caught by the owning check: {', '.join(still)}" if still else "") + ".  The eleven first-run misses and what became of each:\n\n"
              + "\n".join(f"* `{k}` — {v}" for k, v in sorted(SEEDED_NOTES.items())))
    sec = open(os.path.join(os.path.dirname(__file__), "SESSION3_SECTION.md")).read()
    # 13.3: the model files as they are now, with their Model-level imports and line counts
    mods = []
    for f in sorted(glob.glob(os.path.join(V, "lean", "RichModel", "Model", "*.lean"))):
        src = open(f, encoding="utf-8").read(); name = os.path.basename(f)[:-5]
        imps = re.findall(r"^import RichModel\.(?:Model|Gen)\.(\w+)", src, flags=re.M)
        mods.append(f"| {name} | {src.count(chr(10))} | {', '.join(imps) if imps else '—'} |")
    sec += ("\n### 13.3 The model files as they are now (supersedes the list of 35 in section 6)\n\n"
            f"{len(mods)} files under `lean/RichModel/Model/`, all importing nothing outside `RichModel.Model` / `RichModel.Gen` (each native driver links without Mathlib); "
            "`RichModel/AllModels.lean` imports all of them at once and builds, so no two models declare the same name.  Files added by the third session: "
            "Lru, SegmentExtra (C13); TextStr, TextFrag, TextTabs (C05 / C02); PrettyConsole (C16); TableRows (C07); AnsiPrint (C03); ProgressFmt (C12); SyntaxTrace (C17); "
            "ConsoleFormat, ConsoleLogTime (C15); FramesBarsStyled (C08); StyleCtor (C06); MarkupHL (C04); TermStyle, LiveCrop (C10); ThemeCtx (C20); ColorMore (C18); AnsiParams, AnsiProxyApi (C19); TotalityTitle (C14).\n\n"
            "| model file | lines | imports (Model / Gen) |\n|---|---|---|\n" + "\n".join(mods) + "\n")
    sec = sec.replace("@@ROWS@@", rows).replace("@@FINDINGS@@", "\n".join(FINDINGS)).replace("@@SEEDED@@", seeded)
    p = os.path.join(V, "DESIGN.md"); s = open(p).read()
    s = re.sub(r"\n-{20,}\n\n## 13\. Third session.*\Z", "", s, flags=re.S)
    s = s.rstrip("\n") + "\n\n" + "-" * 99 + "\n\n" + sec
    open(p, "w").write(s)
    print("section 13 written;", caught, "of 60 caught by own check; still not:", still)
