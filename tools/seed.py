#!/venv/bin/python
"""Confirm a seeded mutant and record it under /verif/seeded/<name>/.
usage: seed.py <worktree> <k> <PROPERTY> <name>  [--checks C13,C01]
Confirms (in the scratch worktree, never in /repo): patch applies; pinned suite still passes with it;
demo fails with it and passes without it.  Then runs ./check <PROPERTY> with VERIF_REPO=<worktree>
(mutant applied) and records whether it was detected."""
import json, os, shutil, subprocess, sys, time
if sys.argv[1] == "--recheck":
    # seed.py --recheck <name> [--checks ...]: re-run a recorded seeded change in a temporary worktree
    name = sys.argv[2]
    V = os.path.dirname(os.path.dirname(os.path.abspath(__file__)))
    d = os.path.join(V, "seeded", name)
    meta = json.load(open(os.path.join(d, "meta.json")))
    wt = f"/tmp/mut/recheck-{name}"
    subprocess.run(["git", "-C", "/repo", "worktree", "add", "-q", "--detach", wt, "HEAD"], check=True)
    shutil.copy(os.path.join(d, "patch.diff"), os.path.join(wt, "mutant1.diff"))
    shutil.copy(os.path.join(d, "demo.py"), os.path.join(wt, "demo1.py"))
    open(os.path.join(wt, "note1.txt"), "w").write(meta.get("needs_to_manifest", ""))
    try:
        rc = subprocess.run([sys.argv[0], wt, "1", meta["property"], name] + sys.argv[3:]).returncode
    finally:
        subprocess.run(["git", "-C", "/repo", "worktree", "remove", "--force", wt])
    sys.exit(rc)
wt, k, prop, name = sys.argv[1:5]
checks = [prop]
if "--checks" in sys.argv:
    checks = sys.argv[sys.argv.index("--checks") + 1].split(",")
VERIF = os.path.dirname(os.path.dirname(os.path.abspath(__file__)))
def run(cmd, **kw):
    p = subprocess.run(cmd, stdout=subprocess.PIPE, stderr=subprocess.STDOUT, text=True, **kw)
    return p.returncode, p.stdout
diff = os.path.join(wt, f"mutant{k}.diff"); demo = os.path.join(wt, f"demo{k}.py"); note = os.path.join(wt, f"note{k}.txt")
run(["git", "-C", wt, "checkout", "--", "rich"])
rc_clean, out_clean = run(["/venv/bin/python", demo], cwd=wt)
rc, out = run(["git", "-C", wt, "apply", diff])
if rc != 0:
    # the code this patch touched has since been changed by a `fix:` commit: keep the record, say so
    mp = os.path.join(VERIF, "seeded", name, "meta.json")
    if os.path.exists(mp):
        meta = json.load(open(mp))
        meta["latest_recheck"] = {"repo_head": run(["git", "-C", "/repo", "rev-parse", "--short", "HEAD"])[1].strip(), "applies": False,
                                  "note": "patch no longer applies to the current tree (the lines it changes were rewritten by a later fix: commit); the detection recorded above is from the tree it was written for"}
        json.dump(meta, open(mp, "w"), indent=1)
    print(name, "PATCH NO LONGER APPLIES")
    sys.exit(0)
try:
    rc_mut, out_mut = run(["/venv/bin/python", demo], cwd=wt)
    rc_base, out_base = run([os.path.join(VERIF, "tools", "baseline.py"), wt])
    det = {}
    saved = {}
    for c in checks:
        ev = os.path.join(VERIF, "evidence", f"{c}.json")
        saved[c] = open(ev).read() if os.path.exists(ev) else None
    for c in checks:
        env = dict(os.environ, VERIF_REPO=wt)
        t = time.time()
        rcc, outc = run([os.path.join(VERIF, "check"), c, "--tier", "quick"], cwd=VERIF, env=env)
        det[c] = {"exit": rcc, "violation_lines": [l for l in outc.splitlines() if l.startswith("VIOLATION")], "wall_s": round(time.time() - t, 1)}
finally:
    run(["git", "-C", wt, "checkout", "--", "rich"])
    # the evidence files must describe runs against /repo itself, not against a seeded tree
    for c, text in saved.items():
        if text is not None:
            open(os.path.join(VERIF, "evidence", f"{c}.json"), "w").write(text)
    run(["/venv/bin/python", os.path.join(VERIF, "harness", "tables.py")])
ok = rc_clean == 0 and rc_mut != 0 and rc_base == 0
d = os.path.join(VERIF, "seeded", name); os.makedirs(d, exist_ok=True)
shutil.copy(diff, os.path.join(d, "patch.diff")); shutil.copy(demo, os.path.join(d, "demo.py"))
meta = {"property": prop, "needs_to_manifest": open(note).read().strip() if os.path.exists(note) else "",
        "confirmed": {"demo_exit_clean": rc_clean, "demo_exit_with_patch": rc_mut, "baseline_with_patch": out_base.strip().splitlines()[0] if out_base.strip() else "", "valid_mutant": ok},
        "ran": [f"VERIF_REPO=<scratch worktree with patch applied> ./check {c} --tier quick" for c in checks], "detected_by": det}
json.dump(meta, open(os.path.join(d, "meta.json"), "w"), indent=1)
print(name, "valid" if ok else "INVALID", {c: (v["exit"], v["violation_lines"][:2]) for c, v in det.items()})
