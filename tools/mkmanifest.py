#!/venv/bin/python
"""Regenerate MANIFEST.json from harness/props/*.py (each module carries a MANIFEST dict)."""
import importlib, json, os, sys
VERIF = os.path.dirname(os.path.dirname(os.path.abspath(__file__)))
sys.path.insert(0, os.path.join(VERIF, "harness"))
props = [json.loads(l)["id"] for l in open(os.path.join(VERIF, "properties.jsonl"))]
checks, na = [], []
PENDING = json.load(open(os.path.join(VERIF, "tools", "not_applicable.json")))
CLAIMED = json.load(open(os.path.join(VERIF, "tools", "claimed.json")))
for pid in props:
    path = os.path.join(VERIF, "harness", "props", pid.lower() + ".py")
    if pid not in CLAIMED or not os.path.exists(path):
        na.append({"property_id": pid, "reason": PENDING.get(pid, "model, theorems and correspondence for this property are not built yet (DESIGN.md section 7 describes the plan); not claimed until they are")})
        continue
    m = importlib.import_module("props." + pid.lower())
    d = getattr(m, "MANIFEST")
    checks.append({
        "property_id": pid,
        "quick_cmd": f"./check {pid} --tier quick",
        "thorough_cmd": f"./check {pid} --tier thorough",
        "evidence_file": f"evidence/{pid}.json",
        "replay_cmd_template": f"./check {pid} --replay {{path}}",
        "engine": "lean4-proof+correspondence",
        "level_claimed": {"category": "proof", "text": d["text"], "design_ref": d.get("design_ref", "DESIGN.md section 7")},
        "level_note": d["note"],
        "technique": d.get("technique", "Lean 4 theorems over a hand-written executable model, tied to the code by differential correspondence through a line protocol"),
    })
man = {
    "version": 1,
    "setup_cmd": "./setup.sh",
    "hooks": {
        "guard": "RICH_VERIF",
        "enable": "no source hooks are needed: the harness imports rich from /repo in-process; RICH_VERIF=1 is exported by ./check for future hooks",
        "baseline_off_cmd": "cd /repo && /venv/bin/python -m pytest -ra -q -p no:cacheprovider --timeout=900 --continue-on-collection-errors",
        "source_commits": [],
        "add_only": True,
    },
    "engines": [{
        "name": "lean4-proof+correspondence",
        "path": "lean/ (models, lemmas, property theorems, driver) + harness/ (translator, correspondence, direct evaluation)",
        "serves_properties": [c["property_id"] for c in checks],
        "kind_free_text": "machine-checked proof in Lean 4.33 about executable models; model tied to /repo by a regenerated table translator and a differential correspondence run on every check",
    }],
    "checks": checks,
    "not_applicable": na,
    "notes": "See DESIGN.md. known_findings.txt lists repaired defects (fixed:) and recorded findings (known:).",
}
json.dump(man, open(os.path.join(VERIF, "MANIFEST.json"), "w"), indent=1)
print("checks:", [c["property_id"] for c in checks], "not_applicable:", [n["property_id"] for n in na])
