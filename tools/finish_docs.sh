#!/bin/sh
# Regenerate every generated part of the documentation and the manifest from the sources of truth
# (harness/props/*.py MANIFEST dicts, known_findings.txt, seeded/*/meta.json, evidence/*.json, tools/reports/*).
cd "$(dirname "$0")/.." || exit 2
set -e
/venv/bin/python tools/mkmanifest.py
python3-vt - <<'EOF'
import json, jsonschema
m = json.load(open("MANIFEST.json")); jsonschema.validate(m, json.load(open("/root/.vp/MANIFEST.schema.json")))
ev = json.load(open("/root/.vp/EVIDENCE.schema.json"))
import glob
for f in sorted(glob.glob("evidence/C*.json")):
    jsonschema.validate(json.load(open(f)), ev)
print("MANIFEST.json and", len(glob.glob("evidence/C*.json")), "evidence files validate")
EOF
/venv/bin/python tools/mkdesign_tables.py
/venv/bin/python tools/reports/summary_rows_update.py
/venv/bin/python tools/refresh_summary.py
/venv/bin/python tools/reports/session3_rows.py
/venv/bin/python - <<'EOF'
import json, re, subprocess
c = json.load(open("tools/reports/counts.json"))
s = open("DESIGN.md").read()
k = lambda n: f"{n/1000:.0f}k" if n >= 10000 else f"{n/1000:.1f}k"
nfix = sum(1 for l in open("known_findings.txt") if l.startswith("fixed:")); nknown = sum(1 for l in open("known_findings.txt") if l.startswith("known:"))
import glob
nseed = len(glob.glob("seeded/*/meta.json"))
status = (f"Status of this document: written in round 0 (after reading every anchored file end to end, probing\n"
 f"the real code and spiking the Lean side), brought up to date during the build round, after the deepening rounds\n"
 f"(one to three per property) and five rounds of seeded changes, and again by the third session (deepening round 4 for\n"
 f"every property and a sixth seeded round: section 13, which also says where sections 6 and 7 are superseded). Sections 2, 5, 6, 7, 8, 11, 13\n"
 f"describe what was built; sections 1, 3, 4 and 9 are the design as planned, with notes starting \"As built:\"\n"
 f"wherever the build departed from the plan. All twenty properties are claimed in MANIFEST.json at level\n"
 f"`proof`; the Lean library is ~{k(c['models']+c['lemmas']+c['props']+c['drv'])} lines ({k(c['models'])} models in {c['nmodel']} files, {k(c['lemmas'])} lemmas in {c['nlemma']} files, {k(c['props'])} property files with {c['theorems']} property\n"
 f"theorems, {k(c['drv'])} driver handlers), the harness ~{k(c['harness'])} lines of Python; {nfix} `fix:` commits in /repo, {nknown} `known:` lines, {nseed} seeded changes;\n"
 f"every check runs offline in about a minute or less in the quick tier (see the summary table of section 7 for the committed runs).\n")
s = re.sub(r"Status of this document:.*?\n\nContents\n", status + "\nContents\n", s, count=1, flags=re.S)
if "* §13 " not in s:
    s = s.replace("* §12 Not applicable\n", "* §12 Not applicable\n* §13 Third session: deepening round 4 and the sixth seeded round (what was added, what was found, which misses were closed)\n", 1)
open("DESIGN.md", "w").write(s)
print("header updated:", c)
EOF
