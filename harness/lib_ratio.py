"""Correspondence + direct evaluation for the layout arithmetic: rich/_ratio.py, Table._collapse_widths,
Measurement.normalize/clamp/get post-processing.  Model: lean/RichModel/Model/Ratio.lean, theorems in
Lemmas/Ratio.lean (re-exported by Props/C07.lean and Props/C09.lean).  Used by props/c07.py and props/c09.py."""
import itertools


def enc_ints(l):
    return f"{len(l)}:" + " ".join(str(int(x)) for x in l)


def enc_opt(x):
    return "-" if x is None else str(x)


def run_ratio(ctx, scale=1.0):
    from rich._ratio import ratio_distribute, ratio_reduce
    from rich.table import Table

    rng = ctx.rng

    # ---------------- ratio_distribute
    def do_distribute(total, ratios, mins):
        try:
            got = ratio_distribute(total, list(ratios), None if mins is None else list(mins))
            ans = enc_ints(got)
        except AssertionError:
            got, ans = None, "err:AssertionError"
        except ZeroDivisionError:
            got, ans = None, "err:ZeroDivisionError"
        ctx.case("ratio.distribute", [total, enc_ints(ratios), "-" if mins is None else enc_ints(mins)], ans,
                 shape=("nomin" if mins is None else "min") + f"/n{len(ratios)}", sample=f"ratio_distribute({total},{list(ratios)},{mins})")
        if got is not None and all(r >= 0 for r in ratios):
            if mins is None and total >= 0:
                ctx.check(sum(got) == total and len(got) == len(ratios) and all(g >= 0 for g in got), "ratio_distribute", (total, ratios),
                          f"parts {got} do not sum to the total / are negative")
            elif mins is not None and len(mins) == len(ratios):
                ctx.check(sum(got) >= total, "ratio_distribute(minimums)", (total, ratios, mins), f"parts {got} sum to less than the total")

    for n in range(1, 4):
        for ratios in itertools.product([0, 1, 2, 3], repeat=n):
            for total in range(0, 12):
                do_distribute(total, ratios, None)
            for mins in itertools.product([0, 1, 3], repeat=n):
                for total in (0, 1, 4, 7):
                    do_distribute(total, ratios, mins)
    for _ in range(int(4000 * scale)):
        n = rng.randint(1, 7)
        ratios = [rng.choice([0, 1, 1, 2, 3, 5, 8]) for _ in range(n)]
        mins = None if rng.random() < 0.5 else [rng.choice([0, 1, 2, 5, 9]) for _ in range(n)]
        do_distribute(rng.randint(-3, 120), ratios, mins)

    # ---------------- ratio_reduce
    def do_reduce(total, ratios, maxs, values):
        got = ratio_reduce(total, list(ratios), list(maxs), list(values))
        ctx.case("ratio.reduce", [total, enc_ints(ratios), enc_ints(maxs), enc_ints(values)], enc_ints(got),
                 shape=f"n{len(values)}", sample=f"ratio_reduce({total},{list(ratios)},{list(maxs)},{list(values)})")
        if total >= 0 and all(r >= 0 for r in ratios) and all(m >= 0 for m in maxs) and len(ratios) == len(maxs) == len(values):
            ok = sum(values) - total <= sum(got) <= sum(values) and all(v - m <= g <= v for g, v, m in zip(got, values, maxs))
            if any(r and m for r, m in zip(ratios, maxs)) and all(m >= total for m in maxs):
                ok = ok and sum(got) == sum(values) - total
            ctx.check(ok, "ratio_reduce", (total, ratios, maxs, values), f"result {got} takes more than asked, more than a maximum, or not everything when no maximum binds")

    for n in range(1, 4):
        for ratios in itertools.product([0, 1, 2], repeat=n):
            for maxs in itertools.product([0, 1, 5], repeat=n):
                for total in (0, 1, 2, 3, 5):
                    do_reduce(total, ratios, maxs, [7] * n)
    for _ in range(int(4000 * scale)):
        n = rng.randint(1, 7)
        do_reduce(rng.randint(0, 60), [rng.choice([0, 1, 1, 2, 3]) for _ in range(n)], [rng.choice([0, 1, 2, 10, 50]) for _ in range(n)], [rng.randint(0, 40) for _ in range(n)])

    # ---------------- Table._collapse_widths
    def do_collapse(widths, wrapable, max_width):
        got = Table._collapse_widths(list(widths), list(wrapable), max_width)
        ctx.case("ratio.collapse", [enc_ints(widths), enc_ints([int(b) for b in wrapable]), max_width], enc_ints(got),
                 shape=f"n{len(widths)}/{'all' if all(wrapable) else 'some' if any(wrapable) else 'none'}", sample=f"_collapse_widths({list(widths)},{list(wrapable)},{max_width})")
        ok = len(got) == len(widths) and all(g >= 0 for g in got) and sum(got) <= sum(widths)
        if any(wrapable):
            ok = ok and (sum(got) <= max_width or all(g == 0 for g, b in zip(got, wrapable) if b))
        ok = ok and all(g == w for g, w, b in zip(got, widths, wrapable) if not b) and all(g <= w for g, w in zip(got, widths))
        if sum(widths) >= max_width:
            ok = ok and sum(got) >= max_width
        ctx.check(ok, "_collapse_widths", (widths, wrapable, max_width), f"collapsed widths {got} break the post-condition")

    for n in range(1, 4):
        for widths in itertools.product([0, 1, 3, 4, 9], repeat=n):
            for wrapable in itertools.product([False, True], repeat=n):
                for mw in (0, 1, 2, 5, 8, 30):
                    do_collapse(widths, wrapable, mw)
    for _ in range(int(4000 * scale)):
        n = rng.randint(1, 7)
        do_collapse([rng.randint(0, 40) for _ in range(n)], [rng.random() < 0.7 for _ in range(n)], rng.randint(0, 120))


def run_measure(ctx, scale=1.0):
    from rich.console import Console
    from rich.measure import Measurement

    rng = ctx.rng
    vals = [-3, -1, 0, 1, 2, 5, 9]
    for mn in vals:
        for mx in vals:
            m = Measurement(mn, mx)
            n = m.normalize()
            ctx.case("measure.normalize", [mn, mx], f"{n.minimum} {n.maximum}", sample=f"Measurement({mn},{mx}).normalize()")
            ctx.check(0 <= n.minimum <= n.maximum, "Measurement.normalize", (mn, mx), f"normalize gives {n}")
            for lo in [None, -2, 0, 3, 7]:
                for hi in [None, -2, 0, 3, 7]:
                    c = m.clamp(lo, hi)
                    ctx.case("measure.clamp", [mn, mx, enc_opt(lo), enc_opt(hi)], f"{c.minimum} {c.maximum}")

    class Fake:
        def __init__(self, m):
            self.m = m

        def __rich_console__(self, console, options):
            yield ""

        def __rich_measure__(self, console, max_width):
            return self.m

    class NoMeasure:
        def __rich_console__(self, console, options):
            yield ""

    console = Console(width=80)
    for w in [-1, 0, 1, 2, 5, 10]:
        for mn in vals + [50]:
            for mx in vals + [50]:
                g = Measurement.get(console, Fake(Measurement(mn, mx)), w)
                ctx.case("measure.getpost", [w, mn, mx], f"{g.minimum} {g.maximum}", sample=f"Measurement.get(renderable measuring ({mn},{mx}), {w})")
                ctx.check(0 <= g.minimum <= g.maximum <= max(w, 0), "Measurement.get", (w, mn, mx), f"Measurement.get gives {g}")
        g = Measurement.get(console, NoMeasure(), w)
        ctx.case("measure.getpost", [w, "-", "-"], f"{g.minimum} {g.maximum}")
        ctx.check(0 <= g.minimum <= g.maximum <= max(w, 0), "Measurement.get(no __rich_measure__)", w, f"Measurement.get gives {g}")
