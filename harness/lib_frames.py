"""Helpers for C08 (framing renderables): consoles for an environment, expression trees that are built both as
real rich objects and as requests for the Lean model, leaf (child oracle) tabulation, batching."""
import hashlib
import io
import os
import sys
from fractions import Fraction

from core import enc_bool, enc_str

HERE = os.path.dirname(os.path.abspath(__file__))

COLOR_SYSTEMS = [None, "standard", "256", "truecolor", "windows"]
JUSTIFY_CODE = {None: "-", "default": "d", "left": "l", "center": "c", "right": "r", "full": "f"}
OVERFLOW_CODE = {None: "-", "fold": "f", "crop": "c", "ellipsis": "e", "ignore": "i"}


class _File(io.StringIO):
    def __init__(self, encoding):
        super().__init__()
        self._enc = encoding

    @property
    def encoding(self):
        return self._enc


class Env:
    """console.width, ascii_only (via the file's encoding), legacy_windows, safe_box, no_color, color_system."""

    def __init__(self, width, ascii_only=False, legacy_windows=False, safe_box=True, no_color=False, color_system=None, height=25,
                 justify=None, overflow=None, no_wrap=None):
        self.width, self.ascii_only, self.legacy_windows = width, ascii_only, legacy_windows
        self.safe_box, self.no_color, self.color_system = safe_box, no_color, color_system
        self.height = height
        # ConsoleOptions handed to the frame besides the width: they travel unchanged to the children (the oracle)
        self.justify, self.overflow, self.no_wrap = justify, overflow, no_wrap

    def options(self, console, mw):
        return console.options.update(width=mw, justify=self.justify, overflow=self.overflow, no_wrap=self.no_wrap)

    def console(self):
        from rich.console import Console

        c = Console(
            width=self.width,
            height=self.height,
            file=_File("ascii" if self.ascii_only else "utf-8"),
            color_system=self.color_system,
            legacy_windows=self.legacy_windows,
            safe_box=self.safe_box,
            no_color=self.no_color,
            force_terminal=False,
            force_jupyter=False,
            _environ={},
        )
        assert c.width == self.width and c.options.ascii_only == self.ascii_only
        assert c.options.legacy_windows == self.legacy_windows and c.no_color == self.no_color
        assert c.color_system == self.color_system
        return c

    def enc(self):
        return ",".join(
            [str(self.width), enc_bool(self.ascii_only), enc_bool(self.legacy_windows), enc_bool(self.safe_box), enc_bool(self.no_color), str(COLOR_SYSTEMS.index(self.color_system)), str(self.height),
             JUSTIFY_CODE[self.justify], OVERFLOW_CODE[self.overflow], "-" if self.no_wrap is None else enc_bool(self.no_wrap)]
        )

    def __repr__(self):
        return f"Env(width={self.width}, ascii_only={self.ascii_only}, legacy_windows={self.legacy_windows}, safe_box={self.safe_box}, no_color={self.no_color}, color_system={self.color_system!r}, height={self.height}, justify={self.justify!r}, overflow={self.overflow!r}, no_wrap={self.no_wrap!r})"


def box_names():
    sys.path.insert(0, HERE)
    from gen import boxes as genboxes
    from core import REPO

    bx, _subst, _ascii = genboxes.parse(REPO)
    return [b[0] for b in bx]


# ----------------------------------------------------------------------------------------------- expressions
# An expression is a tuple: ("L", i) | ("PAD", dims(list|int), expand, e) | ("PANEL", opts, e) | ("ALIGN", opts, e)
# | ("CONSTRAIN", width, e) | ("STYLED", e) | ("RULE", opts) | ("BAR", opts) | ("PBAR", opts)
# opts are dicts.  `build` makes the real rich object (fresh every call), `enc` the model request.

ALIGN_CODE = {"left": "l", "center": "c", "right": "r"}

_IDS = {}


def _vid(v):
    """ids for values that the model only compares with == (colours, links)"""
    if v is None:
        return "-"
    return str(_IDS.setdefault(v, len(_IDS)))


def enc_style(st):
    """the compared fields of a Style: set_attributes.attributes.color.bgcolor.link  (None -> '-')"""
    if st is None:
        return "-"
    return f"{st._set_attributes}.{st._attributes}.{_vid(st._color)}.{_vid(st._bgcolor)}.{_vid(st._link or None)}"


def style_of(console, name):
    return None if name is None else console.get_style(name)


def enc_text(console, t):
    """a Text for the model (Model/Text.lean): plain;base style;nspans;(start;end;style)*;justify;overflow;no_wrap;end;tab_size"""
    from rich.style import Style

    def rs(x):
        return enc_style(console.get_style(x, default=Style.null()))

    toks = [enc_str(t.plain), rs(t.style), str(len(t.spans))]
    for sp in t.spans:
        toks += [str(sp.start), str(sp.end), rs(sp.style)]
    toks += [JUSTIFY_CODE[t.justify], OVERFLOW_CODE[t.overflow], "-" if t.no_wrap is None else enc_bool(t.no_wrap), enc_str(t.end),
             "-" if t.tab_size is None else str(t.tab_size)]
    return ";".join(toks)


def title_text(title):
    """the Text that Panel._title starts from"""
    from rich.text import Text

    return Text.from_markup(title) if isinstance(title, str) else title.copy()


STYLE_COMPLETE = {"L", "PAD", "PANEL", "ALIGN", "CONSTRAIN", "STYLED", "VC", "RULET"}


def style_complete(e):
    """every segment style of this expression is modelled (frames whose own styles are not: Rule, Bar, ProgressBar, Tree)"""
    k = e[0]
    if k not in STYLE_COMPLETE:
        return False
    if k in ("L", "RULET"):
        return True
    return style_complete(e[-1] if k != "PAD" else e[3])


def _opt(n):
    return "-" if n is None else str(int(n))


def _frac(x):
    f = Fraction(x)
    return f"{f.numerator};{f.denominator}"


def _dims(pad):
    return [pad] if isinstance(pad, int) else list(pad)


def title_plain(title):
    """`.plain` of the Text that Panel._title / Rule start from (independent of the option processing that follows)."""
    from rich.text import Text

    if title is None:
        return ""
    if isinstance(title, Text):
        return title.plain
    return Text.from_markup(title).plain


def _tri(v):
    return "-" if v is None else enc_bool(v)


def enc_node(node, names, console, shift=0):
    label, gs, expanded, children = node
    st = console.get_style(gs)
    return ";".join(["N", _tri(st.bold), _tri(st.underline2), enc_bool(expanded), str(len(children)), enc(label, names, console, shift)] + [enc_node(c, names, console, shift) for c in children])


COLS_SHIFT = [0]  # number of base leaves: inside Columns the items are rendered with the options of a default table Column


def enc(e, names, console=None, shift=0):
    k = e[0]
    if k == "L":
        return f"L;{e[1] + shift}"
    if k == "TREE":
        return "TREE;" + enc_node(e[1], names, console, shift)
    if k == "PAD":
        d = _dims(e[1])
        st = enc_style(console.get_style(e[4] if len(e) > 4 else "none"))
        return ";".join(["PAD", st, enc_bool(e[2]), str(len(d))] + [str(x) for x in d] + [enc(e[3], names, console, shift)])
    if k == "PANEL":
        o = e[1]
        d = _dims(o.get("padding", (0, 1)))
        sb = o.get("safe_box")
        return ";".join(
            ["PANEL", enc_style(console.get_style(o.get("style", "none"))), enc_style(console.get_style(o.get("border_style", "none"))),
             str(names.index(o.get("box", "ROUNDED")))]
            + (["S", enc_str(title_plain(o.get("title")))] if o.get("_tmode", "T") == "S" or o.get("title") is None
               else ["T", enc_bool(bool(o["title"])), enc_text(console, title_text(o["title"]))])
            + [ALIGN_CODE[o.get("title_align", "center")],
             "-" if sb is None else enc_bool(sb), enc_bool(o.get("expand", True)), _opt(o.get("width")), str(len(d))]
            + [str(x) for x in d]
            + [enc(e[2], names, console, shift)]
        )
    if k == "ALIGN":
        o = e[1]
        return ";".join(["ALIGN", enc_style(style_of(console, o.get("style"))), ALIGN_CODE[o["align"]], enc_bool(o.get("pad", True)), _opt(o.get("width")), enc(e[2], names, console, shift)])
    if k == "CONSTRAIN":
        return ";".join(["CONSTRAIN", _opt(e[1]), enc(e[2], names, console, shift)])
    if k == "STYLED":
        return "STYLED;" + enc_style(console.get_style(e[2] if len(e) > 2 else "bold")) + ";" + enc(e[1], names, console, shift)
    if k == "VC":
        return "VC;" + enc_style(style_of(console, e[1])) + ";" + enc(e[2], names, console, shift)
    if k == "COLS":
        o = e[1]
        d = _dims(o.get("padding", (0, 1)))
        al = o.get("align")
        return ";".join(["COLS", str(len(d))] + [str(x) for x in d]
                        + [_opt(o.get("width")), enc_bool(o.get("equal", False)), enc_bool(o.get("column_first", False)),
                           enc_bool(o.get("right_to_left", False)), enc_bool(o.get("expand", False)), "-" if al is None else ALIGN_CODE[al], str(len(e[2]))]
                        + [enc(x, names, console, COLS_SHIFT[0]) for x in e[2]])
    if k == "RULET":
        from rich.text import Text

        o = e[1]
        t = o.get("title", "")
        tt = t.copy() if isinstance(t, Text) else (console.render_str(t, style="rule.text") if t else Text(""))
        return ";".join(["RULET", enc_bool(bool(t)), enc_text(console, tt), enc_str(o.get("characters", "─")), enc_str(o.get("end", "\n")),
                         ALIGN_CODE[o.get("align", "center")], enc_style(console.get_style(o.get("style", "rule.line")))])
    if k == "RULE":
        o = e[1]
        return ";".join(["RULE", enc_str(o.get("_title_plain", "")), enc_str(o.get("characters", "─")), enc_str(o.get("end", "\n")), ALIGN_CODE[o.get("align", "center")]])
    if k == "BAR":
        o = e[1]
        return ";".join(["BAR", _frac(o["size"]), _frac(o["begin"]), _frac(o["end"]), _opt(o.get("width"))])
    if k == "PBAR":
        o = e[1]
        return ";".join(["PBAR", _frac(o.get("total", 100)), _frac(o.get("completed", 0)), _opt(o.get("width")), enc_bool(o.get("pulse", False)), _frac(o.get("time", 0))])
    raise ValueError(k)


def build(e, leaves, console=None):
    """Real rich object for the expression (fresh frame objects; leaf objects are shared)."""
    from rich import box as rbox
    from rich.align import Align
    from rich.bar import Bar
    from rich.constrain import Constrain
    from rich.padding import Padding
    from rich.panel import Panel
    from rich.progress_bar import ProgressBar
    from rich.rule import Rule
    from rich.styled import Styled
    from rich.text import Text

    k = e[0]
    if k == "L":
        return leaves[e[1]]
    if k == "TREE":
        from rich.tree import Tree

        def mk(node, parent):
            label, gs, expanded, children = node
            lab = build(label, leaves)
            t = Tree(lab, guide_style=gs, expanded=expanded) if parent is None else parent.add(lab, guide_style=gs, expanded=expanded)
            for c in children:
                mk(c, t)
            return t

        return mk(e[1], None)
    if k == "PAD":
        d = _dims(e[1])
        if not e[2] and len(d) == 4 and d[:3] == [0, 0, 0] and (len(e) <= 4 or e[4] == "none"):
            return Padding.indent(build(e[3], leaves), d[3])  # the documented shortcut for exactly this
        return Padding(build(e[3], leaves), e[1], expand=e[2], style=e[4] if len(e) > 4 else "none")
    if k == "PANEL":
        o = {kk: vv for kk, vv in e[1].items() if not kk.startswith("_")}
        if "box" in o:
            o["box"] = getattr(rbox, o["box"])
        t = o.get("title")
        if isinstance(t, Text):
            o["title"] = t.copy()
        if o.get("expand", True) is False:  # Panel.fit is the documented constructor for expand=False
            o.pop("expand")
            return Panel.fit(build(e[2], leaves), **o)
        return Panel(build(e[2], leaves), **o)
    if k == "ALIGN":
        o = dict(e[1])
        a = o.pop("align")
        if o.get("width") is None or o["width"] % 2 == 0:  # half through the classmethods, half through the constructor
            return getattr(Align, a)(build(e[2], leaves), **o)
        return Align(build(e[2], leaves), a, **o)
    if k == "COLS":
        from rich.columns import Columns

        return Columns([build(x, leaves) for x in e[2]], **e[1])
    if k == "CONSTRAIN":
        return Constrain(build(e[2], leaves), e[1])
    if k == "STYLED":
        return Styled(build(e[1], leaves), e[2] if len(e) > 2 else "bold")
    if k == "VC":
        from rich.align import VerticalCenter

        return VerticalCenter(build(e[2], leaves), style=e[1])
    if k in ("RULE", "RULET"):
        o = {kk: vv for kk, vv in e[1].items() if not kk.startswith("_")}
        t = o.get("title", "")
        if isinstance(t, Text):
            o["title"] = t.copy()
        return Rule(**o)
    if k == "BAR":
        o = e[1]
        return Bar(_num(o["size"]), _num(o["begin"]), _num(o["end"]), width=o.get("width"))
    if k == "PBAR":
        o = e[1]
        return ProgressBar(total=_num(o.get("total", 100)), completed=_num(o.get("completed", 0)), width=o.get("width"), pulse=o.get("pulse", False), animation_time=_num(o.get("time", 0)))
    raise ValueError(k)


def _num(x):
    """ints stay ints; fractions become the (exactly representable, by construction dyadic) float."""
    f = Fraction(x)
    if f.denominator == 1:
        return int(f)
    v = float(f)
    assert Fraction(v) == f, "generator produced a number that is not exact in binary floating point"
    return v


def rule_title_plain(console, title):
    """plain text of the title as Rule sees it before its own processing (render_str for a str)."""
    from rich.text import Text

    if isinstance(title, Text):
        return title.plain
    if not title:
        return ""
    return console.render_str(title, style="rule.text").plain


# ----------------------------------------------------------------------------------------------- rendering on real rich
def render_segments(console, obj, mw, env=None):
    return list(console.render(obj, env.options(console, mw) if env is not None else console.options.update(width=mw)))


def render_text(console, obj, mw, env=None):
    segs = render_segments(console, obj, mw, env)
    return "".join(s.text for s in segs if not s.is_control), [s.text for s in segs if s.is_control]


def runs(segs, styled):
    """adjacent non-control segments of equal style merged, empty ones dropped"""
    out = []
    for s in segs:
        if s.is_control or not s.text:
            continue
        st = enc_style(s.style) if styled else "-"
        if out and out[-1][0] == st:
            out[-1][1] += s.text
        else:
            out.append([st, s.text])
    return out


def canon_render(console, make, mw, env=None, styled=False):
    """canonical answer of a render query; `make()` builds the object (constructor errors are answers too).
    Returns (answer, text, segments)."""
    try:
        obj = make()
        segs = render_segments(console, obj, mw, env)
    except Exception as ex:  # the error branch is part of the statement
        return "err:" + type(ex).__name__, None, None
    text = "".join(s.text for s in segs if not s.is_control)
    ctl = [s.text for s in segs if s.is_control]
    return "ok:" + "|".join(st + ";" + enc_str(t) for st, t in runs(segs, styled)) + "#" + ",".join(enc_str(t) for t in ctl), text, segs


def canon_measure(console, make, mw, env=None):
    from rich.measure import Measurement

    try:
        m = Measurement.get(console, make(), mw)
    except Exception as ex:
        return "err:" + type(ex).__name__
    return f"m:{m.minimum},{m.maximum}"


def enc_seg(s):
    return enc_str(s.text) + ";" + enc_style(s.style) + ";" + enc_bool(bool(s.is_control))


class Leaf:
    """A child oracle: the real renderable tabulated for widths 0..wtab on one console."""

    def __init__(self, console, obj, wtab, label, env=None):
        from rich.measure import Measurement

        self.obj, self.label, self.wtab = obj, label, wtab
        self.measures = [(0, 0)]
        self.renders = [[]]
        for w in range(1, wtab + 1):
            m = Measurement.get(console, obj, w)
            self.measures.append((m.minimum, m.maximum))
            self.renders.append(render_segments(console, obj, w, env))

    def text_at(self, w):
        return "".join(s.text for s in self.renders[w] if not s.is_control) if 0 <= w <= self.wtab else None

    def lines_at(self, w):
        """the child's own rendered lines at width w (text per line, unpadded)"""
        t = self.text_at(w)
        if t is None:
            return None
        ls = t.split("\n")
        if ls and ls[-1] == "":
            ls.pop()
        return ls

    def enc(self):
        distinct, index, keys = [], [], {}
        for r in self.renders:
            key = "|".join(enc_seg(s) for s in r)
            if key not in keys:
                keys[key] = len(distinct)
                distinct.append(key)
            index.append(keys[key])
        return ",".join(f"{a}:{b}" for a, b in self.measures) + "@" + "/".join(distinct) + "@" + ",".join(map(str, index))


class Batch:
    """One `frames_batch` request: an environment, its leaves, many queries.  Accounting mirrors Ctx.flush."""

    def __init__(self, ctx, env, leaves, names, console=None):
        self.ctx, self.env, self.leaves, self.names, self.console = ctx, env, leaves, names, console
        self.queries = []  # (query string, impl answer, readable)

    def add(self, kind, variant, mw, expr, impl, readable):
        self.queries.append((f"{kind},{variant},{mw},{enc(expr, self.names, self.console)}", impl, readable))
        self.ctx.note("fn:frames_" + {"R": "render_text", "S": "render_styled", "M": "measure"}[kind])
        self.ctx.note("frame:" + expr[0])

    def flush(self):
        ctx = self.ctx
        if not self.queries:
            return
        qs, self.queries = self.queries, []
        head = "frames_batch\t" + self.env.enc() + "\t" + "&".join(l.enc() for l in self.leaves)
        ctx.evaluations += len(qs)
        for q, _, _ in qs:
            ctx.distinct.add(hashlib.blake2b((head + q).encode(), digest_size=8).digest())
        if not ctx.driver_ok:
            ctx.note("driver_unavailable", len(qs))
            return
        answers = []
        for i in range(0, len(qs), 400):
            part = qs[i : i + 400]
            (ans,) = ctx.model([head + "\t" + "\t".join(q for q, _, _ in part)])
            got = ans.split("~")
            if len(got) != len(part):
                raise RuntimeError(f"frames_batch answered {len(got)} results for {len(part)} queries: {ans[:200]}")
            answers += got
        for (q, impl, readable), ans in zip(qs, answers):
            if ans == "unmodelled":
                ctx.unmodelled += 1
                ctx.note("unmodelled:" + q.split(",", 3)[3].split(";", 1)[0])
                continue
            ctx.compared += 1
            if ans == impl:
                ctx.agreed += 1
                if len(ctx.samples) < 12 and ctx.rng.random() < 0.002 + (len(ctx.samples) < 3):
                    ctx.samples.append({"request": "frames_batch " + q, "answer": ans[:300], "readable": readable})
            else:
                if len(ctx.mismatches) < 50:
                    ctx.mismatches.append({"request": "frames_batch " + self.env.enc() + " " + q, "model": _dec(ans), "impl": _dec(impl), "readable": readable})
                ctx.note("MISMATCH:frames_" + q.split(",", 3)[3].split(";", 1)[0])


def _dec(ans):
    from core import dec_str

    if ans.startswith("ok:"):
        try:
            return "ok:" + repr([(r.split(";")[0], dec_str(r.split(";")[1])) for r in ans[3:].split("#")[0].split("|") if r])
        except Exception:
            return ans
        body = ans[3:].split("#")[0]
        try:
            return "ok:" + repr(dec_str(body))
        except Exception:
            return ans
    return ans
