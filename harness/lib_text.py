"""Helpers for the Text model (property C05; reusable by C02 / layout properties).

* wire encoding of real `rich.text.Text` objects for the Lean driver (`drv_c05`, see Drv/C05.lean);
* `FakeConsole` / `Tag`: renders a Text with styles interpreted in the *free monoid* of style names, so the
  order in which rich combines styles is observable;
* `Ref`: an independent reference semantics - a plain Python list of (character, tuple of style names) -
  with "the same operations on an ordinary string" (the oracle of the direct evaluation; it never looks at
  the Lean model and never at rich's span bookkeeping).
"""
import re

from core import enc_str

STYLE_NAMES = ["", "s1", "s2", "s3", "s4", "s5", "s6", "ps1", "ps2"]
SID = {n: i for i, n in enumerate(STYLE_NAMES)}
STRIP = {8, 11, 12, 13}  # documented in rich/control.py: backspace, vertical tab, form feed, carriage return


def strip_ctl(s):
    return "".join(c for c in s if ord(c) not in STRIP)


class Tag:
    """A 'style' that records the sequence of style names combined to make it."""

    __slots__ = ("ids",)

    def __init__(self, ids):
        self.ids = tuple(ids)

    def __add__(self, other):
        return Tag(self.ids + other.ids)

    def __eq__(self, other):
        return isinstance(other, Tag) and self.ids == other.ids

    def __hash__(self):
        return hash(self.ids)

    def __repr__(self):
        return "Tag%r" % (self.ids,)


class FakeConsole:
    def get_style(self, name, default=None):
        return Tag((name,))


FC = FakeConsole()


def render_segments(t, end=""):
    """[(text, ids or None)] or the exception class name."""
    try:
        return [(s.text, None if s.style is None else s.style.ids) for s in t.render(FC, end=end)]
    except Exception as e:  # noqa: BLE001 - the error kind is part of the answer
        return type(e).__name__


def norm_ids(ids):
    """Normal form of a sequence of style names in the algebra rich's Style.__add__ has for every field
    ("the last style that sets the field wins"): "" is the identity, s+s = s and x+y+x = y+x.  Two sequences
    combine to the same Style for every interpretation of the names iff they agree after dropping "" and
    keeping only the LAST occurrence of each name (free right-regular band)."""
    out = []
    for i in reversed(ids):
        if i == "" or i in out:
            continue
        out.append(i)
    return tuple(reversed(out))


# ------------------------------------------------------------------------------------------ wire encoding
J = {None: "N", "default": "d", "left": "l", "center": "c", "right": "r", "full": "f"}
O = {None: "N", "fold": "f", "crop": "c", "ellipsis": "e", "ignore": "i"}


def enc_opt(x):
    return "N" if x is None else str(x)


def enc_style(s):
    return str(SID[s])


def enc_opt_style(s):
    return "N" if s is None else str(SID[s])


def enc_spans(spans):
    return "/".join(f"{a},{b},{SID[st]}" for a, b, st in spans)


def enc_text(t):
    """canonical state of a real Text"""
    nw = "N" if t.no_wrap is None else ("1" if t.no_wrap else "0")
    return ";".join(
        [enc_str(t.plain), str(t._length), enc_style(t.style), enc_spans(t._spans), J[t.justify], O[t.overflow], nw, enc_str(t.end), enc_opt(t.tab_size)]
    )


def enc_fields(plain, length, style, spans, justify=None, overflow=None, no_wrap=None, end="\n", tab_size=8):
    nw = "N" if no_wrap is None else ("1" if no_wrap else "0")
    return ";".join([enc_str(plain), str(length), enc_style(style), enc_spans(spans), J[justify], O[overflow], nw, enc_str(end), enc_opt(tab_size)])


def enc_render(t, end=""):
    r = render_segments(t, end)
    if isinstance(r, str):
        return "err:" + r
    return "/".join(enc_str(txt) + "~" + ("-" if ids is None else " ".join(str(SID[i]) for i in ids)) for txt, ids in r)


def enc_tr(t):
    return enc_text(t) + "@" + enc_render(t)


def ans_text(t):
    return "ok:" + enc_tr(t)


def ans_texts(ts):
    ts = list(ts)
    return "ok:%d#" % len(ts) + "|".join(enc_tr(t) for t in ts)


def enc_texts(ts):
    ts = list(ts)
    return "%d#" % len(ts) + "|".join(enc_text(t) for t in ts)


# ------------------------------------------------------------------------------------------ reference semantics
class Ref:
    """Styled string: base style name + [(char, ids)] where ids are the style names applied on top of the base,
    in application order.  Also the two attributes that influence later string operations."""

    __slots__ = ("base", "cells", "overflow", "tab_size")

    def __init__(self, base, cells, overflow=None, tab_size=8):
        self.base = base
        self.cells = list(cells)
        self.overflow = overflow
        self.tab_size = tab_size

    def s(self):
        return "".join(c for c, _ in self.cells)

    def clone(self, cells=None):
        return Ref(self.base, self.cells if cells is None else cells, self.overflow, self.tab_size)

    def piece(self, cells):  # what divide / split / slice construct: style, justify, overflow carried; tab_size default
        return Ref(self.base, cells, self.overflow, 8)

    def absolute(self):
        """cells with the base prepended (what this text contributes when embedded under another base)"""
        return [(c, (self.base,) + ids) for c, ids in self.cells]

    def stream(self):
        return [(c, norm_ids((self.base,) + ids)) for c, ids in self.cells]

    def __repr__(self):
        return "Ref(%r,%r)" % (self.base, self.cells)


def ref_new(text, base, spans, overflow=None, tab_size=8):
    s = strip_ctl(text)
    cells = [(c, tuple(st for a, b, st in spans if a <= i < b)) for i, c in enumerate(s)]
    return Ref(base, cells, overflow, tab_size)


def ref_append_str(r, s, st):
    return r.clone(r.cells + [(c, () if st is None else (st,)) for c in strip_ctl(s)])


def ref_append_ref(r, u):
    return r.clone(r.cells + u.absolute())


def ref_append_tokens(r, toks):
    cells = list(r.cells)
    for s, st in toks:
        cells += [(c, () if st is None else (st,)) for c in s]
    return r.clone(cells)


def ref_join(sep, items):
    cells = []
    for k, it in enumerate(items):
        if k and sep.cells:
            cells += sep.absolute()
        cells += it.absolute()
    return sep.clone(cells)


def ref_divide(r, offsets):
    if not offsets:
        return [r.clone()]
    pts = [0] + list(offsets) + [len(r.cells)]
    return [r.piece(r.cells[a:b]) for a, b in zip(pts, pts[1:])]


def has_border(sep):
    return any(sep[:k] == sep[-k:] for k in range(1, len(sep)))


def ref_split(r, sep, include, allow_blank):
    s = r.s()
    if sep not in s:
        return [r.clone()]
    parts = s.split(sep)
    pieces, pos = [], 0
    for k, p in enumerate(parts):
        last = k == len(parts) - 1
        n = len(p) + (len(sep) if include and not last else 0)
        pieces.append(r.piece(r.cells[pos : pos + n]))
        pos += len(p) + (0 if last else len(sep))
    if not allow_blank and not pieces[-1].cells:
        pieces.pop()
    return pieces


def ref_set_string(r, new):
    """the string is replaced; position i keeps what was attached to position i"""
    old = r.cells
    return r.clone([(c, old[i][1] if i < len(old) else ()) for i, c in enumerate(new)])


def ref_truncate(r, width, overflow, pad):
    from rich.cells import cell_len, set_cell_size

    ov = overflow or r.overflow or "fold"
    if ov == "ignore":
        return r
    s = r.s()
    length = cell_len(s)
    out = r
    if length > width:
        new = (set_cell_size(s, width - 1) + "…") if ov == "ellipsis" else set_cell_size(s, width)
        out = ref_set_string(r, new)
    if pad and length < width:
        out = out.clone(out.cells + [(" ", ())] * (width - length))
    return out


def ref_pad(r, left, right, ch):
    return r.clone([(ch, ())] * left + r.cells + [(ch, ())] * right)


def ref_align(r, method, width, ch):
    from rich.cells import cell_len

    r = ref_truncate(r, width, None, False)
    excess = width - cell_len(r.s())
    if excess <= 0:
        return r
    if method == "left":
        return ref_pad(r, 0, excess, ch)
    if method == "center":
        return ref_pad(r, excess // 2, excess - excess // 2, ch)
    return ref_pad(r, excess, 0, ch)


def ref_right_crop(r, amount):
    return r.clone(r.cells[: max(0, len(r.cells) - amount)])


def ref_set_length(r, n):
    k = len(r.cells)
    return ref_pad(r, 0, n - k, " ") if k < n else r.clone(r.cells[:n])


def ref_expand_tabs(r, tab_size):
    ts = r.tab_size if tab_size is None else tab_size
    if "\t" not in r.s():
        return r
    b = (r.base,)
    out, col = [], 0
    for c, ids in r.cells:
        if c == "\t":
            out.append((" ", b + ids))
            spaces = ts - (col % ts) - 1
            out += [(" ", b)] * spaces
            col += 1 + spaces
        else:
            out.append((c, b + ids))
            col = 0 if c == "\n" else col + 1
    return r.clone(out)


def ref_add_spans(r, spans):
    cells = r.cells
    for a, b, st in spans:
        cells = [(c, ids + (st,)) if a <= i < b else (c, ids) for i, (c, ids) in enumerate(cells)]
    return r.clone(cells)


def ref_stylize(r, st, start, end):
    n = len(r.cells)
    a = start if start >= 0 else max(0, n + start)
    e = n if end is None else (end if end >= 0 else n + end)
    e = min(e, n)
    if a >= n or e <= a:
        return r
    return ref_add_spans(r, [(a, e, st)])


def ref_highlight_regex(r, pattern, style, prefix):
    s = r.s()
    spans = []
    for m in re.finditer(pattern, s):
        if style is not None and style != "":
            a, b = m.span()
            if b > a:
                spans.append((a, b, style))
        for name in m.groupdict():
            a, b = m.span(name)
            if a != -1 and b > a:
                spans.append((a, b, prefix + name))
    return ref_add_spans(r, spans)


def ref_rstrip(r):
    return r.clone(r.cells[: len(r.s().rstrip())])


def ref_rstrip_end(r, size):
    n = len(r.cells)
    if n > size:
        s = r.s()
        ws = len(s) - len(s.rstrip())
        if ws:
            return ref_right_crop(r, min(ws, n - size))
    return r


def ref_index(r, i):
    c = r.cells[i]  # IndexError as for str
    return Ref(r.base, [c], None, 8)


def ref_slice(r, a, b):
    return r.piece(r.cells[slice(a, b)])


def ref_detect_indentation(s):
    """gcd of the even numbers of leading U+0020 spaces over all lines (blank ones included), `or 1`"""
    from functools import reduce
    from math import gcd

    evens = {len(line) - len(line.lstrip(" ")) for line in s.split("\n")}
    evens = [n for n in evens if n % 2 == 0]
    return (reduce(gcd, evens) or 1) if evens else 1


def ref_indent_guides(r, size, character, style):
    """with_indent_guides on the reference: expand tabs, then per non-blank line the leading spaces are replaced by
    guide characters every `size` columns (in `style`, on top of what the spaces carried); blank lines become the
    previous^Wnext line's indent (in `style` as BASE style); lines joined with an unstyled newline."""
    if size is None:
        size = ref_detect_indentation(r.s())
    r1 = ref_expand_tabs(r, None)
    lines = ref_split(r1, "\n", False, False)
    indent_line = character + " " * (size - 1)
    out, blank = [], 0
    for ln in lines:
        ls = ln.s()
        ind = len(ls) - len(ls.lstrip(" "))
        if ls[ind:] == "":
            blank += 1
            continue
        full, rem = divmod(ind, size)
        new_indent = indent_line * full + " " * rem
        ln2 = ref_set_string(ln, new_indent + ls[len(new_indent):])
        ln2 = ref_stylize(ln2, style, 0, len(new_indent))
        out += [Ref(style, [(c, ()) for c in strip_ctl(new_indent)])] * blank
        blank = 0
        out.append(ln2)
    out += [Ref(style, [])] * blank
    return ref_join(Ref("", [("\n", ())]), out)
