"""C14 — no input makes the pipeline fail with an undocumented error.

Correspondence: the exception layer of Color.parse / Style.parse / Style.normalize / markup.render /
Console.get_style over ALL code points (Model/Totality.lean, parameterised by the running Python's
character tables) vs real rich, in-process: outcome class and, on success, the value; and the composed
model of Console.print(str, markup=False) (Model/TotalityPrint.lean, `c14_print_plain`): the characters written.
Direct evaluation (3d): the exception class (or absence) observed at every public entry point of the
statement — the five above plus AnsiDecoder.decode, Text(), Console.print(markup=False / True) — and
Console.render / Measurement.get over the bounded-exhaustive stream of small trees of lib_c14.small_trees
(widths 1..6 and around every structural threshold), Console.render / Measurement.get / Console.print over
random trees of built-in renderables with valid options at widths 1..200.
The theorems (Props/C14.lean) also cover the decoder, Text(), Text.wrap / render, print(markup=False) and the
renderable trees of Model/Layout.lean (decode_total, text_ctor_total, wrap_total, print_plain_total, layout_total).
"""
import io
import itertools
import multiprocessing
import re

from core import enc_str

PROPERTY = "C14"

# CODE VARIANT FLAGS — which variant of the code the model is compared with.
# 1 = rich 9.10.0 as found, 0 = repaired = what /repo contains now (fix c34676b = pending_fixes/C14-color-parse-rgb-valueerror.diff).
TAB_ASSERT = 0  # fixed in 7535af5 (/repo is at 0 now; 1 = rich as found). C14-T1: Text.expand_tabs() asserts `tab_size is not None` (Model/TotalityTitle.lean `tabAssert`); 0 = pending_fixes/C14-expand-tabs-tab-size-none-assertion.diff
RGB_VALUEERROR = 0  # F9: Color.parse("rgb(1,,2)") lets int()'s ValueError escape (Model/Totality.lean `vErr`)

DOCUMENTED = {"ColorParseError", "StyleSyntaxError", "MarkupError", "MissingStyle"}

# ---------------------------------------------------------------------------------------------- alphabets
# one representative of every class the parsers branch on
SP = [" ", "\x1c", "　", "\n"]  # str.isspace: blank; \s but not int()-space; non-ASCII space; line feed
DIG = ["1", "25", "256", "٣", "３", "\U0001d7d1"]  # ASCII, Arabic-Indic, full-width, astral (MATHEMATICAL BOLD DIGIT THREE)
NOTDEC = ["²", "①", "x"]  # str.isdigit but not \d / int(); a letter
CASE = ["K", "İ", "R", "É"]  # KELVIN SIGN lowers to "k"; I WITH DOT lowers to two characters
CTRL = ["\x00", "\x08", "\r", "\x1b", "\x7f", "\x85", "​", "́", "\U0001f63d", "\U0010ffff", "﻿"]

COLOR_BODY = [",", " ", "1", "255", "256", "٣", "²", "\x1c", "　", ")"]
COLOR_PRE = ["", "rgb(", "color(", "#", " rgb(", "RGB(", "rgb (", "Color("]
RGB_IN = [",", " ", "1", "255", "256", "٣", "\x1c"]
STYLE_WORDS = ["on", "not", "link", "bold", "b", "red", "rgb(1,,2)", "rgb(1,2,3)", "x", "none", "NOT", "Bold", "٣", "default", "color(256)", "#12345", "uu", "blacK", "ON", "LINK"]
STYLE_SEPS = [" ", "\x1c", "　", "  ", "\t"]
MARKUP_TOK = ["[", "]", "/", "bold", "x", "=", "\\", " ", "rgb(1,,2)", "red", "\n", "link", "#", "B", "\r"]
MARKUP_TAGS = ["[bold]", "[/bold]", "[/]", "[red]", "[/red]", "[b]", "[/b]", "[/ bold ]", "[rgb(1,,2)]", "[/rgb(1,,2)]", "[link=x]", "[/link]", "[=x]", "[link=]", "x", "\\[bold]", "\\\\[b]", "[BOLD]", "[bold　]", "[/　]", "[on]", "[#]", "[a\nb]", "[not bold]", "[/not  bold]", "[bold red]", "[/red bold]", ":smiley:"]
ANSI_TOK = ["\x1b[", "m", ";", "38", "5", "2", "1", "0", "256", "²", "٣", "48", "x", "\x1b]8;", "\x1b\\", "\r", "\n", "31", "\x1b", "[", "?", "K"]


def strings_upto(alpha, n):
    for k in range(n + 1):
        for t in itertools.product(alpha, repeat=k):
            yield "".join(t)


def rand_unicode(rng, n):
    out = []
    for _ in range(n):
        r = rng.random()
        if r < 0.35:
            out.append(chr(rng.randint(32, 126)))
        elif r < 0.5:
            out.append(rng.choice(DIG + NOTDEC + SP + CASE))
        elif r < 0.65:
            out.append(rng.choice(CTRL))
        elif r < 0.75:
            out.append(chr(rng.randint(0, 31)))
        elif r < 0.9:
            cp = rng.randint(128, 0xFFFF)
            out.append("?" if 0xD800 <= cp <= 0xDFFF else chr(cp))
        else:
            out.append(chr(rng.randint(0x10000, 0x10FFFF)))
    return "".join(out)


def surrogate_free(s):
    return not any(0xD800 <= ord(c) <= 0xDFFF for c in s)


# ---------------------------------------------------------------------------------------------- observation
def observe(f):
    """-> (class name or None, value).  Every exception class is an observation, never a harness error."""
    try:
        return None, f()
    except BaseException as e:  # noqa: BLE001 - the exception class IS the observation
        if isinstance(e, KeyboardInterrupt):
            raise
        return type(e).__name__, None


def err_tag(cls):
    return "err:" + (cls if cls in DOCUMENTED else "Other:" + cls)


RGB_GROUP = re.compile(r"rgb\(([\d\s,]+)\)")


def classify_parse(cls, s):
    """narrow classifier of F9: a ValueError while the (lower-cased) input holds an `rgb(...)` group that
    RE_COLOR admits and whose components are not three int()-readable numbers."""
    if cls != "ValueError":
        return None
    for m in RGB_GROUP.finditer(s.lower()):
        parts = m.group(1).split(",")
        if len(parts) == 3 and any(observe(lambda p=p: int(p))[0] for p in parts):
            return "rgb-component-valueerror"
    return None


def classify_ansi(cls, s):
    """narrow classifier of F10: a ValueError while an SGR sequence holds a parameter that passes
    str.isdigit() and that int() rejects."""
    if cls != "ValueError":
        return None
    for m in re.finditer(r"\x1b\[(.*?)m", s):
        for code in m.group(1).split(";"):
            if code.isdigit() and observe(lambda c=code: int(c))[0]:
                return "ansi-sgr-int-valueerror"
    return None


# ---------------------------------------------------------------------------------------------- layout workers
def _walk(desc):
    import lib_c14 as L

    yield desc
    for k in desc[2]:
        yield from _walk(k)
    if desc[0] == "tree":
        for n in L._tree_nodes(desc[1]["root"]):
            yield from _walk(n["label"])


def classify_layout(cls, desc, w, tb):
    """narrow classifiers of the layout findings, by exception class + raising frame + the option shape."""
    if cls == "AssertionError" and "expand_tabs" in tb and ("rule.py" in tb or "panel.py" in tb):
        # C14-T1: a Rule / Panel title that is a Text with tab_size=None (documented) holding a tab
        if any(d[0] in ("rule", "panel") and isinstance(d[1].get("title"), dict) and d[1]["title"].get("tab_size", 8) is None and "\t" in d[1]["title"]["s"] for d in _walk(desc)):
            return "title-text-tab-size-none-assertion"
    if cls == "ZeroDivisionError" and "columns.py" in tb and any(d[0] == "columns" and d[1]["width"] is not None for d in _walk(desc)):
        return "columns-width-zero-division"
    if cls == "AssertionError" and "ratio_distribute" in tb and "_calculate_column_widths" in tb:
        tables = [d for d in _walk(desc) if d[0] == "table"]
        if any(not d[1]["cols"] and (d[1]["expand"] or d[1]["width"] is not None or d[1]["min_width"] is not None) for d in tables):
            return "table-no-columns-assertion"
        if any(any(c.get("ratio") == 0 for c in d[1]["cols"]) and any(c.get("ratio") for c in d[1]["cols"]) for d in tables):
            return "table-zero-ratio-narrow-assertion"
    return None


def _layout_eval(desc, ws, which):
    """build the tree ONCE and run the same object through the entry points at every width of `ws`, in order (C14
    quantifies over every input, not over fresh objects: a second render of the same Text / Table / Panel must not raise
    either); -> list of (site, cls, traceback tail, width, position in ws)"""
    import traceback

    import lib_c14 as L
    from rich.console import Console
    from rich.measure import Measurement

    out = []
    try:
        r = L.build(desc)
    except BaseException as e:  # noqa: BLE001
        return [("build", type(e).__name__, traceback.format_exc()[-1500:], ws[0] if ws else 0, 0)]
    con = _layout_eval.con
    for pos, w in enumerate(ws):
        for site in which:
            try:
                with L.watchdog(10):
                    if site == "Console.render":
                        for _ in con.render(r, con.options.update(width=w)):
                            pass
                    elif site == "Measurement.get":
                        m = Measurement.get(con, r, w)
                        if not (0 <= m.minimum <= m.maximum <= max(w, 0)):
                            out.append((site, "BadMeasurement", repr(m), w, pos))
                    else:
                        Console(file=io.StringIO(), width=w, color_system=None).print(r)
            except BaseException as e:  # noqa: BLE001
                if isinstance(e, KeyboardInterrupt):
                    raise
                out.append((site, type(e).__name__, traceback.format_exc()[-1500:], w, pos))
    return out


def _report(desc, ws, res, fails, sites):
    """first failure per (site, class) of one tree: shrink (same width sequence up to the failing render) and record"""
    import lib_c14 as L

    seen = set()
    for site, cls, tb, w, pos in res:
        if (site, cls) in seen:
            continue  # later renders of an object that already failed: the same defect
        seen.add((site, cls))
        seq = list(ws[: pos + 1])
        cur = desc
        slug = classify_layout(cls, cur, w, tb)
        progress = True
        budget = 40
        while progress and budget > 0 and site != "build":
            progress = False
            for cand in L.shrink_candidates(cur):
                budget -= 1
                if budget <= 0:
                    break
                r2 = [x for x in _layout_eval(cand, seq, sites) if x[0] == site and x[1] == cls and x[4] == pos]
                if r2 and classify_layout(cls, cand, w, r2[0][2]) == slug:
                    cur, tb, progress = cand, r2[0][2], True
                    break
        # a failure that needs the earlier renders of the same object says so in its input
        fresh = [x for x in _layout_eval(cur, [w], [site]) if x[1] == cls] if site != "build" else [1]
        inp = (cur, w) if fresh else (cur, {"same object rendered at widths": seq, "at each width in turn": list(sites), "fails at": site})
        fails.append((site, cls, slug, repr(inp), tb[-500:]))


def _layout_worker(args):
    seed, idx, n_trees, max_depth = args
    import collections
    import random

    import lib_c14 as L
    from rich.console import Console

    rng = random.Random(seed * 1000003 + idx)
    _layout_eval.con = Console(file=io.StringIO(), width=80, color_system=None)
    sites = ["Console.render", "Measurement.get", "Console.print"]
    notes = collections.Counter()
    fails = []
    evals = 0
    for _ in range(n_trees):
        desc = L.gen_tree(rng, rng.randint(0, max_depth))
        for k in L.kinds(desc):
            notes["layout:kind:" + k] += 1
        notes["layout:size:%d" % min(L.size(desc) // 5 * 5, 40)] += 1
        for pos_name, spec in L.text_specs(desc):
            if pos_name != "leaf" or len(spec) > 1:
                notes["layout:textopt:" + pos_name] += 1
                if spec.get("tab_size", 8) is None and "\t" in spec["s"]:
                    notes["layout:textopt:tab_size=None+tab:" + pos_name] += 1
        # the same tree OBJECT is rendered at several widths one after the other, the first width twice
        w0 = rng.randint(1, 200)
        ws = [w0, rng.randint(1, 12), rng.randint(1, 40), w0]
        for w in ws[:3]:
            notes["layout:width:%s" % ("1-3" if w <= 3 else "4-12" if w <= 12 else "13-40" if w <= 40 else "41-200")] += 1
        res = _layout_eval(desc, ws, sites)
        evals += len(sites) * len(ws)
        _report(desc, ws, res, fails, sites)
    return evals, dict(notes), fails


def _small_worker(args):
    """the bounded-exhaustive stream of small trees (lib_c14.small_trees): slice idx::n, widths 1..6 and the
    widths =, +-1 around every structural threshold (measured minimum / maximum, explicit width options)"""
    idx, n, quick = args
    import collections

    import lib_c14 as L
    from rich.console import Console
    from rich.measure import Measurement

    con = _layout_eval.con = Console(file=io.StringIO(), width=80, color_system=None)
    sites = ["Console.render", "Measurement.get"]  # Console.print is the same path + crop: kept for the random trees
    notes = collections.Counter()
    fails = []
    evals = 0
    for k, desc in enumerate(L.small_trees(quick)):
        if k % n != idx:
            continue
        notes["small:kind:" + desc[0]] += 1
        for pos_name, spec in L.text_specs(desc):
            if pos_name != "leaf" or len(spec) > 1:
                notes["small:textopt:" + pos_name] += 1
                if spec.get("tab_size", 8) is None and "\t" in spec["s"]:
                    notes["small:textopt:tab_size=None+tab:" + pos_name] += 1
        ths = set(L.option_widths(desc))
        try:
            with L.watchdog(10):
                m = Measurement.get(con, L.build(desc), 200)
            ths |= {m.minimum, m.maximum}
        except BaseException as e:  # noqa: BLE001 - reported through the evaluation below (width 200 is among the widths then)
            if isinstance(e, KeyboardInterrupt):
                raise
            ths.add(200)
        base = {1, 2, 3, 5} if quick and desc[0] == "table" else {1, 2, 3, 4, 5, 6}
        widths = sorted(base | {t + d for t in ths for d in (-1, 0, 1) if 1 <= t + d <= 200})
        notes["small:widths"] += len(widths)
        # the SAME object goes through the whole sweep (and the widest width once more)
        ws = widths + widths[-1:]
        res = _layout_eval(desc, ws, sites)
        evals += len(sites) * len(ws)
        _report(desc, ws, res, fails, sites)
    return evals, dict(notes), fails


# ---------------------------------------------------------------------------------------------- the run
def run(ctx):
    from rich.ansi import AnsiDecoder
    from rich.color import Color
    from rich.console import Console
    from rich.markup import render as markup_render
    from rich.style import Style
    from rich.text import Text

    rng = ctx.rng
    quick = ctx.quick
    V = RGB_VALUEERROR
    ctx.assumptions += [
        "character tables of the running CPython (str.isspace, \\d = str.isdecimal, int(), str.lower, sys.get_int_max_str_digits) enter the model as the parameter PyStr; "
        "the theorems hold for every PyStr (= C06's StrTables), the driver's instance (StrTables.real over Gen/StrTables.lean, harness/gen/str_tables.py) is compared with the running Python below",
        "str.lower() of GREEK CAPITAL SIGMA depends on its neighbours: strings containing it are answered `unmodelled` (direct evaluation still runs)",
        "functools.lru_cache on Color.parse / Style.parse / Style.normalize assumed transparent (the public, cached functions are what is called)",
        "lone surrogates are outside the line protocol (Lean Char has none) and outside the generators",
        "the highlighter is a parameter of print_plain_total with the contract `every span inside [0, len]`; rich's ReprHighlighter is exercised through Console.print(highlight=True) (direct evaluation), the print correspondence runs with highlighting off",
        "ANSI decoder and layout trees: theorems over C19's / C01-C09's models (tied to rich by those properties' checks), direct evaluation here",
    ]
    import time as _time

    phases = ctx.extra_cov.setdefault("phase_s", {})
    _t = [_time.time()]

    def _phase(name):
        phases[name] = round(_time.time() - _t[0], 1)
        _t[0] = _time.time()

    seen_strings = []  # every generated string also goes to Text() and Console.print(markup=False) at the end

    # ---- 0. the driver's character tables vs the running Python --------------------------------------
    chars = sorted(set("".join(SP + DIG + NOTDEC + CASE + CTRL) + "aZ09 ,_+-\t\x0b\x0c\x1d\x1e\x1f\xa0  Σσ"))
    for cp in list(range(0, 0x300)) + [ord(c) for c in chars] + [rng.randint(0x300, 0x10FFFF) for _ in range(400 if quick else 20000)]:
        if 0xD800 <= cp <= 0xDFFF:
            continue
        c = chr(cp)
        ctx.case("c14_lower", [enc_str("a" + c + "B")], enc_str(("a" + c + "B").lower()), shape="char")
        ctx.case("c14_strip", [enc_str(c + "x" + c)], enc_str((c + "x" + c).strip()), shape="char")
        ctx.case("c14_split", [enc_str("p" + c + "q")], "%d:%s" % (len(("p" + c + "q").split()), ",".join(enc_str(w) for w in ("p" + c + "q").split())), shape="char")
        if c not in "+-_":  # pyInt models int() on what RE_COLOR lets through: no sign, no underscore
            cls, v = observe(lambda: int(c + "7"))
            ctx.case("c14_int", [enc_str(c + "7")], "-" if cls else str(v), shape="lead")
            cls, v = observe(lambda: int(c))
            ctx.case("c14_int", [enc_str(c)], "-" if cls else str(v), shape="single")
    for s in strings_upto([" ", "\x1c", "　", "\n", "1", "٣", "\U0001d7d1", "0"], 4 if quick else 5):
        cls, v = observe(lambda: int(s))
        ctx.case("c14_int", [enc_str(s)], "-" if cls else str(v), shape="ok" if cls is None else "ValueError", sample=f"int({s!r})")
    import sys

    lim = sys.get_int_max_str_digits()
    for n in {1, 3, 4299, 4300, 4301, 5000} | ({lim - 1, lim, lim + 1} if lim else set()):
        if n > 0:
            for s in ("1" * n, " " + "٣" * n, "0" * n):
                cls, v = observe(lambda: int(s))
                ctx.case("c14_int", [enc_str(s)], "-" if cls else str(v), shape="long")
    ctx.flush()

    _phase('tables')
    # ---- 1. Color.parse ------------------------------------------------------------------------------
    def color_case(s, shape):
        cls, c = observe(lambda: Color.parse(s))
        ctx.note("Color.parse:" + (cls or "ok"))
        ctx.check(cls in (None, "ColorParseError"), "Color.parse", s, f"Color.parse({s!r}) raised {cls} (documented: ColorParseError)", finding=classify_parse(cls, s))
        if cls is None:
            t = c.triplet
            ans = "ok:%d:%s:%s:%s" % (int(c.type), "-" if c.number is None else c.number, "-" if t is None else "%d.%d.%d" % (t.red, t.green, t.blue), enc_str(c.name))
        else:
            ans = err_tag(cls)
        ctx.case("c14_color", [V, enc_str(s)], ans, shape=shape + ":" + (cls or "ok"), sample=f"Color.parse({s!r})")
        seen_strings.append(s)

    body_n = 4 if quick else 5
    for pre in COLOR_PRE:
        for body in strings_upto(COLOR_BODY, body_n):
            color_case(pre + body, "tok")
    for inner in strings_upto(RGB_IN, 5 if quick else 7):
        color_case("rgb(" + inner + ")", "rgb")
    names = ["red", "RED", " Red ", "bright_blue", "grey37", "default", "DEFAULT\n", "blacK", "defaulŤ", "ṙed", "İ", "color(0)", "color(15)", "color(16)", "color(255)", "color(256)", "color(999)", "color(0255)", "color(٣)", "color()", "color(1) ", "#000000", "#FFFFFF", "#123456", "#abCDef", "#0a1b2c", "#12345", "#1234567", "#12345g", "#١٢٣٤٥٦", "rgb(0,0,0)", "rgb(255,255,255)", "rgb(1,2,3)", "rgb(254,255,0)", "rgb(0,255,254)", "rgb(255,0,256)", "rgb(256,0,0)", "rgb(0,0,256)", "rgb(1,2)", "rgb(1,2,3,4)", "rgb(1,,2)", "rgb(1 2,3,4)", "rgb(,,)", "rgb( 1 , 2 , 3 )", "rgb(\x1c1,2,3)", "rgb(　1　,2,3)", "rgb(٣,３,\U0001d7d1)", "rgb(²,1,1)", "rgb(1,2,3)\n", "rgb(1,2,3", "RGB(1,2,3)", "rgb(001,002,003)", "rgb(1_0,2,3)", "rgb(+1,2,3)", "rgb(-1,2,3)", "rgb(1.0,2,3)"]
    names += ["rgb(%s,1,1)" % ("1" * n) for n in (4299, 4300, 4301)] + ["rgb(%s,1,1)" % ("0" * 4301), "rgb(1,1,%s)" % (" " * 4400 + "1")]
    for s in names:
        color_case(s, "listed")
    for _ in range(3000 if quick else 60000):
        k = rng.random()
        if k < 0.4:
            comp = lambda: "".join(rng.choice(DIG + SP + NOTDEC[:1] + [""]) for _ in range(rng.randint(0, 3)))
            s = rng.choice(["rgb(", "RGB(", "rgb (", " rgb("]) + ",".join(comp() for _ in range(rng.choice([3, 3, 3, 2, 4]))) + rng.choice([")", ")", ") ", "", "))"])
        elif k < 0.55:
            s = "color(" + "".join(rng.choice(DIG + ["0", "9", " "]) for _ in range(rng.randint(0, 3))) + ")"
        elif k < 0.7:
            s = "#" + "".join(rng.choice("0123456789abcdefABCDEFg٣") for _ in range(rng.choice([6, 6, 6, 5, 7])))
        elif k < 0.8:
            s = rng.choice(names[:12]) + rng.choice(["", " ", "　", "x"])
        else:
            s = rand_unicode(rng, rng.randint(0, 8))
        if surrogate_free(s):
            color_case(s, "random")
    ctx.flush()

    _phase('color')
    # ---- 2. Style.parse / Style.normalize ---------------------------------------------------------------
    def style_case(s, shape):
        cls, st = observe(lambda: Style.parse(s))
        ctx.note("Style.parse:" + (cls or "ok"))
        ctx.check(cls in (None, "StyleSyntaxError"), "Style.parse", s, f"Style.parse({s!r}) raised {cls} (documented: StyleSyntaxError)", finding=classify_parse(cls, s))
        ans = "ok:%s:%d" % (enc_str(str(st)), 0 if st else 1) if cls is None else err_tag(cls)
        ctx.case("c14_style", [V, enc_str(s)], ans, shape=shape + ":" + (cls or "ok"), sample=f"Style.parse({s!r})")
        cls2, n = observe(lambda: Style.normalize(s))
        ctx.check(cls2 is None, "Style.normalize", s, f"Style.normalize({s!r}) raised {cls2} (documented: never raises)", finding=classify_parse(cls2, s))
        ctx.case("c14_norm", [V, enc_str(s)], "ok:" + enc_str(n) if cls2 is None else err_tag(cls2), shape=shape + ":" + (cls2 or "ok"))
        seen_strings.append(s)

    nwords = 3 if quick else 4
    for k in range(nwords + 1):
        for t in itertools.product(STYLE_WORDS, repeat=k):
            style_case(" ".join(t), "words")
    for s in ["", " ", "none", " none ", "NONE", "none none", "　none\x1c", "bold　red", "\x1cbold", "not", "on", "link", "not bold", "not Bold", "NOT bold", "on red", "on RED", "on rgb(1,,2)", "on x", "link x", "link  ", "link on", "on on", "red green", "bold bold", "not not", "b i u", "link ٣", "color(1) on color(2)", "rgb(1, 2, 3)"]:
        style_case(s, "listed")
    for _ in range(4000 if quick else 80000):
        ws = [rng.choice(STYLE_WORDS) if rng.random() < 0.8 else rand_unicode(rng, rng.randint(1, 5)) for _ in range(rng.randint(0, 6))]
        s = rng.choice(["", "", " ", "　"]) + "".join(w + rng.choice(STYLE_SEPS) for w in ws)
        if rng.random() < 0.5:
            s = s.rstrip()
        if surrogate_free(s):
            style_case(s, "random")
    ctx.flush()

    _phase('style')
    # ---- 3. markup.render / Console.print(markup) ----------------------------------------------------
    con_m = Console(file=io.StringIO(), width=30, color_system=None)

    def markup_case(s, shape):
        cls, t = observe(lambda: markup_render(s, emoji=False))
        ctx.note("markup.render:" + (cls or "ok"))
        ctx.check(cls in (None, "MarkupError"), "markup.render", s, f"markup.render({s!r}) raised {cls} (documented: MarkupError)", finding=classify_parse(cls, s))
        if cls is None:
            ans = "ok:%s|%s" % (enc_str(t.plain), ";".join("%d.%d.%s" % (sp.start, sp.end, enc_str(str(sp.style))) for sp in t.spans))
        else:
            ans = err_tag(cls)
        ctx.case("c14_markup", [V, enc_str(s)], ans, shape=shape + ":" + (cls or "ok"), sample=f"markup.render({s!r})")
        cls_e, _ = observe(lambda: markup_render(s))  # emoji on (the default)
        ctx.check(cls_e == cls, "markup.render(emoji)", s, f"emoji replacement changed the outcome: {cls_e} vs {cls}", finding=classify_parse(cls_e, s))
        cls_p, _ = observe(lambda: con_m.print(s))
        ctx.check(cls_p in (None, "MarkupError"), "Console.print(markup)", s, f"console.print({s!r}) raised {cls_p} (documented: MarkupError)", finding=classify_parse(cls_p, s))
        ctx.check((cls_p is None) == (cls is None), "Console.print(markup)", s, f"console.print raised {cls_p} where markup.render gave {cls}", finding=classify_parse(cls_p, s))
        seen_strings.append(s)

    for s in strings_upto(MARKUP_TOK, 3 if quick else 4):
        markup_case(s, "tok")
    for k in range((2 if quick else 3) + 1):
        for t in itertools.product(MARKUP_TAGS, repeat=k):
            markup_case("".join(t), "tags")
    for _ in range(5000 if quick else 60000):
        s = "".join(rng.choice(MARKUP_TAGS) if rng.random() < 0.7 else rand_unicode(rng, rng.randint(1, 4)) for _ in range(rng.randint(1, 7)))
        if surrogate_free(s):
            markup_case(s, "random")
    con_m.file.seek(0)
    con_m.file.truncate()
    ctx.flush()

    _phase('markup')
    # ---- 4. Console.get_style ---------------------------------------------------------------------------
    con_g = Console(file=io.StringIO(), width=30)
    theme_names = ["none", "bold", "repr.number", "rule.line", "table.header", "bar.back", "Bold", "repr.nope", "red"]
    defaults = [None, "none", "bold", "bad bad", "rgb(1,,2)", "repr.number", Style.null()]
    pool = theme_names + STYLE_WORDS + ["bold red", "on", "not x", "link", "on rgb(1,,2)", "", " ", "٣"]
    gs_inputs = [(n, d) for n in pool for d in defaults]
    for _ in range(1500 if quick else 30000):
        n = " ".join(rng.choice(pool) for _ in range(rng.randint(1, 3))) if rng.random() < 0.8 else rand_unicode(rng, rng.randint(0, 6))
        if surrogate_free(n):
            gs_inputs.append((n, rng.choice(defaults)))
    for n, d in gs_inputs:
        cls, st = observe(lambda: con_g.get_style(n, default=d))
        ctx.note("get_style:" + (cls or "ok"))
        ctx.check(cls in (None, "MissingStyle"), "Console.get_style", (n, d), f"get_style({n!r}, default={d!r}) raised {cls} (documented: MissingStyle)", finding=classify_parse(cls, n + " " + (d if isinstance(d, str) else "")))
        ans = "ok" if cls is None else ("err:MissingStyle" if cls == "MissingStyle" else "err:Other")
        denc = "-" if d is None else ("o" if isinstance(d, Style) else "s" + enc_str(d))
        ctx.case("c14_get_style", [V, enc_str(n), denc], ans, shape=(cls or "ok") + (":default" if d is not None else ""), sample=f"get_style({n!r}, default={d!r})")
        seen_strings.append(n)
    ctx.flush()

    _phase('get_style')
    # ---- 5. AnsiDecoder.decode (direct evaluation; the decoder's model is C19's) ------------------------
    def ansi_case(s):
        cls, _ = observe(lambda: list(AnsiDecoder().decode(s)))
        ctx.note("AnsiDecoder.decode:" + (cls or "ok"))
        ctx.check(cls is None, "AnsiDecoder.decode", s, f"AnsiDecoder().decode({s!r}) raised {cls} (documented: accepts any string)", finding=classify_ansi(cls, s))

    for s in strings_upto(ANSI_TOK, 3 if quick else 4):
        ansi_case(s)
        seen_strings.append(s)
    for inner in strings_upto(["38", "48", "5", "2", "1", "0", "256", ";", "²", "٣", "", "x"], 4 if quick else 5):
        ansi_case("\x1b[" + inner + "m" + "t")
    for n in (4299, 4300, 4301):
        ansi_case("\x1b[" + "1" * n + "m")
        ansi_case("\x1b[" + "٣" * n + ";1m")
    dec = AnsiDecoder()  # one decoder fed many lines: the carried style is shared state
    for _ in range(3000 if quick else 80000):
        s = "".join(rng.choice(ANSI_TOK) if rng.random() < 0.75 else rand_unicode(rng, rng.randint(1, 3)) for _ in range(rng.randint(1, 10)))
        if not surrogate_free(s):
            continue
        ansi_case(s)
        cls, _ = observe(lambda: list(dec.decode(s)))
        ctx.check(cls is None, "AnsiDecoder.decode(shared)", s, f"decode({s!r}) on a decoder with carried style raised {cls}", finding=classify_ansi(cls, s))
        seen_strings.append(s)

    _phase('ansi')
    # ---- 6. Text() and Console.print(markup=False) on everything generated so far ----------------------
    widths = [1, 2, 3, 5, 8, 13, 40, 200]
    cons = {(w, hl): Console(file=io.StringIO(), width=w, color_system=None, highlight=hl) for w in widths for hl in (True, False)}
    extra = [rand_unicode(rng, rng.randint(0, 40)) for _ in range(2000 if quick else 40000)]
    extra += ["\t" * 3 + "x", "a\tb\tc" * 5, "あ" * 50, "x" * 500, "\n" * 5, " " * 50, ":smiley: :x: ::", "\x1b[1mbold\x1b[0m", "1 2.5 0x1f True None 'str' <tag attr=1> http://x.y/z?q=1 (1, 2) {a: b} 2001:db8::1 ab:cd:ef:01:23:45 /usr/bin/x.py"]
    stride = max(1, len(seen_strings) // (6000 if quick else 150000))
    todo = [s for s in seen_strings[::stride] if surrogate_free(s)] + [s for s in extra if surrogate_free(s)]
    from lib_c14 import watchdog

    def guarded(f):
        def g():
            with watchdog(20):
                return f()
        return g

    # Text.__rich_measure__ (Model/TotalityPrint.lean `textRichMeasureE`): white-space-only texts of every kind first
    import lib_c14 as _L

    full_ws = [chr(c) for c in range(0x110000) if chr(c).isspace()]
    ctx.check(full_ws == _L.WS, "str.isspace", [hex(ord(c)) for c in full_ws], "lib_c14.WS is not the running Python's white-space set: extend its range")
    blanks = full_ws + _L.WS_MIX + [a + b for a in full_ws[::3] for b in full_ws[1::4]] + [a + "x" + b for a in full_ws[::5] for b in full_ws[2::6]]
    con_ms = Console(file=io.StringIO(), width=80, color_system=None)
    for j, s in enumerate(blanks + todo[:: (4 if quick else 1)]):
        if len(s) > 300:
            continue
        cls, m = observe(lambda: Text(s).__rich_measure__(con_ms, 10 ** 9))
        ctx.note("text_measure:" + (cls or "ok"))
        ctx.check(cls is None, "Text.__rich_measure__", s, f"Text({s!r}).__rich_measure__ raised {cls} (documented: measuring never raises)")
        ctx.case("c14_text_measure", [enc_str(s)], "ok:%d,%d" % (m.minimum, m.maximum) if cls is None else "err:Other:" + cls,
                 shape="blank" if j < len(blanks) else "seen", sample=f"Text({s!r}).__rich_measure__")
    for i, s in enumerate(todo):
        cls, t = observe(lambda: Text(s))
        ctx.check(cls is None and len(t) == len(t.plain), "Text()", s, f"Text({s!r}) raised {cls} or has len != len(plain)")
        # interleave widths and highlighter settings on shared consoles
        for w, hl in ((widths[i % len(widths)], True), (widths[(i // 3) % len(widths)], False)):
            con = cons[(w, hl)]
            cls, _ = observe(guarded(lambda: con.print(s, markup=False)))
            ctx.note("print_plain:w%d" % w)
            ctx.check(cls is None, "Console.print(markup=False)", (s, w, hl), f"Console(width={w}, highlight={hl}).print({s!r}, markup=False) raised {cls} (documented: never raises)")
            if i % 50 == 0:
                con.file.seek(0)
                con.file.truncate()
        if i % 3 == 0 and len(s) <= 300:
            # correspondence of the composed pipeline (Model/TotalityPrint.lean): the characters written to the file
            w = widths[(i // 3) % len(widths)]
            ov = [None, "fold", "crop", "ellipsis", "ignore"][(i // 3) % 5]
            nw = [None, False, True][(i // 15) % 3]
            crop = (i // 45) % 4 != 0
            e = ["\n", "", "E"][(i // 9) % 3]
            pc = Console(file=io.StringIO(), width=w, color_system=None, highlight=False, emoji=False)
            cls, _ = observe(guarded(lambda: pc.print(s, markup=False, overflow=ov, no_wrap=nw, crop=crop, end=e)))
            ctx.check(cls is None, "Console.print(markup=False)", (s, w, ov, nw, crop, e), f"print({s!r}, markup=False, overflow={ov}, no_wrap={nw}, crop={crop}, end={e!r}) at width {w} raised {cls}")
            ans = "ok:" + enc_str(pc.file.getvalue()) if cls is None else "err:Other:" + cls
            ctx.case("c14_print_plain", [w, ov or "-", "-" if nw is None else int(nw), int(crop), enc_str(" "), enc_str(e), enc_str(s)], ans,
                     shape="w%d:%s" % (w, ov), sample=f"Console(width={w}).print({s!r}, markup=False, overflow={ov}, no_wrap={nw}, crop={crop}, end={e!r})")
        if i % 11 == 0:
            w = widths[i % len(widths)]
            for kw in ({"justify": "full"}, {"overflow": "ellipsis", "no_wrap": True}, {"soft_wrap": True}, {"justify": "right", "overflow": "crop"}, {"emoji": False, "highlight": False, "end": ""}):
                cls, _ = observe(guarded(lambda: cons[(w, True)].print(s, markup=False, **kw)))
                ctx.check(cls is None, "Console.print(markup=False)", (s, w, kw), f"print({s!r}, markup=False, **{kw}) at width {w} raised {cls}")

    _phase('text_print')
    # ---- 6b. expand_tabs() on a user Text: Rule / Panel titles, with_indent_guides (deepening 4, C14-T1) -----------
    from rich.panel import Panel
    from rich.rule import Rule
    from rich.text import Text as _Text

    TA = TAB_ASSERT
    tab_alpha = ["\t", "a", "\n", "あ", " "]
    tab_strings = list(strings_upto(tab_alpha, 4 if quick else 6)) + ["ab\tcdefgh\ti\n\tj", "\t" * 9, "x\x00\ty", "a\r\tb"]
    for _ in range(150 if quick else 3000):
        tab_strings.append("".join(ctx.rng.choice(tab_alpha + ["bc", "\t\t", "\x07"]) for _ in range(ctx.rng.randint(1, 14))))
    tab_sizes = [None, 1, 2, 3, 4, 8, 11]
    wide = Console(file=io.StringIO(), width=400, color_system=None, legacy_windows=False)

    def rule_title(s, ts):
        # the title as the rule shows it (left aligned, not truncated at this width): "<title> ####…"
        out = "".join(g.text for g in wide.render(Rule(_Text(s, tab_size=ts), characters="#", align="left"), wide.options.update(width=400)))
        return out.rstrip("\n").rstrip("#")[:-1]

    for i, s in enumerate(tab_strings):
        for ts in tab_sizes if i < 400 else [ctx.rng.choice(tab_sizes), None]:
            shape = "tab_size=%s:%s" % ("None" if ts is None else "int", "tab" if "\t" in s else "notab")
            tse = "-" if ts is None else ts
            for arg in ([None, 1, 4] if i % 3 == 0 else [None]):
                def f(arg=arg):
                    t = _Text(s, tab_size=ts)
                    t.expand_tabs(arg)
                    return t.plain
                cls, v = observe(f)
                ctx.case("c14_expand_tabs", [TA, enc_str(s), tse, "-" if arg is None else arg], "ok:" + enc_str(v) if cls is None else "err:Other:" + cls,
                         shape=shape + (":arg" if arg else "") + ":" + (cls or "ok"), sample=f"Text({s!r}, tab_size={ts}).expand_tabs({arg})")
                # direct evaluation: documented options -> no exception
                ctx.check(cls is None, "Text.expand_tabs", (s, ts, arg), f"Text({s!r}, tab_size={ts}).expand_tabs({arg}) raised {cls} (tab_size=None is documented)",
                          finding="title-text-tab-size-none-assertion" if cls == "AssertionError" and ts is None and arg is None and "\t" in s else None)
            cls, v = observe(lambda: Panel("x", title=_Text(s, tab_size=ts))._title)
            if cls is None and v is None:
                ctx.note("title:panel:falsy")
            else:
                ctx.case("c14_panel_title", [TA, enc_str(s), tse], "ok:" + enc_str(v.plain) if cls is None else "err:Other:" + cls, shape=shape + ":" + (cls or "ok"),
                         sample=f"Panel('x', title=Text({s!r}, tab_size={ts}))._title")
            if s and "#" not in s:
                cls, v = observe(lambda: rule_title(s, ts))
                if cls is None and len(v) > 300:
                    ctx.note("title:rule:too-wide")
                else:
                    ctx.case("c14_rule_title", [TA, enc_str(s), tse], "ok:" + enc_str(v) if cls is None else "err:Other:" + cls, shape=shape + ":" + (cls or "ok"),
                             sample=f"Rule(Text({s!r}, tab_size={ts}))")
            cls, v = observe(lambda: _Text(s, tab_size=ts).with_indent_guides())
            ctx.case("c14_guides_prep", [TA, enc_str(s), tse], "ok" if cls is None else "err:Other:" + cls, shape=shape + ":" + (cls or "ok"),
                     sample=f"Text({s!r}, tab_size={ts}).with_indent_guides()")
            ctx.check(cls is None, "Text.with_indent_guides", (s, ts), f"Text({s!r}, tab_size={ts}).with_indent_guides() raised {cls}",
                      finding="title-text-tab-size-none-assertion" if cls == "AssertionError" and ts is None and "\t" in s else None)
    ctx.flush()

    _phase('title_tabs')
    # ---- 7. trees of built-in renderables x widths -------------------------------------------------------
    n_workers = 12
    per = 250 if quick else 6000
    jobs = [(ctx.seed, i, per, 3 if i % 3 else 4) for i in range(n_workers)]
    with multiprocessing.get_context("fork").Pool(n_workers) as pool_:
        results = pool_.map(_small_worker, [(i, n_workers, quick) for i in range(n_workers)])
        results += pool_.map(_layout_worker, jobs)
    for evals, notes, fails in results:
        for k, v in notes.items():
            ctx.note(k, v)
        ctx.dist["prop:layout"] += evals - len(fails)
        for site, cls, slug, inp, tb in fails:
            ctx.check(False, site if site != "build" else "constructor", inp, f"{cls} (documented: rendering and measuring a tree of built-in renderables with valid options at width >= 1 never raise) … {tb}", finding=slug)

    _phase("layout")
    ctx.rule = (
        "Color.parse: %d prefixes x every string <= %d over %r + rgb(<every string <= %d over %r>) + listed + seeded random; "
        "Style.parse/normalize: every sequence of <= %d words over %d words + seeded random with Unicode separators; "
        "markup: every string <= %d over %d tokens + every sequence of <= %d tags over %d tags + random; get_style: names x defaults; "
        "ANSI: every string <= %d over %d tokens; Text.__rich_measure__: every str.isspace character alone and in pairs + the strings above; Text()/print(markup=False): all of the above at widths %r, highlighter on/off; "
        "layout: every small tree of lib_c14.small_trees (every kind x every boolean/enum option value x small and threshold numeric options, depth <= 2) x widths 1..6 (tables in the quick tier: 1,2,3,5) and =,+-1 around measured min/max and explicit width options; %d seeded random trees (depth <= 4, 15 kinds of renderable) x 3 widths in 1..200 x {render, measure, print}; "
        "distinct = distinct canonical requests to the model"
        % (len(COLOR_PRE), body_n, COLOR_BODY, 5 if quick else 7, RGB_IN, nwords, len(STYLE_WORDS), 3 if quick else 4, len(MARKUP_TOK), 2 if quick else 3, len(MARKUP_TAGS), 3 if quick else 4, len(ANSI_TOK), widths, n_workers * per)
    )


def replay(ctx, case):
    print("site:", case.get("site"))
    print("input:", case.get("input"))
    print("what:", case.get("what"))
    print("re-run `./check C14` to re-evaluate (the generators are seeded: VERIF_SEED=%s)" % case.get("seed"))
    return False


MANIFEST = {
    "text": "Lean 4 theorems (Props/C14.lean), all unbounded.  (1) The exception layer of the string entry points over ALL code points and "
    "for EVERY character table of the running Python (C06's StrTables: str.isspace, \\d/int() digit values, str.lower, the int() digit "
    "limit; the parsers are C06's Color.parseT / Style.parseT / normalizeT - single source): color_parse_total (ok or ColorParseError), "
    "style_parse_total (ok or StyleSyntaxError), normalize_total (never raises), markup_render_total (ok or MarkupError; the render loop is "
    "C04's with a normalize that may raise, proved equal to C04's render when it does not), get_style_total (ok or MissingStyle, any theme "
    "stack, any default).  (2) decode_total (C19's decoder model, intRaises=false: every string decodes, any carried style); "
    "text_ctor_total (every string incl. control characters constructs a consistent Text); wrap_total (Text.wrap never raises and returns "
    "consistent lines at EVERY width incl. 0 and 1, every width function, every justify/overflow/no_wrap, every tab size >= 1 - needs the "
    "new divideLine_weak: the offsets of divide_line are ascending and inside the text at any width); text_render_total; text_measure_total (Text.__rich_measure__ never reaches max() of an empty sequence provided the "
    "blank-text guard strips every character str.split() splits on - in rich both are str.isspace); "
    "print_plain_total (Console.print(s, markup=False): render_str -> emoji -> highlighter (parameter with contract: spans inside [0,len]) "
    "-> join -> Text.__rich_console__ -> crop never raises, any string, any width).  (3) layout_total over the inductive type R of "
    "renderable trees of Model/Layout.lean (C01/C09): for valid options (consistent texts, padding an int or a 1/2/4-tuple; everything "
    "else is valid by type) and the repaired code, at EVERY node, for every ConsoleOptions in force and every width handed down (any "
    "natural number, far below the structural minimum) no raising branch is taken: texts wrap and render, Panel unpacks its padding, "
    "Table._calculate_column_widths returns (C07's calcWidths_total on the table the composition layer builds, proved Sane here), Columns "
    "lays out >= 1 column (C08) and its inner grid is solved.  old_* witnesses (by decide) show rich 9.10.0 as found raising at each of the "
    "five defects (F9 at every string entry point, F10, the two table assertions, the layout poison for Table(expand) without columns and "
    "Columns(width > console)).  Tie: ~160k (quick) / ~2.5M (thorough) generated strings compared model-vs-rich on outcome class AND value "
    "(colour fields, str(style), normal form, plain text + spans; ~2.7k/65k Console.print(markup=False) outputs through the composed print "
    "model), the driver's Unicode tables compared with the running interpreter; direct evaluation of the exception class at every entry "
    "point of the statement, over a bounded-exhaustive stream of 4,341 small trees (every renderable kind x every boolean/enum option x "
    "small/threshold numeric options, depth <= 2) x widths 1..6 and =,+-1 around every structural threshold, and over seeded random trees "
    "of 15 kinds x widths 1..200.",
    "note": "What the theorems assume: the highlighter's contract (checked per case on rich's ReprHighlighter through direct evaluation of "
    "Console.print); CfgRepaired (the repaired code variants: what /repo contains); for layout_total the tree is one of Model/Layout.lean's "
    "16 constructors (Pretty, Syntax, Markdown, Live are outside R) and titles/boxes outside the frame models' domain are the model's "
    "`.ok none`, not an exception.  layout_total is stated as AllOk (the scrutinee of every Except/Option match of render/measure is not an "
    "error, at every node, width and options) because render/measure are total Lean functions that map a raising branch to a poison value.  "
    "The direct evaluation only sees mutations that raise, hang or mis-measure; wrong-but-silent output is the subject of C02/C05/C07/C08/"
    "C19/C01/C09.  Trusted: Lean kernel; propext/Classical.choice/Quot.sound; translator + plug-in harness/gen/str_tables.py (C06's: "
    "str.lower / isspace / decimal tables; strings containing GREEK CAPITAL SIGMA are unmodelled: final-sigma rule); the correspondence "
    "harness; lru_cache on the parsers assumed transparent; lone surrogates excluded.  On rich 9.10.0 as found the check reported F9 "
    "(rgb-component-valueerror), F10 (ansi-sgr-int-valueerror), F11 (columns-width-zero-division) and two new table findings "
    "(table-no-columns-assertion, table-zero-ratio-narrow-assertion); all are repaired in /repo (fixes c34676b, 8dc20cb, f7ecf83, 1d61bac, "
    "ab98098), RGB_VALUEERROR holds the repaired value 0.  "
    "DEEPENING 4 (C14-T1, OPEN): the renderable-tree generators now build Text objects with EVERY documented constructor option at every "
    "documented value (justify / overflow / no_wrap / tab_size incl. None, end '' / '\\n' / ' ' / 'ab', style as '' / str / Style) on "
    "contents with tabs, line feeds and control characters, as leaf and as Panel / Rule / Table / Columns title, table caption, column "
    "header / footer, cell and Tree label: bounded-exhaustive (lib_c14.text_option_trees: one option varied at a time + all-None + "
    "all-extreme, x 20 positions; quick tier: the per-option sweep on 2 of the 9 contents) and in the seeded random trees.  The direct "
    "evaluation finds by itself that Rule(Text('a\\tb', tab_size=None)), Panel('x', title=Text('a\\tb', tab_size=None)) (render AND measure) "
    "and Text('\\t', tab_size=None).with_indent_guides() / .expand_tabs() raise an undocumented AssertionError (text.py:643 `assert "
    "tab_size is not None`; tab_size=None is documented).  Model/TotalityTitle.lean models the three callers of expand_tabs() without "
    "argument (rule.py:76-79, Panel._title, with_indent_guides' copy+expand) over C05's Text model behind the flag tabAssert; "
    "title_expand_tabs_total proves totality + consistency for the repaired variant (every consistent Text, every documented tab_size "
    "incl. None, unbounded), expand_tabs_repair_conservative that the repair changes nothing when a tab size is in force, and three "
    "`old_…` decide-witnesses show the code as found raising.  Correspondence: c14_expand_tabs / c14_panel_title / c14_rule_title / "
    "c14_guides_prep on every string <= 4 (thorough 6) over {tab, a, LF, wide, blank} x tab_size {None,1,2,3,4,8,11} x argument "
    "{None,1,4} + seeded random.  The defect was repaired in /repo 7535af5 (pending_fixes/C14-expand-tabs-tab-size-none-assertion.diff: fall back to 8, as the "
    "method's docstring says); TAB_ASSERT = 0 matches /repo now, the slug `title-text-tab-size-none-assertion` only labels a failure should it return.  The `R` tree model (Model/Layout.lean, C01/C09) still assumes tab-free titles: layout_total does not "
    "cover a title with a tab; the tie for those is title_expand_tabs_total + the direct evaluation.  Text.__rich_measure__ is modelled "
    "as /repo has it since fix 542a59e (split('\\n'); textRichMeasureNL, text_measure_total_nl); textRichMeasureE is the code before it.",
    "design_ref": "DESIGN.md section 7, C14",
}
