"""C08 — framing renderables draw exact rectangles around intact content.

Correspondence: Lean model (Model/Frames, FramesStyled, FramesTitle, FramesTree, FramesColumns; Columns rendered through
Model/Layout and Model/Table) vs rich.panel / padding / align (Align, VerticalCenter) / constrain / styled / rule / bar /
progress_bar / tree / columns, in-process (children are tabulated oracles): Padding / Panel / Align / Styled / VerticalCenter /
Rule segment style by segment style, Bar / ProgressBar / Tree / Columns text for text.
Direct evaluation (3d): the executable statements of the theorems in Props/C08.lean on rich's own output, with an
oracle written here from the property text (independent of the Lean model).
"""
import itertools
import re
from fractions import Fraction

from core import enc_bool, enc_str
import lib_frames_bars
from lib_frames import Batch, Env, Leaf, box_names, build, canon_measure, canon_render, render_segments, rule_title_plain, runs, style_complete, title_plain

PROPERTY = "C08"

# CODE VARIANT FLAGS — the value that matches the code in /repo as it is now (see Model/Frames.lean `Variant` and
# Model/FramesStyled.lean `SVariant`): 1 = rich 9.10.0 as found, 0 = repaired; all seven defects are repaired in /repo, all seven flags are 0.
# 1 = Align / Padding(expand=False) / Panel(expand=False) render a child whose measured maximum is 0 at width 0
#     (nothing is drawn: pre-finding F25); 0 = the repair (fix a9def3a = pending_fixes/C08-zero-width-child.diff), in /repo now.
ZERO_WIDTH_CHILD = 0
# 1 = Rule(align="right") repeats `characters` (width - title - 1) TIMES, so multi-cell `characters` push the title out;
#     0 = the repair (fix 8879061 = pending_fixes/C08-rule-right-multicell.diff), in /repo now.
RULE_RIGHT_REPEAT = 0
# 1 = Text.rstrip_end compares the CHARACTER count with the cell width, so a rule / panel title with zero-width characters
#     that exactly fills its width loses trailing blanks (finding rule-rstrip-zero-width);
#     0 = the repair (fix f5f2be9 = pending_fixes/C08-rstrip-end-counts-cells.diff), in /repo now.
RSTRIP_COUNTS_CHARS = 0
# 1 = Columns(width=w) computes max_width // (w + padding) columns, possibly 0, and raises ZeroDivisionError (F11);
#     0 = the repair `max(1, max_width // max(1, w + padding))` (fix f7ecf83; proposed as pending_fixes/C08-columns-width-plus-padding-zero.ALTERNATIVE-to-C14.diff), in /repo now.
COLUMNS_ZERO_COUNT = 0
# 1 = Console.render_lines(..., style=s) restyles the rendered segments but pads short lines with style None, so the blanks that
#     complete a child's line inside Panel(style=…) are unstyled (finding panel-content-pad-unstyled);
#     0 = the repair (fix 63e086e = pending_fixes/C08-render-lines-pad-style.diff), in /repo now.
LINES_PAD_UNSTYLED = 0
# 1 = Panel renders its title with console.render(title_text) — at console.width, not at the width it aligned the title to — so a
#     panel rendered with options wider than the console gets a cropped top border (finding panel-title-at-console-width);
#     0 = the repair (fix 0e1edf7 = pending_fixes/C08-panel-title-width.diff), in /repo now.
TITLE_AT_CONSOLE_WIDTH = 0
# 1 = a Rule without title ignores its `end` option (rule.py:62); 0 = the repair (fix a442cbd = pending_fixes/C08-rule-no-title-end.diff), in /repo now.
RULE_NO_TITLE_END = 0
VARIANT = (ZERO_WIDTH_CHILD + 2 * RULE_RIGHT_REPEAT + 4 * RSTRIP_COUNTS_CHARS + 8 * COLUMNS_ZERO_COUNT + 16 * LINES_PAD_UNSTYLED
           + 32 * TITLE_AT_CONSOLE_WIDTH + 64 * RULE_NO_TITLE_END)

GUIDE_CHARS = set(" |+-`│├─└┃┣━┗║╠═╚")
BAR_CHARS = set(" █▐▕▏▎▍▌▋▊▉")


def cell_len(s):
    from rich.cells import cell_len as cl

    return cl(s)


def fit(line, n):
    """a child line as it must appear inside a frame: unchanged, then blanks up to n cells (None if it does not fit)"""
    k = cell_len(line)
    return None if k > n else line + " " * (n - k)


def split_out(text):
    ls = text.split("\n")
    terminated = ls[-1] == ""
    if terminated:
        ls.pop()
    return ls, terminated


def unpack(pad):
    if isinstance(pad, int):
        return (pad,) * 4
    if len(pad) == 1:
        return (pad[0],) * 4
    if len(pad) == 2:
        return (pad[0], pad[1], pad[0], pad[1])
    return tuple(pad)


def streams(segs):
    """lines of (character, style) of the non-control segments; the line feeds themselves are dropped"""
    lines, cur = [], []
    for sg in segs:
        if sg.is_control:
            continue
        for ch in sg.text:
            if ch == "\n":
                lines.append(cur)
                cur = []
            else:
                cur.append((ch, sg.style))
    if cur:
        lines.append(cur)
    return lines


def sty(base, cs):
    """`Segment.apply_style(base)` on a segment of style cs"""
    return cs if base is None else base + cs


def same_style(a, b):
    return (a is None and b is None) or (a is not None and b is not None and a == b)


def stream_eq(got, want):
    return len(got) == len(want) and all(g[0] == w[0] and same_style(g[1], w[1]) for g, w in zip(got, want))


def stream_cells(st):
    return cell_len("".join(c for c, _ in st))


class World:
    """one console + its leaves; renders children alone (memoised) for the oracle"""

    def __init__(self, ctx, env, objs, wtab, names, boxes):
        self.ctx, self.env, self.objs, self.names, self.boxes = ctx, env, objs, names, boxes
        self.console = env.console()
        self.wtab = wtab
        import copy
        import lib_frames

        cell_env = copy.copy(env)  # the options of a default table Column, under which Columns renders its items
        cell_env.justify, cell_env.overflow, cell_env.no_wrap = "left", "ellipsis", False
        self.leaves = [Leaf(self.console, o, wtab, repr(o)[:40], env) for o in objs] + [Leaf(self.console, o, wtab, repr(o)[:40], cell_env) for o in objs]
        lib_frames.COLS_SHIFT[0] = len(objs)
        self.batch = Batch(ctx, env, self.leaves, names, self.console)
        self.memo = {}

    def child_text(self, e, w):
        from lib_frames import render_text

        if w < 1:
            return ""
        if e[0] == "L" and w <= self.wtab:
            return self.leaves[e[1]].text_at(w)
        key = (repr(e), w)
        if key not in self.memo:
            self.memo[key] = render_text(self.console, build(e, self.objs), w, self.env)[0]
        return self.memo[key]

    def child_stream(self, e, w):
        """the child's own rendering at width w as lines of (character, style)"""
        if w < 1:
            return []
        if e[0] == "L" and w <= self.wtab:
            return streams(self.leaves[e[1]].renders[w])
        key = ("s", repr(e), w)
        if key not in self.memo:
            self.memo[key] = streams(render_segments(self.console, build(e, self.objs), w, self.env))
        return self.memo[key]

    def child_lines(self, e, w):
        return split_out(self.child_text(e, w))[0]

    def child_max(self, e, w):
        from rich.measure import Measurement

        key = ("m", repr(e), w)
        if key not in self.memo:
            self.memo[key] = Measurement.get(self.console, build(e, self.objs), w).maximum
        return self.memo[key]

    def stable(self, e, lo, hi):
        """the child renders the same lines (ignoring trailing blanks) at every width lo..hi"""
        ref = [l.rstrip(" ") for l in self.child_lines(e, hi)]
        return all([l.rstrip(" ") for l in self.child_lines(e, k)] == ref for k in range(max(lo, 1), hi))

    # ------------------------------------------------------------------ one query = correspondence + property
    def query(self, e, mw, measure=False):
        styled = style_complete(e)
        impl, text, segs = canon_render(self.console, lambda: build(e, self.objs), mw, self.env, styled)
        self.segs = segs
        readable = f"{self.env!r} render {e!r} max_width={mw}"
        self.batch.add("S" if styled else "R", VARIANT, mw, e, impl, readable)
        if measure:
            self.batch.add("M", VARIANT, mw, e, canon_measure(self.console, lambda: build(e, self.objs), mw), readable.replace("render", "measure"))
        if text is None:
            self.ctx.check(False, "render:" + e[0], (repr(self.env), e, mw), f"unexpected exception {impl}", finding=None)
            return None
        if mw >= 1:
            CHECKS[e[0]](self, e, mw, text)
        else:
            self.ctx.check(text == "", "Console.render(width<1)", (repr(self.env), e, mw), "something was rendered in no space")
        return text

    # ------------------------------------------------------------------ re-render histories (state kept on the instance)
    def history(self, e, widths):
        """Render ONE object at a sequence of widths: every render must satisfy the property's clause for its width and
        equal what a freshly built equal object renders at that width (stale caches, texts mutated in place, …)."""
        try:
            obj = build(e, self.objs)
        except Exception:
            return
        self.ctx.note("history:" + e[0])
        self.in_history = True
        try:
            for i, mw in enumerate(widths):
                inp = (repr(self.env), e, "widths rendered in turn on one object: %r" % (list(widths[: i + 1]),))
                try:
                    segs = render_segments(self.console, obj, mw, self.env)
                except Exception as ex:
                    self.ctx.check(False, "rerender:" + e[0], inp, f"render #{i + 1} of the same object at width {mw} raises {type(ex).__name__}")
                    return
                text = "".join(s.text for s in segs if not s.is_control)
                # JUDGE: the statement's clauses for this width, on every render of the history
                self.segs = segs
                self.hist = inp
                if mw >= 1:
                    CHECKS[e[0]](self, e, mw, text)
                else:
                    self.ctx.check(text == "", "Console.render(width<1)", inp, "something was rendered in no space")
                # OBSERVATION (no verdict): does this render differ from what a freshly built equal object renders?  The statement
                # does not ask for it (a Rule given a Text title edits that Text in place, see the MANIFEST note).
                try:
                    fresh = render_segments(self.console, build(e, self.objs), mw, self.env)
                except Exception:
                    continue
                if runs(segs, True) != runs(fresh, True):
                    kind = e[0] + ("-text-title" if hasattr(e[1].get("title") if isinstance(e[1], dict) else None, "plain") else "")
                    key = "rerender-differs-from-fresh:" + kind
                    if key not in self.ctx.dist:
                        ftext = "".join(s.text for s in fresh if not s.is_control)
                        self.ctx.add_sample({"observation": key, "input": repr(inp)[:400], "same object": text[:120], "fresh object": ftext[:120]})
                    self.ctx.note(key)
        finally:
            self.in_history = False
            self.hist = None

    def fail(self, site, e, mw, what, finding=None):
        self.ctx.check(False, site, getattr(self, "hist", None) or (repr(self.env), e, mw), what, finding=finding)

    def ok(self, site):
        self.ctx.check(True, site, None, "")


# ---------------------------------------------------------------------------------------------- property oracles
def check_fit_intact(wd, site, e, child, mw, avail, body_lines, strip_left):
    """non-expanding frames: for a child that renders the same lines at every width from its measured maximum up to
    the available width, the body shows exactly those lines (none lost)."""
    m = wd.child_max(child, max(avail, 0) if site != "Align" else wd.env.width)
    if (avail < 1 or m > avail or not wd.stable(child, max(m, 1), avail) or any(cell_len(l) > avail for l in wd.child_lines(child, avail))
            or any(cell_len(l) > max(m, 1) for l in wd.child_lines(child, max(m, 1)))):
        wd.ctx.note("intact:skipped-unstable-or-too-wide")
        return
    want = [l.rstrip(" ") for l in wd.child_lines(child, avail)]
    got = [l[strip_left:].rstrip(" ") if strip_left is not None else l.strip(" ") for l in body_lines]
    if site == "Align":
        want = [l.strip(" ") for l in want]
    if got == want:
        wd.ok(site + ":intact")
        return
    finding = None
    if m == 0 and len(body_lines) == 0 and len(want) >= 1:
        finding = "zero-width-child-no-line"
    wd.fail(site + ":intact", e, mw, f"child alone renders lines {want!r}, the frame shows {got!r} (measured maximum {m})", finding)


def check_pad(wd, e, mw, text):
    _, pad, expand, child = e[:4]
    top, right, bottom, left = unpack(pad)
    lines, term = split_out(text)
    if mw < left + right + 1:
        wd.ctx.note("Padding:below-structural-minimum")
        return
    if not term and text:
        return wd.fail("Padding", e, mw, "output does not end with a line feed")
    widths = {cell_len(l) for l in lines}
    if len(widths) > 1:
        return wd.fail("Padding", e, mw, f"lines of different widths {sorted(widths)}")
    if not lines:
        wd.ctx.note("Padding:no-lines")
        if not expand:
            check_fit_intact(wd, "Padding", e, child, mw, mw - left - right, [], left)
        return
    width = widths.pop()
    if (expand and width != mw) or width > mw:
        return wd.fail("Padding", e, mw, f"width {width}, available {mw}, expand={expand}")
    inner = width - left - right
    if inner < 0 or len(lines) < top + bottom:
        return wd.fail("Padding", e, mw, "fewer lines / cells than the requested padding")
    body = lines[top : len(lines) - bottom]
    if any(l != " " * width for l in lines[:top] + lines[len(lines) - bottom :]):
        return wd.fail("Padding", e, mw, "top/bottom padding lines are not blank lines of the frame width")
    own = wd.child_lines(child, inner)
    want = [None if fit(l, inner) is None else " " * left + fit(l, inner) + " " * right for l in own]
    if None in want:
        wd.ctx.note("Padding:child-overflows-its-width")
    elif body != want:
        return wd.fail("Padding", e, mw, f"body {body!r} is not the child's own lines {own!r} between {left}/{right} blanks")
    wd.ok("Padding")
    if None not in want:
        # padding_style: every cell the frame adds carries the requested style; the child's cells carry style + their own
        st = wd.console.get_style(e[4] if len(e) > 4 else "none")
        own_s = wd.child_stream(child, inner)
        want_s = ([[(" ", st)] * width] * top
                  + [[(" ", st)] * left + [(c, sty(st, cs)) for c, cs in l] + [(" ", st)] * (inner - stream_cells(l)) + [(" ", st)] * right for l in own_s]
                  + [[(" ", st)] * width] * bottom)
        got_s = streams(wd.segs)
        wd.ctx.check(len(got_s) == len(want_s) and all(stream_eq(g, w_) for g, w_ in zip(got_s, want_s)), "Padding:style", (repr(wd.env), e, mw),
                     "a padding cell does not carry the requested style, or a child cell not style + its own")
    if not expand:
        check_fit_intact(wd, "Padding", e, child, mw, mw - left - right, body, left)


def expected_box(wd, o):
    name = o.get("box", "ROUNDED")
    i = wd.names.index(name)
    bx, subst, ascii_idx = wd.boxes
    safe = wd.env.safe_box if o.get("safe_box") is None else o["safe_box"]
    if wd.env.legacy_windows and safe:
        i = dict(subst).get(i, i)
    if wd.env.ascii_only and not bx[i][1]:
        i = ascii_idx
    return bx[i][2]


def check_panel(wd, e, mw, text):
    _, o, child = e
    title = title_plain(o.get("title"))
    lines, term = split_out(text)
    minw = 4 if title else (2 if o.get("expand", True) else 3)  # two border cells (+ one content cell when fitting, + the title's two)
    limit = mw if o.get("width") is None else min(mw, o["width"])
    if limit < minw or (title and mw < 4):
        wd.ctx.note("Panel:below-structural-minimum")
        return
    if not term or len(lines) < 2:
        return wd.fail("Panel", e, mw, "no top/bottom border or no final line feed")
    widths = {cell_len(l) for l in lines}
    if len(widths) > 1:
        finding = None
        own_justify = getattr(o.get("title"), "justify", None) is not None
        if title and len({cell_len(l) for l in lines[1:]}) == 1 and (
                (mw > wd.env.width and cell_len(lines[0]) < cell_len(lines[1])) or (own_justify and cell_len(lines[0]) == wd.env.width + 4)):
            # only the top border is off: the panel is wider than the console (title cropped to console.width), or the title
            # Text has its own `justify` (title padded out to console.width)
            finding = "panel-title-at-console-width"
        elif (title and getattr(o.get("title"), "overflow", None) == "ellipsis" and len({cell_len(l) for l in lines[1:]}) == 1
              and cell_len(lines[1]) == 4 and cell_len(lines[0]) == 5 and lines[0][2:-2] == "…"):
            # Text.truncate(0, overflow="ellipsis") yields "…" (one cell) for a title that has no room at all
            finding = "panel-title-ellipsis-in-zero-cells"
        return wd.fail("Panel", e, mw, f"lines of different widths {sorted(widths)}", finding)
    width = widths.pop()
    expand = o.get("expand", True)
    if width > mw:
        return wd.fail("Panel", e, mw, f"panel {width} wide in {mw}")
    if expand and o.get("width") is None and width != mw:
        return wd.fail("Panel", e, mw, f"expanding panel is {width} wide, available {mw}")
    if expand and o.get("width") is not None and not title and width != min(mw, o["width"]):
        return wd.fail("Panel", e, mw, f"panel(width={o['width']}) is {width} wide, available {mw}")
    if not expand and o.get("width") is None and "\t" not in title:
        # exactly the requested border and padding cells: a fitting panel is its (padded) child's measured maximum — at least one
        # cell, at least the title and its two fill characters — plus the two border cells, never more than is available
        pad_ = unpack(o.get("padding", (0, 1)))
        inner_ = ("PAD", list(pad_), True, child) if any(pad_) else child
        want_w = min(mw, max(max(1, wd.child_max(inner_, mw - 2)), (cell_len(" " + title.replace("\n", " ") + " ") + 2) if title else 0) + 2)
        if width != want_w:
            return wd.fail("Panel", e, mw, f"fitting panel is {width} cells wide; its child measures {wd.child_max(inner_, mw - 2)}"
                           + (f", its title {title!r} needs {cell_len(title.replace(chr(10), ' ')) + 4}" if title else "") + f": expected {want_w}")
    box = expected_box(wd, o)
    tl, tp, _, tr = box[0]
    ml, _, _, mr = box[3]
    bl, bt, _, br = box[7]
    if lines[-1] != bl + bt * (width - 2) + br:
        return wd.fail("Panel", e, mw, f"bottom border {lines[-1]!r}")
    if not title:
        if lines[0] != tl + tp * (width - 2) + tr:
            return wd.fail("Panel", e, mw, f"top border {lines[0]!r}")
    else:
        t = " " + title.replace("\n", " ") + " "
        if not (lines[0].startswith(tl + tp) and lines[0].endswith(tp + tr)):
            return wd.fail("Panel", e, mw, f"top border {lines[0]!r}")
        mid = lines[0][2:-2]
        room = width - 4
        plain_title = o.get("title") if isinstance(o.get("title"), str) else None
        if plain_title not in SIMPLE_TITLES:
            wd.ctx.note("Panel:title-not-simple")  # markup, tabs, own overflow…: only the rectangle is claimed
        elif cell_len(t) <= room:
            ex = room - cell_len(t)
            a = o.get("title_align", "center")
            lft = {"left": 0, "center": ex // 2, "right": ex}[a]
            if mid != tp * lft + t + tp * (ex - lft):
                return wd.fail("Panel", e, mw, f"title part {mid!r} is not {t!r} aligned {a} in {room} cells")
        else:
            wd.ctx.note("Panel:title-truncated")
            # a panel is made wide enough for its title whenever the available width allows it
            if cell_len(t) + 4 <= mw:
                return wd.fail("Panel", e, mw, f"title {t!r} truncated to {room} cells although {mw} cells are available")
    pad = unpack(o.get("padding", (0, 1)))
    inner_e = ("PAD", list(pad), True, child) if any(pad) else child
    body = lines[1:-1]
    if any(not (l.startswith(ml) and l.endswith(mr)) for l in body):
        return wd.fail("Panel", e, mw, "a body row does not start/end with the side border")
    own = wd.child_lines(inner_e, width - 2)
    want = [fit(l, width - 2) for l in own]
    if None in want:
        wd.ctx.note("Panel:child-overflows-its-width")
    elif [l[1:-1] for l in body] != want:
        return wd.fail("Panel", e, mw, f"body {[l[1:-1] for l in body]!r} is not the (padded) child's own lines {own!r}")
    wd.ok("Panel")
    if None not in want:
        check_panel_style(wd, e, mw, width, inner_e, bool(title))
    if not expand and not title and o.get("width") is None and mw >= 3:
        check_fit_intact(wd, "Panel", e, inner_e, mw, mw - 2, [l[1:-1] for l in body], 0)


def check_panel_style(wd, e, mw, width, inner_e, has_title):
    """panel_border_style: every border cell carries style + border_style, every content cell style + its own — including the
    blanks that complete a short child line (they are content of the panel: `style (str): The style of the panel (border and contents)`)."""
    o = e[1]
    st = wd.console.get_style(o.get("style", "none"))
    bs = st + wd.console.get_style(o.get("border_style", "none"))
    got = streams(wd.segs)
    own = wd.child_stream(inner_e, width - 2)
    inp = (repr(wd.env), e, mw)
    border_ok = all(same_style(x[1], bs) for x in got[-1]) and (has_title or all(same_style(x[1], bs) for x in got[0]))
    if has_title:  # the four corner / edge cells around the title and the fill characters
        border_ok = border_ok and all(same_style(x[1], bs) for x in got[0][:2] + got[0][-2:])
        if isinstance(o.get("title"), str) and "[" not in o["title"]:
            border_ok = border_ok and all(same_style(x[1], bs) for x in got[0])
    for row in got[1:-1]:
        border_ok = border_ok and same_style(row[0][1], bs) and same_style(row[-1][1], bs)
    wd.ctx.check(border_ok, "Panel:border-style", inp, "a border cell does not carry style + border_style")
    bad_child, bad_pad = False, False
    for row, l in zip(got[1:-1], own):
        body = row[1:-1]
        n = len(l)
        if not stream_eq(body[:n], [(c, sty(st, cs)) for c, cs in l]):
            bad_child = True
        if not all(ch == " " and same_style(x, st) for ch, x in body[n:]):
            bad_pad = True
    finding = None
    if bad_pad and not bad_child and all(ch == " " and x is None for row, l in zip(got[1:-1], own) for ch, x in row[1:-1][len(l):]
                                         if not same_style(x, st)):
        finding = "panel-content-pad-unstyled"
    wd.ctx.check(not (bad_child or bad_pad), "Panel:content-style", inp,
                 "a content cell of the panel does not carry the panel style" + (" (the blanks completing a short line have style None)" if bad_pad and not bad_child else ""),
                 finding=finding)


def check_align(wd, e, mw, text):
    _, o, child = e
    lines, term = split_out(text)
    if text and not term:
        return wd.fail("Align", e, mw, "output does not end with a line feed")
    m = wd.child_max(child, wd.env.width)  # Align measures against console.width
    # the inner width is the child's measured maximum — or at least 1 (what the zero-width repair asks for); which of the
    # two the code uses is the business of the `intact` statement below, not of the rectangle
    own = None
    for m_ in (m, max(1, m)):
        iw = m_ if o.get("width") is None else min(m_, o["width"])
        iw = min(iw, mw)
        cand = wd.child_lines(child, iw)
        if own is None or len(cand) == len(lines):
            own = cand
    wc = max([cell_len(l) for l in own], default=0)
    if len(lines) != len(own):
        return wd.fail("Align", e, mw, f"{len(lines)} lines for a child with {len(own)} lines")
    excess = mw - wc
    pad = o.get("pad", True)
    if excess <= 0:
        lft, rgt = 0, 0
    else:
        lft = {"left": 0, "center": excess // 2, "right": excess}[o["align"]]
        rgt = (excess - lft) if pad else 0
    want = [" " * lft + fit(l, wc) + " " * rgt for l in own]
    if lines != want:
        return wd.fail("Align", e, mw, f"lines {lines!r}, expected the child's own lines {own!r} aligned {o['align']} (pad={pad}) in {mw}")
    if (pad or o["align"] == "right") and wc <= mw and any(cell_len(l) != mw for l in lines):
        return wd.fail("Align", e, mw, "a padded line is not the available width")
    wd.ok("Align")
    st = None if o.get("style") is None else wd.console.get_style(o["style"])
    iw_used = None
    for m_ in (m, max(1, m)):
        iw = min(m_ if o.get("width") is None else min(m_, o["width"]), mw)
        if [("".join(c for c, _ in l)) for l in wd.child_stream(child, iw)] == own:
            iw_used = iw
    if iw_used is not None:
        own_s = wd.child_stream(child, iw_used)
        want_s = [[(" ", st)] * lft + [(c, sty(st, cs)) for c, cs in l] + [(" ", sty(st, None))] * (wc - stream_cells(l)) + [(" ", st)] * rgt for l in own_s]
        got_s = streams(wd.segs)
        wd.ctx.check(len(got_s) == len(want_s) and all(stream_eq(g, w_) for g, w_ in zip(got_s, want_s)), "Align:style", (repr(wd.env), e, mw),
                     "a pad cell does not carry the requested style, or a child cell not style + its own")
    if o.get("width") is None:
        check_fit_intact(wd, "Align", e, child, mw, mw, lines, None)


def check_constrain(wd, e, mw, text):
    _, width, child = e
    want = wd.child_text(child, mw if width is None else min(width, mw))
    wd.ctx.check(text == want, "Constrain", (repr(wd.env), e, mw), "not the child rendered at min(width, available)")


def check_styled(wd, e, mw, text):
    wd.ctx.check(text == wd.child_text(e[1], mw), "Styled", (repr(wd.env), e, mw), "text changed by Styled")
    st = wd.console.get_style(e[2] if len(e) > 2 else "bold")
    want_s = [[(c, sty(st, cs)) for c, cs in l] for l in wd.child_stream(e[1], mw)]
    got_s = streams(wd.segs)
    wd.ctx.check(len(got_s) == len(want_s) and all(stream_eq(g, w_) for g, w_ in zip(got_s, want_s)), "Styled:style", (repr(wd.env), e, mw),
                 "a cell does not carry style + its own")


def check_vc(wd, e, mw, text):
    """VerticalCenter: the child's own lines (unpadded) in the middle of `console.height` lines; the blank lines above and
    below are as wide as the child's widest line and carry the requested style."""
    _, style, child = e
    lines, term = split_out(text)
    own = wd.child_lines(child, mw)
    h = wd.env.height
    top = (h - len(own)) // 2
    bottom = h - top - len(own)
    wc = max([cell_len(l) for l in own], default=0)
    want = [" " * wc] * max(top, 0) + own + [" " * wc] * max(bottom, 0)
    if wc > mw:
        return wd.ctx.note("VerticalCenter:child-overflows-its-width")
    if (text and not term) or lines != want:
        return wd.fail("VerticalCenter", e, mw, f"{len(lines)} lines, expected {max(top, 0)} blank + {len(own)} + {max(bottom, 0)} blank of {wc} cells")
    st = None if style is None else wd.console.get_style(style)
    got_s = streams(wd.segs)
    own_s = wd.child_stream(child, mw)
    want_s = [[(" ", st)] * wc] * max(top, 0) + own_s + [[(" ", st)] * wc] * max(bottom, 0)
    # (streams() drops empty trailing lines only at the very end; lengths agree because every line ends with a line feed)
    ok = len(got_s) == len(want_s) and all(stream_eq(g, w_) for g, w_ in zip(got_s, want_s))
    wd.ctx.check(ok, "VerticalCenter:style", (repr(wd.env), e, mw), "a blank cell does not carry the requested style or a child cell changed")
    wd.ok("VerticalCenter")


def check_rule(wd, e, mw, text):
    o = e[1]
    end = o.get("end", "\n")
    if not text.endswith(end) or (end == "" and text.endswith("\n")):
        finding = "rule-no-title-ignores-end" if not o.get("_title_plain", "") and text.endswith("\n") and "\n" not in text[:-1] else None
        wd.fail("Rule:end", e, mw, f"the rule does not end with its `end` option {end!r}: {text[-3:]!r}", finding)
        end = "\n" if finding else end
        if not text.endswith(end):
            return
    line = text[: len(text) - len(end)] if end else text
    if "\n" in line:
        return wd.fail("Rule", e, mw, "more than one line")
    title = o.get("_title_plain", "").replace("\n", " ")
    if "\t" in title or wd.env.justify not in (None, "default", "left") or (getattr(wd, "in_history", False) and hasattr(o.get("title"), "plain")):
        # (… or a later render of a Rule that holds a Text title: the Rule has edited that Text in place — outside the statement)
        title_checks = False  # tabs are expanded / the line may be re-justified by the options: only the width is claimed
    else:
        title_checks = True
    chars = o.get("characters", "─")
    if wd.env.ascii_only and not chars.isascii():
        chars = "-"
    if cell_len(line) != mw:
        finding = None
        zw = len(title) - cell_len(title)  # zero-width characters of the title: Text.rstrip_end counts them as cells
        if zw > 0 and mw - zw <= cell_len(line) < mw:
            finding = "rule-rstrip-zero-width"
        return wd.fail("Rule", e, mw, f"rule is {cell_len(line)} cells wide, given {mw}: {line!r}", finding)
    # content: only the title (possibly truncated), blanks and `characters`
    if not title_checks:
        return wd.ok("Rule")
    if not title:
        n = len(line.rstrip(" "))
        if (chars * (mw + 1))[:n] != line[:n] and " " not in chars:
            return wd.fail("Rule", e, mw, f"{line!r} is not `characters` repeated")
    else:
        a = o.get("align", "center")
        room = mw - (4 if a == "center" else 2)
        shown = title if cell_len(title) <= room else None
        if shown is not None:
            if a == "left" and not line.startswith(shown + " "):
                return wd.fail("Rule", e, mw, f"{line!r} does not start with the title")
            if a == "right" and not line.endswith(" " + shown):
                finding = "rule-right-multicell-title-lost" if cell_len(chars) > 1 else None
                return wd.fail("Rule", e, mw, f"{line!r} does not end with the title {shown!r}", finding)
            if a == "center":
                i = line.find(" " + shown + " ")
                side = (mw - cell_len(shown)) // 2
                if i < 0 or cell_len(line[: i + 1]) != side:
                    return wd.fail("Rule", e, mw, f"{line!r}: title not centred (left part should be {side} cells)")
        else:
            wd.ctx.note("Rule:title-truncated")
    wd.ok("Rule")


def eff_width(width, mw):
    return min(width or mw, mw)


def check_bar(wd, e, mw, text):
    o = e[1]
    if (o.get("width") or 0) < 0:
        return wd.ctx.note("Bar:negative-width-option")
    w = eff_width(o.get("width"), mw)
    if not text.endswith("\n") or "\n" in text[:-1]:
        return wd.fail("Bar", e, mw, "not exactly one line")
    line = text[:-1]
    if cell_len(line) != w or set(line) - BAR_CHARS:
        return wd.fail("Bar", e, mw, f"bar {line!r} is {cell_len(line)} cells, width {w}")
    size, b, en = Fraction(o["size"]), max(Fraction(o["begin"]), 0), min(Fraction(o["end"]), Fraction(o["size"]))
    if b < en:
        full = [i for i, ch in enumerate(line) if ch == "█"]
        lo, hi = int(w * 8 * b / size), int(w * 8 * en / size)
        want_full = max(0, hi // 8 - (lo + 7) // 8)  # cells completely inside [begin, end)
        if len(full) < want_full:
            return wd.fail("Bar", e, mw, f"{len(full)} full blocks, at least {want_full} cells are completely covered")
    elif line.strip(" "):
        return wd.fail("Bar", e, mw, "empty range drawn non-blank")
    wd.ok("Bar")


def check_pbar(wd, e, mw, text):
    o = e[1]
    if (o.get("width") or 0) < 0:
        return wd.ctx.note("ProgressBar:negative-width-option")
    w = eff_width(o.get("width"), mw)
    n = cell_len(text)
    colour = (not wd.env.no_color) and wd.env.color_system is not None
    if "\n" in text:
        return wd.fail("ProgressBar", e, mw, "line feed inside a bar")
    if n > w:
        return wd.fail("ProgressBar", e, mw, f"bar of {n} cells exceeds its width {w}")
    if (colour or o.get("pulse")) and n != w:
        return wd.fail("ProgressBar", e, mw, f"bar of {n} cells does not fill its width {w} although colour is available")
    if not o.get("pulse"):
        total, comp = Fraction(o.get("total", 100)), Fraction(o.get("completed", 0))
        comp = min(total, max(0, comp))
        halves = int(w * 2 * comp / total) if total else w * 2
        ascii_ = wd.env.legacy_windows or wd.env.ascii_only
        bar = "-" if ascii_ else "━"
        lead = len(text) - len(text.lstrip(bar)) if not colour else None
        if not colour and lead != halves // 2:
            return wd.fail("ProgressBar", e, mw, f"{lead} completed cells drawn, expected {halves // 2}")
        if colour and not ascii_:
            done = text.split("╸")[0] if "╸" in text else text.split("╺")[0] if "╺" in text else None
            if done is not None and len(done) != halves // 2:
                return wd.fail("ProgressBar", e, mw, f"{len(done)} completed cells drawn, expected {halves // 2}")
    wd.ok("ProgressBar")


def visible(node, depth=0, last=True):
    label, _gs, expanded, children = node
    yield (label, depth, last)
    if expanded:
        for i, c in enumerate(children):
            yield from visible(c, depth + 1, i == len(children) - 1)


def check_tree(wd, e, mw, text):
    lines, term = split_out(text)
    if text and not term:
        return wd.fail("Tree", e, mw, "output does not end with a line feed")
    want = []
    for label, depth, last in visible(e[1]):
        own = wd.child_lines(label, mw - 4 * depth)
        for j, l in enumerate(own):
            want.append((depth, last, j == 0, fit(l, mw - 4 * depth)))
    if len(lines) != len(want):
        return wd.fail("Tree", e, mw, f"{len(lines)} lines, the visible nodes have {len(want)} label lines in all")
    for got, (depth, last, first, lab) in zip(lines, want):
        pre, rest = got[: 4 * depth], got[4 * depth :]
        if lab is None:
            wd.ctx.note("Tree:label-overflows-its-width")
            continue
        if cell_len(pre) != 4 * depth or set(pre) - GUIDE_CHARS or rest != lab:
            return wd.fail("Tree", e, mw, f"line {got!r}: expected a guide prefix of {4 * depth} cells then {lab!r}")
        if depth and first:
            g = pre[-4:]
            is_end = g[0] in "`└┗╚"
            is_fork = g[0] in "+├┣╠"
            if not (is_end if last else is_fork):
                return wd.fail("Tree", e, mw, f"line {got!r}: guide {g!r} of a {'last' if last else 'non-last'} child")
        if depth and not first and pre[-4:].strip(" ") not in ("", "|", "│", "┃", "║"):
            return wd.fail("Tree", e, mw, f"line {got!r}: continuation guide {pre[-4:]!r}")
        if cell_len(got) != mw:
            return wd.fail("Tree", e, mw, f"line {got!r} is not {mw} cells")
    wd.ok("Tree")


CHECKS = {"PAD": check_pad, "PANEL": check_panel, "ALIGN": check_align, "CONSTRAIN": check_constrain, "STYLED": check_styled,
          "RULE": check_rule, "RULET": check_rule, "BAR": check_bar, "PBAR": check_pbar, "TREE": check_tree, "VC": check_vc,
          "L": lambda wd, e, mw, text: None, "COLS": lambda wd, e, mw, text: None}


# ---------------------------------------------------------------------------------------------- Columns
def run_columns(ctx, env, rng, n_cases):
    from rich.align import Align
    from rich.columns import Columns
    from rich.constrain import Constrain
    from rich.measure import Measurement
    from rich.text import Text

    console = env.console()
    words = ["a", "bb", "ccc", "dddd", "あい", "e e", "", "ffffff"]
    for case in range(n_cases):
        n = rng.choice([0, 1, 2, 3, 4, 5, 6, 7, 8, 9, 11, 13]) if case >= 40 else case % 10
        plain = [f"{rng.choice(words)}#{i}" if rng.random() < 0.85 else rng.choice(words) for i in range(n)]
        items = [Text(s) for s in plain]
        pad = rng.choice([(0, 1), 0, 1, (0, 2), (0, 3, 0, 1), (1,), (0, 0, 0, 4)])
        width = rng.choice([None, None, None, 0, 1, 4, 6, 9, 30, -2])
        o = dict(padding=pad, width=width, equal=rng.random() < 0.3, column_first=rng.random() < 0.5, right_to_left=rng.random() < 0.4,
                 expand=rng.random() < 0.3, align=rng.choice([None, None, "left", "center", "right"]))
        for mw in sorted({1, 2, 3, 5, 8, rng.randint(4, env.width), env.width}):
            cols = Columns(items, **o)
            measured = [Measurement.get(console, it, mw).maximum for it in items]
            inp = (repr(env), o, plain, mw)
            grid = None
            try:
                out = list(cols.__rich_console__(console, console.options.update(width=mw)))
            except Exception as ex:
                ans = "err:" + type(ex).__name__
                d = unpack(pad)
                finding = None
                # F11: `max_width // (width + padding)` is 0 columns (then `item_count % 0`) or divides by zero itself
                if isinstance(ex, ZeroDivisionError) and width is not None and (width + max(d[1], d[3]) == 0 or mw // (width + max(d[1], d[3])) == 0):
                    finding = "columns-width-zero-division"
                ctx.check(False, "Columns", inp, f"{type(ex).__name__} escapes from rendering", finding=finding)
            else:
                if not out:
                    ans = "none"
                    ctx.check(n == 0, "Columns", inp, "nothing rendered for a non-empty Columns")
                else:
                    table = out[0]

                    def ident(c):
                        while isinstance(c, (Constrain, Align)):
                            c = c.renderable
                        for i, it in enumerate(items):
                            if it is c:
                                return i
                        assert c == "", c
                        return None

                    grid = [[ident(col._cells[r]) for col in table.columns] for r in range(len(table.rows))]
                    ans = str(len(table.columns)) + "|" + ";".join(",".join("-" if x is None else str(x) for x in r) for r in grid)
            d = [pad] if isinstance(pad, int) else list(pad)
            ctx.case("frames_columns", [VARIANT, f"{len(d)}:" + ",".join(map(str, d)), "-" if width is None else width, enc_bool(o["equal"]), enc_bool(o["column_first"]),
                                        enc_bool(o["right_to_left"]), ",".join(map(str, measured)), mw], ans,
                     shape=("err" if ans.startswith("err") else f"cf{int(o['column_first'])}rtl{int(o['right_to_left'])}"), sample=f"Columns({plain!r}, {o!r}) max_width={mw}")
            if grid is None:
                continue
            # the statement, on the grid rich handed to its table
            c = len(grid[0]) if grid else 0
            rows = [list(reversed(r)) for r in grid] if o["right_to_left"] else grid
            flat = [x for r in rows for x in r]
            seq = [x for x in flat if x is not None]
            ok = c > 0 and all(len(r) == c for r in grid) and sorted(seq) == list(range(n))
            ok = ok and all(x is None for x in flat[len(seq):]) and len(flat) - len(seq) < max(c, 1)
            if ok and not o["column_first"]:
                ok = seq == list(range(n))
            if ok and o["column_first"]:
                cols_ = [[r[j] for r in rows if r[j] is not None] for j in range(c)]
                ok = [x for col in cols_ for x in col] == list(range(n)) and all(len(cols_[j]) >= len(cols_[j + 1]) for j in range(c - 1))
            ctx.check(ok, "Columns:grid", inp, f"grid {grid!r} does not hold every item exactly once in the documented order")
            # ...and on the rendered text: every distinct item text appears exactly once, in grid order
            if width is None and all(p.count("#") == 1 for p in plain) and mw >= max(measured, default=0):
                text = "".join(s.text for s in console.render(cols, console.options.update(width=mw)))
                toks = [int(t) for t in re.findall(r"#(\d+)", text)]
                # row by row as drawn
                want = [x for r in grid for x in r if x is not None]
                single = all("\n" not in p and cell_len(p) <= m for p, m in zip(plain, measured))
                if single and len(grid) and all(cell_len(p) <= mw for p in plain):
                    ctx.check(sorted(toks) == list(range(n)), "Columns:text", inp, f"items drawn {toks!r}: not every item exactly once")
                    if sum(measured[i] for i in grid[0] if i is not None) + max(unpack(pad)[1], unpack(pad)[3]) * (c - 1) <= mw:
                        ctx.check(toks == want, "Columns:text", inp, f"items drawn in order {toks!r}, the grid says {want!r}")
    ctx.flush()


# ---------------------------------------------------------------------------------------------- generators
def leaf_objects():
    from rich.panel import Panel
    from rich.table import Table
    from rich.text import Text

    t = Table("A", "B")
    t.add_row("1", "22")
    return [
        Text(""), Text("a"), Text("hello world foo"), Text("ab\ncde"), Text("あいう え"), Text("à b"),
        Text("xy", justify="center"), Text("longwordhere z", overflow="ellipsis", no_wrap=True), Text("right", justify="right"),
        Text("\n"), Text("x\n\ny"), Panel("x"), "plain str", t, Text("tab\there"), Text("​zero"),
    ]


def rand_tree(rng, depth, nleaves, budget):
    k = rng.choice([0, 0, 1, 2, 3]) if depth < 3 and budget[0] > 0 else 0
    budget[0] -= k
    gs = rng.choice(["", "bold", "underline2", "not bold", "tree.line", "bold underline2", "not underline2", "red"])
    label = ("L", rng.randrange(nleaves))
    if rng.random() < 0.1:
        label = ("PANEL", {"expand": rng.random() < 0.5}, label)
    return (label, gs, rng.random() < 0.8, [rand_tree(rng, depth + 1, nleaves, budget) for _ in range(k)])


def rand_expr(rng, nleaves, depth, names):
    if depth == 0 or rng.random() < 0.25:
        return ("L", rng.randrange(nleaves))
    k = rng.choice(["PAD", "PAD", "PANEL", "PANEL", "ALIGN", "ALIGN", "CONSTRAIN", "STYLED", "TREE", "VC"])
    sub = rand_expr(rng, nleaves, depth - 1, names)
    if k == "PAD":
        return ("PAD", rng.choice([0, 1, 2, (1, 2), (0, 1, 2, 3), (2, 0, 0, 1), (3,), (0, 2, 0, 0), (1, 1, 0, 0), (0, 0, 2, 0)]), rng.random() < 0.5, sub, rng.choice(STYLES))
    if k == "PANEL":
        return ("PANEL", rand_panel_opts(rng, names), sub)
    if k == "ALIGN":
        return ("ALIGN", {"align": rng.choice(["left", "center", "right"]), "pad": rng.random() < 0.6, "width": rng.choice([None, None, 0, 3, 8, 40, -2]),
                          "style": rng.choice([None, None] + STYLES)}, sub)
    if k == "CONSTRAIN":
        return ("CONSTRAIN", rng.choice([None, 0, 1, 5, 12, 80, -3]), sub)
    if k == "STYLED":
        return ("STYLED", sub, rng.choice(STYLES))
    if k == "VC":
        return ("VC", rng.choice([None] + STYLES), sub)
    return ("TREE", (sub, rng.choice(["", "bold"]), True, [(("L", rng.randrange(nleaves)), "", True, []) for _ in range(rng.randint(0, 2))]))


TITLES = [None, "T", "hello title", "あ̀x", "two\nlines", " ", "a b", "[b]bo[/b]ld [i]it", "a\tb", "w\u3000s", "a very long title indeed", "x\x0by"]
SIMPLE_TITLES = {"T", "hello title", "あ̀x", "two\nlines", " ", "a b"}
STYLES = ["none", "bold", "on red", "italic blue on white", "not bold", "underline", "bold on red"]


def rand_panel_opts(rng, names):
    from rich.text import Text

    t = rng.choice(TITLES)
    mode = "S" if t in SIMPLE_TITLES and rng.random() < 0.4 else "T"
    if t is not None and rng.random() < 0.3:
        t = Text(t, justify=rng.choice([None, None, "right"]), overflow=rng.choice([None, "ellipsis"]), tab_size=rng.choice([8, 4]))
        mode = "T"
        if rng.random() < 0.5 and len(t) > 1:
            t.stylize("italic", 0, rng.randint(1, len(t)))
    return {"_tmode": mode, "box": rng.choice(names), "title": t, "title_align": rng.choice(["left", "center", "right"]), "expand": rng.random() < 0.5,
            "width": rng.choice([None, None, 0, 2, 5, 7, 12, 50, -1]), "padding": rng.choice([(0, 1), 0, 1, (1, 0, 2, 3), (0, 2), (2,)]),
            "safe_box": rng.choice([None, None, True, False]), "style": rng.choice(STYLES), "border_style": rng.choice(STYLES)}


def run_histories(wd, rng, names, nl, quick):
    """the same object rendered at several widths in turn: narrow -> wide, wide -> narrow, the same twice, a random walk"""
    from rich.text import Text

    W = wd.env.width
    seqs = [(3, W), (W, 3), (W, W), (5, W + 6, 8), (1, 2 * 20 + 3 if W + 8 >= 43 else W + 8, W)]
    seqs = [tuple(min(max(w, 1), W + 8) for w in sq) for sq in seqs]

    def L():
        return ("L", rng.randrange(nl))

    exprs = []
    for pulse in (True, False):
        for t in (0, Fraction(7, 4), Fraction(-33, 4), 100):
            for w_ in (None, 40):
                exprs.append(("PBAR", {"total": 10, "completed": rng.randint(0, 10), "width": w_, "pulse": pulse, "time": t}))
    exprs.append(("BAR", {"size": 10, "begin": 2, "end": 7, "width": None}))
    for title in ("", "title here", Text("a long title here"), Text("t\tab")):
        for al in ("left", "center", "right"):
            exprs.append(("RULET", {"title": title, "_title_plain": rule_title_plain(wd.console, title), "characters": rng.choice(["─", "あ", "ab"]),
                                    "align": al, "end": "\n", "style": "rule.line"}))
    for title in (None, "hello title", Text("a long title here"), Text("ti\ttle", justify="right")):
        for ex in (True, False):
            exprs.append(("PANEL", {"_tmode": "T", "title": title, "expand": ex, "title_align": rng.choice(["left", "center", "right"]),
                                    "box": rng.choice(names), "style": rng.choice(STYLES), "padding": rng.choice([0, (0, 1), (1, 2)])}, L()))
    exprs.append(("PANEL", {}, ("PBAR", {"total": 10, "completed": 3, "width": None, "pulse": True, "time": Fraction(7, 4)})))
    for ex in (True, False):
        exprs.append(("PAD", rng.choice([1, (0, 2), (1, 0, 0, 3), (0, 3, 0, 0), (2, 1, 0, 0)]), ex, L(), rng.choice(STYLES)))
    for al in ("left", "center", "right"):
        exprs.append(("ALIGN", {"align": al, "pad": rng.random() < 0.5, "width": rng.choice([None, 6]), "style": rng.choice([None] + STYLES)}, L()))
    exprs.append(("CONSTRAIN", rng.choice([None, 5, 12]), L()))
    exprs.append(("STYLED", L(), "bold"))
    exprs.append(("VC", None, L()))
    for _ in range(3):
        exprs.append(("TREE", rand_tree(rng, 0, nl, [rng.randint(2, 7)])))
        exprs.append(("COLS", dict(padding=rng.choice([(0, 1), 1]), width=rng.choice([None, None, 4]), equal=rng.random() < 0.3,
                                   column_first=rng.random() < 0.5, right_to_left=rng.random() < 0.4, expand=rng.random() < 0.3,
                                   align=rng.choice([None, "center"])), [L() for _ in range(rng.choice([2, 3, 5]))]))
    # frames without a tabulated child can be rendered at any width: long jumps (a cache sized by the first render shows only then)
    wide = [(3, 60), (10, 30, 80, 100), (60, 3), (25, 25), (1, 45, 7, 90)]
    leafless = lambda x: x[0] in ("PBAR", "BAR", "RULET", "RULE") or (x[0] == "PANEL" and x[2][0] == "PBAR")
    for e in exprs:
        if leafless(e):
            for sq in (wide if not quick or e[0] == "PBAR" else rng.sample(wide, 2)):
                wd.history(e, sq)
        for sq in (seqs if not quick else rng.sample(seqs, 2 if leafless(e) else 3)):
            wd.history(e, sq)


def run_text_titles(ctx, quick):
    """Direct evaluation of panel_text_title_top_border / rule_text_title_fills_width (deepening round 4) on real rich: Text
    titles with a span, a tab, a line feed, wide characters, longer than the panel, every own overflow method except
    "ignore" (the theorem's hypothesis; "ignore" is only counted), 3 alignments, widths 4..17; rules with the same titles
    and wide / multi-character `characters`."""
    import io
    from rich.cells import cell_len
    from rich.console import Console
    from rich.panel import Panel
    from rich.rule import Rule
    from rich.text import Text
    from rich import box as rbox
    titles = [("a", []), ("a\tbc", [(0, 3, "bold")]), ("\u3042\u3044 x\ny", [(1, 4, "red")]), ("a long title that is longer", [(2, 9, "italic")]),
              ("\u3042\u3042\u3042\u3042\u3042\u3042\u3042\u3042", []), (" sp ", [(0, 4, "underline")])]
    widths = (4, 5, 6, 7, 9, 12, 17) if quick else range(4, 40)
    for legacy, ascii_only in ((False, False), (True, False)):
        for w in widths:
            console = Console(file=io.StringIO(), width=w, color_system="truecolor", legacy_windows=legacy, force_terminal=True, _environ={})
            for plain, spans in titles:
                for ov in ((None, "crop", "ellipsis", "ignore") if quick else (None, "fold", "crop", "ellipsis", "ignore")):
                    for align in ("left", "center", "right"):
                        def mk():
                            t = Text(plain, overflow=ov, tab_size=ctx.rng.choice([8, 4, 1]), justify=ctx.rng.choice([None, "center", "right", "full"]))
                            for a, b, st in spans:
                                t.stylize(st, a, b)
                            return t
                        inp = (w, legacy, plain, spans, ov, align)
                        try:
                            segs = list(console.render(Panel("hi", title=mk(), title_align=align, box=ctx.rng.choice([rbox.ROUNDED, rbox.ASCII, rbox.HEAVY, rbox.DOUBLE])), console.options))
                            lines = "".join(s.text for s in segs if not s.is_control).split("\n")
                            if lines and lines[-1] == "":
                                lines.pop()
                            ws = [cell_len(l) for l in lines]
                            if ov == "ignore":
                                ctx.note("Panel:text-title:overflow-ignore:" + ("top-border-longer" if ws and ws[0] > max(ws[1:] or [0]) else "rectangle"))
                            else:
                                ctx.check(len(ws) >= 2 and len(set(ws)) == 1 and ws[0] == w, "Panel:text-title", inp,
                                          f"Panel with a Text title at width {w}: line widths {ws} (top border must be exactly the panel's width)")
                                ctx.note("Panel:text-title:ok")
                        except BaseException as e:  # an undocumented exception is a property failure
                            ctx.check(False, "Panel:text-title", inp, f"raised {type(e).__name__}: {e}")
                        for chars in (ctx.rng.sample(["\u2500", "-=", "\u3042", "\u3042-"], 1) if quick else ("\u2500", "-=", "\u3042", "\u3042-")):
                            try:
                                end = ctx.rng.choice(["\n", ""])
                                segs = list(console.render(Rule(mk(), characters=chars, align=align, end=end), console.options))
                                text = "".join(s.text for s in segs if not s.is_control)
                                body = text[:len(text) - len(end)] if end else text
                                exp_chars = "-" if (console.options.ascii_only and not chars.isascii()) else chars
                                ctx.check(text.endswith(end) and "\n" not in body and cell_len(body) == w, "Rule:text-title", inp + (chars, end),
                                          f"Rule with a Text title and characters {exp_chars!r} at width {w}: {text!r} is {cell_len(body)} cells")
                                ctx.note("Rule:text-title:ok")
                            except BaseException as e:
                                ctx.check(False, "Rule:text-title", inp + (chars,), f"raised {type(e).__name__}: {e}")


def run(ctx):
    from gen import boxes as genboxes
    from core import REPO
    from rich.padding import Padding

    rng = ctx.rng
    names = box_names()
    boxes = genboxes.parse(REPO)
    ctx.assumptions += [
        "children are oracles: Measurement.get / console.render of each child are tabulated on real rich for every width (under the ConsoleOptions "
        "in force: the environment's justify / overflow / no_wrap, and a second time under the options of a default table Column for the items of Columns) "
        "and shipped with the request; the frames are pure functions of options + oracles (an out-of-range lookup answers `unmodelled`)",
        "styles: Padding / Panel / Align / Styled / VerticalCenter / Rule (Text model) are compared segment style by segment style (the five compared fields of "
        "Style; colours and links as ids; `Style.__add__` restated on those fields in the driver — C06 proves the real thing); Bar, ProgressBar, Tree and the "
        "inner table of Columns are compared as text (their own styles are not modelled), as is everything that contains them",
        "Panel titles and Rule texts are values of C05's Text model wrapped by C02's Wrap model (spans, tabs, any whitespace, wider than the console, "
        "options.justify); the plain-text model of the first round (`_tmode S`, `RULE`) is still compared on its one-line simple domain",
        "floats of Bar / ProgressBar are exact rationals; generated numbers are ints or dyadic fractions, on which int(a*b/c) is exact in binary64",
        "Columns is rendered through the composition layer (Model/Layout.lean, C01) and the table model (Model/Table.lean, C07), read-only: a change there can "
        "break this check's build; negative Panel / Align / Constrain / Bar / ProgressBar / Columns widths are modelled as the code computes (Python ints and slices)",
    ]

    # ---- Padding.unpack
    for pad in [0, 3, (), (1,), (1, 2), (1, 2, 3), (1, 2, 3, 4), (1, 2, 3, 4, 5), [7, 0]]:
        try:
            got = ",".join(map(str, Padding.unpack(pad)))
        except ValueError:
            got = "err:ValueError"
        d = [pad] if isinstance(pad, int) else list(pad)
        ctx.case("frames_unpack", [len(d), ",".join(map(str, d))], got, sample=f"Padding.unpack({pad!r})")
        if not got.startswith("err"):
            ctx.check(tuple(map(int, got.split(","))) == unpack(pad), "Padding.unpack", pad, "not the CSS order top,right,bottom,left")
    ctx.flush()

    quick = ctx.quick
    envs = [Env(12), Env(16, ascii_only=True), Env(14, legacy_windows=True, color_system="truecolor", height=3), Env(10, no_color=True, color_system="standard", justify="center"),
            Env(13, color_system="windows", safe_box=False, legacy_windows=True, justify="right", overflow="ellipsis", height=0), Env(20, color_system="256", no_wrap=True, justify="full")]
    if not quick:
        envs += [Env(33), Env(60, color_system="truecolor"), Env(80, ascii_only=True, legacy_windows=True), Env(200), Env(47, no_color=True),
                 Env(25, color_system="standard", safe_box=False)]
    objs = leaf_objects()
    nl = len(objs)
    for ei, env in enumerate(envs):
        extra = 8  # options wider than the console are legal (`console.render(x, options)`): some of every frame
        wd = World(ctx, env, objs, env.width + extra, names, boxes)
        widths = (list(range(0, env.width + 4)) + [env.width + 6, env.width + 8]) if env.width <= 24 else sorted({0, 1, 2, 3, 4, 5, 6, 7, 9, 12, 17, env.width - 1, env.width, env.width + 2} | {rng.randint(1, env.width) for _ in range(8)})
        exprs = []
        # bounded-exhaustive core: every leaf under every option class of every frame
        leaf_ids = (range(nl) if ei < 1 else rng.sample(range(nl), 8 if ei < 2 else 4)) if quick else range(nl)
        for i in leaf_ids:
            L = ("L", i)
            # (0, 3, 0, 0) / (1, 2, 1, 0): left == 0 with right > 0 (a right-pad guard testing `self.left` was missed before round 6); each side zero / non-zero alone
            for pad in [0, 1, (1, 2), (0, 1, 2, 3), (2, 0, 1, 0), (0, 0, 0, 2), (0, 3, 0, 0), (1, 2, 1, 0)]:
                for ex in (True, False):
                    exprs.append(("PAD", pad, ex, L, rng.choice(STYLES)))
            for al in ("left", "center", "right"):
                for pd in (True, False):
                    for w_ in ((None, 0, 3, 8, -2) if not quick else (None, rng.choice([0, 3, 8, -2]))):
                        exprs.append(("ALIGN", {"align": al, "pad": pd, "width": w_, "style": rng.choice([None] + STYLES)}, L))
            for w_ in (None, 0, 5, 30, -3):
                exprs.append(("CONSTRAIN", w_, L))
            exprs.append(("STYLED", L, rng.choice(STYLES)))
            exprs.append(("VC", rng.choice([None] + STYLES), L))
            exprs.append(("PANEL", {"style": "on red", "border_style": "bold", "padding": 0}, L))
            for _ in range(9 if quick else 36):
                exprs.append(("PANEL", rand_panel_opts(rng, names), L))
            exprs.append(("PANEL", {"expand": False, "padding": 0}, L))
            exprs.append(("PANEL", {"expand": False, "title": "ab"}, L))
            exprs.append(("PANEL", {}, ("PAD", 1, False, L)))
            exprs.append(("ALIGN", {"align": "center"}, ("PANEL", {"expand": False, "title": "ab"}, L)))
        for _ in range(40 if quick else 300):
            exprs.append(rand_expr(rng, nl, 3, names))
        for _ in range(25 if quick else 200):
            exprs.append(("TREE", rand_tree(rng, 0, nl, [rng.randint(0, 9)])))
        # Columns rendered to the characters (the inner Table.grid is C07's model, the glue C01's): items are leaves / small frames
        for _ in range(25 if quick else 200):
            items = [("L", rng.randrange(nl)) if rng.random() < 0.85 else ("PAD", 1, False, ("L", rng.randrange(nl)), "none") for _ in range(rng.choice([0, 1, 2, 3, 4, 5, 7]))]
            exprs.append(("COLS", dict(padding=rng.choice([(0, 1), 0, 1, (0, 2), (1, 0, 0, 3)]), width=rng.choice([None, None, None, 0, 3, 6, 30]),
                                       equal=rng.random() < 0.3, column_first=rng.random() < 0.5, right_to_left=rng.random() < 0.4,
                                       expand=rng.random() < 0.3, align=rng.choice([None, None, "left", "center", "right"])), items))
        # rules
        from rich.text import Text

        rules = []
        for title in ["", "t", "title here", "あい", "à ", " lead", "a\nb", Text("tx"), Text("à̀ ")]:
            for ch in ["─", "-", "あ", "ab", "=あ", "- ", "━─"]:
                for al in ("left", "center", "right"):
                    if quick and rng.random() < 0.65:
                        continue
                    o_ = {"title": title, "_title_plain": rule_title_plain(wd.console, title), "characters": ch, "align": al,
                          "end": rng.choice(["\n", "\n", "", "\n\n"])}
                    if env.justify is None and rng.random() < 0.4:  # the plain-text model of the first round (default justify only)
                        rules.append(("RULE", o_))
                    else:
                        rules.append(("RULET", dict(o_, style=rng.choice(["rule.line", "rule.line", "bold red"]))))
        for title in ["[b]bo[/b]ld [i]it", "a\tb", "w\u3000s", "a very long title indeed", Text("sp an", spans=[]), Text("tab\tx", tab_size=4)]:
            if isinstance(title, Text) and title.plain == "sp an":
                title.stylize("bold", 1, 4)
            for al in ("left", "center", "right"):
                rules.append(("RULET", {"title": title, "_title_plain": rule_title_plain(wd.console, title), "characters": rng.choice(["─", "あ", "ab"]),
                                        "align": al, "end": "\n", "style": "rule.line"}))
        exprs += rules
        bars = []
        for size, bg, en in [(100, 0, 50), (100, 20, 20), (10, 3, 7), (7, 1, 6), (1, Fraction(1, 4), Fraction(3, 4)), (0, 0, 0), (100, -5, 200), (3, 0, 3),
                             (8, Fraction(1, 8), Fraction(9, 8)), (5, 4, 2)] + [(rng.randint(1, 40), rng.randint(-3, 40), rng.randint(-3, 45)) for _ in range(6 if quick else 60)]:
            for w_ in ((None, 0, 5, 40, -3) if not quick else (None, rng.choice([0, 5, 40, -3]))):
                bars.append(("BAR", {"size": size, "begin": bg, "end": en, "width": w_}))
        for tot, comp in [(100, 0), (100, 50), (100, 100), (100, 150), (3, 1), (7, -2), (0, 0), (8, Fraction(5, 2)), (-4, 2), (1, Fraction(1, 2))] + [
                (rng.randint(1, 50), rng.randint(-2, 55)) for _ in range(6 if quick else 60)]:
            for w_ in ((None, 0, 5, 40, -3) if not quick else (None, rng.choice([0, 5, 40, -3]))):
                for pulse in (False, True):
                    bars.append(("PBAR", {"total": tot, "completed": comp, "width": w_, "pulse": pulse, "time": Fraction(rng.randint(-40, 400), 4)}))
        exprs += bars
        ctx.note(f"env:{env!r}")
        for e in exprs:
            ws = widths if (quick and len(widths) <= 20) or e[0] in ("RULE",) else (widths if not quick and env.width <= 24 else rng.sample(widths, min(len(widths), 9)))
            for mw in ws:
                try:
                    wd.query(e, mw, measure=(mw % 4 == 1))
                except Exception as ex:  # the oracle itself must not hide a crash of rich
                    ctx.check(False, "harness-oracle:" + e[0], (repr(env), e, mw), f"{type(ex).__name__}: {ex}")
        wd.batch.flush()
        run_histories(wd, rng, names, nl, quick)
        # F23: a bar does not end its line, so whatever follows continues on it
        from rich.console import RenderGroup
        from rich.progress_bar import ProgressBar

        g = RenderGroup(ProgressBar(width=5, completed=50), Text("ccc dd"))
        t = "".join(s.text for s in wd.console.render(g, wd.console.options.update(width=9)))
        bar_alone = "".join(s.text for s in wd.console.render(ProgressBar(width=5, completed=50), wd.console.options.update(width=9)))
        first = t.split("\n")[0]
        # narrow classifier: the bar alone fits its width and has no line feed, and the over-wide line is exactly that bar
        # continued by the text of the group's next renderable
        narrow = "\n" not in bar_alone and cell_len(bar_alone) <= 5 and first == bar_alone + "ccc dd"
        ctx.check(cell_len(first) <= 9, "RenderGroup(ProgressBar, Text)", (repr(env), "RenderGroup(ProgressBar(width=5, completed=50), Text('ccc dd'))", 9),
                  f"the line holding the bar is {cell_len(first)} cells wide in a width of 9: {first!r}",
                  finding="progressbar-no-newline" if narrow else None)
        run_columns(ctx, env, rng, 45 if quick else 450)
    run_text_titles(ctx, quick)
    lib_frames_bars.run_bars(ctx, quick)      # styled Bar / ProgressBar (flushes itself)
    ctx.rule = (
        "per console environment (%d of them: widths %s, ascii_only / legacy_windows / no_color / colour systems / safe_box): every one of %d leaf children "
        "(empty, one word, wrapping, multi-line, wide, zero-width, centred, right, no_wrap+ellipsis, blank lines, Panel, str, Table, tab; quick tier: all of them "
        "in the first environment, a sample of 8 / 4 in the others) under every option class "
        "of Padding / Align / Constrain / Styled / VerticalCenter (with styles), seeded random Panel options (all 19 boxes, 11 titles of which 6 in the one-line simple "
        "domain, some as Text with spans / justify / overflow / tab_size, 3 alignments, expand, width, padding, safe_box, style, border_style), "
        "random nested frames to depth 3, random trees, Columns of leaves rendered to the characters, rules (9 titles x 7 `characters` x 3 alignments x `end`, "
        "plus 6 markup / tab / span titles), bars and progress bars (grid + random ints / dyadic), "
        "each at every available width 0..console+3, +6, +8 (or a sample when wide); Columns grid: item counts 0..13 x options x widths. "
        "distinct = distinct (environment, leaves, query) requests" % (len(envs), [e.width for e in envs], nl)
    ) + " | Text titles (direct evaluation only): 6 titles x 5 overflow methods x 3 alignments x widths 4..17 (7 of them; 4..39 thorough; fold only thorough) x 2 consoles, Panel + Rule with 1 of 4 `characters` (all 4 in the thorough tier) | " + lib_frames_bars.BARS_RULE


def replay(ctx, case):
    print("site:", case.get("site"))
    print("input:", case.get("input"))
    print("what:", case.get("what"))
    print("re-run `./check C08` to re-evaluate (the generators are seeded: VERIF_SEED=%s)" % case.get("seed"))
    return False


MANIFEST = {
    "text": "Lean 4 theorems (Props/C08.lean; every child is an arbitrary oracle, no bound on sizes, widths, tree shape or item count): "
    "padding_rect / panel_rect / align_rect (what Segment.split_lines makes of the frame's output is exactly: border or blank lines, then the child's own "
    "rendered lines unchanged and in order between exactly the requested border / padding cells, all lines of one exact width, the full width when expanding), "
    "for all 19 boxes of rich/box.py re-translated on every run with the side condition `every border character is one cell and no line feed` re-proved by "
    "decide +kernel; the STYLED layer: padding_style, panel_border_style, panel_content_pad_style, align_style, vertical_center_lines (every cell a frame adds "
    "carries the requested style, every child cell style + its own, for an arbitrary style algebra); rule_exact / rule_exact_repaired (exactly w cells for every "
    "title / multi-cell `characters`), rule_right_shows_title, rule_no_title_end; bar_exact, bar_begin_end_spec (which cells are blank / partial / full as a function "
    "of begin, end, size), progress_bar_le_and_exact, progress_pulse_exact_width over exact rationals; columns_each_once_in_order (grid handed to the inner table: "
    "every item exactly once, row-first / column-first closed form / right-to-left, blanks only at the end of the last row), columns_rendered_cells (the rendered "
    "grid table's cell (r, j) IS that item's oracle), columns_repaired_never_raises; tree_walk_is_depth_first (the explicit stack machine of Tree.__rich_console__, "
    "with termination, equals the depth-first reference walk), tree_prefix_four_cells_per_level, tree_rect; panel_title_own_width. "
    "Deepening round 4 (61 theorems in all): rule_text_title_fills_width (Rule.__rich_console__ on real Text values through C05's Text / C02's Wrap models: ANY title text - spans, "
    "tabs, line feeds, wide characters, longer than the rule -, any `characters` without line feed / tab / stripped control code, any alignment / end / justify / overflow / no_wrap "
    "in force, any width >= 1: nothing raises, ONE line of exactly w cells + end), panel_text_title_own_width and panel_text_title_top_border (any consistent Text title whose own "
    "overflow is not \"ignore\": Panel._title succeeds and the top border is exactly the panel's width); progress_bar_styled_split (ProgressBar, no pulse: every cell with its style "
    "id - complete / finished / background -, half-bar arithmetic, total = 0, completed beyond the total or negative, width option or not; exactly `width` cells with colour, never more "
    "without), progress_bar_styled_erases_to_text, progress_bar_finished_is_full, bar_styled_shape, bar_styled_erases_to_text. "
    "Witnesses (old_…) for every defect found: zero-width child (F25), rule right / rstrip, Columns zero division (F11), panel content pad unstyled, panel title at "
    "console width, rule without title ignoring `end`. "
    "Tie: ~67k (quick) / ~800k (thorough) generated (environment, options, child, frame options, width) cases per run compared between the Lean model and real rich — "
    "styled frames segment style by segment style, Panel titles and Rule texts through C05's Text and C02's Wrap models, Columns to the characters through C01's "
    "composition layer and C07's table model — with the children tabulated on real rich, plus the theorems' statements evaluated on rich's own output by an independent oracle.",
    "note": "Trusted: Lean kernel; axioms propext/Classical.choice/Quot.sound; translators harness/tables.py + harness/gen/boxes.py; the correspondence harness. "
    "Partial: styles of Tree guides / the inner table of Columns are not modelled (text only); Bar / ProgressBar styles are modelled as style IDS (complete / finished / back / own / line) "
    "in Model/FramesBarsStyled.lean and compared with rich segment by segment (frames_pbar_styled ~21.5k, frames_bar_styled 5k cases per quick run); the ProgressBar PULSE path is excluded "
    "there (it reads monotonic() and blends colours with cos(): answers `unmodelled`, never requested), its width stays with progress_pulse_exact_width; Style.__add__ is restated on the five compared fields "
    "in the driver (C06 owns the proof about the real class); Bar / ProgressBar floats are exact rationals (generated inputs are ints / dyadic); "
    "Panel `highlight`, Tree `highlight`, `Text.render` raising on inconsistent spans (answers `unmodelled`). "
    "Panel titles / Rule texts as Text objects (Model/FramesTitle.lean) are compared with rich AND have theorems since round 4 (above); their hypotheses: the title is a consistent Text "
    "(Text.Inv) with a positive tab_size, repaired code (WVariant.repaired); for Panel additionally the title's own overflow is not \"ignore\" - Text.align truncates with the text's OWN "
    "overflow method, so Panel(title=Text(long, overflow=\"ignore\")) has a top border as long as the title (observed on real rich and only COUNTED: "
    "Panel:text-title:overflow-ignore:top-border-longer; C01 / C02 treat overflow \"ignore\" as overflow by request in the same way); the theorems are about the title part / one rule, "
    "panel_border_style still takes the title as an arbitrary oracle (no NlFreeO proof for textTitleO at widths other than the aligned one). Columns: columns_rendered_cells is not composed "
    "with C07's table theorems into one statement (round-4 target 3, not done). "
    "Code variant flags, all 0 = repaired, the code in /repo now: ZERO_WIDTH_CHILD = 0 (fix a9def3a), RULE_RIGHT_REPEAT = 0 (fix 8879061), "
    "RSTRIP_COUNTS_CHARS = 0 (fix f5f2be9), COLUMNS_ZERO_COUNT = 0 (fix f7ecf83), LINES_PAD_UNSTYLED = 0 (fix 63e086e; finding panel-content-pad-unstyled), "
    "TITLE_AT_CONSOLE_WIDTH = 0 (fix 0e1edf7; findings panel-title-at-console-width and panel-title-ellipsis-in-zero-cells), "
    "RULE_NO_TITLE_END = 0 (fix a442cbd; finding rule-no-title-ignores-end). "
    "Known finding, reported as KNOWN-FINDING lines (not a violation): progressbar-no-newline (F23; a ProgressBar emits no line end, pinned by tests/test_bar.py, not repaired). "
    "Documented non-claim: a Rule given a Text title edits that Text in place (line feeds replaced, tabs expanded, truncated to the width), so a later, "
    "wider render of the same Rule shows the truncated title; every render still fills its width exactly, which is all the statement asks "
    "(re-render histories judge the statement's clauses on every render; `differs from a fresh object` is only counted: rerender-differs-from-fresh:*; "
    "pending_fixes/C08-rule-title-copy.NOT-APPLIED-outside-statement.diff).",
    "design_ref": "DESIGN.md section 7 (C01, C07, C08, C09 block) and section 8 (F11, F23, F25)",
}
