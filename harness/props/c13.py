"""C13 — cell-width arithmetic and line shaping are exact and history-independent.

Correspondence: Lean model (Model/Cells, Model/Segment) vs rich.cells / rich.segment, in-process.
Direct evaluation (3d): the executable statements of the theorems in Props/C13.lean on the real outputs.
"""
import itertools

from core import enc_bool, enc_opt, enc_str, enc_str_list

PROPERTY = "C13"

ALPHA = ["a", " ", "あ", "̀", "😽"]

# flags telling the model which variant of the code it is compared with (see Model/Segment.lean).
# 0/0 = the repaired code (fix: commits recorded in known_findings.txt).
REBIND = 0
MERGE_CTL = 0


def _styles():
    from rich.style import Style

    s1 = Style(bold=True)
    s2 = Style(color="red")
    return [None, s1, s2, Style.parse("bold")]  # the 4th equals the 2nd but is another object


class Enc:
    def __init__(self):
        self.styles = _styles()
        self.reps = []  # representative style per id

    def sid(self, st):
        if st is None:
            return None
        for i, r in enumerate(self.reps):
            if r == st:
                return i + 1
        self.reps.append(st)
        return len(self.reps)

    def seg(self, s):
        return f"{enc_str(s.text)};{enc_opt(self.sid(s.style))};{enc_bool(s.is_control)}"

    def line(self, l):
        return "|".join(self.seg(s) for s in l)

    def lines(self, ls):
        ls = list(ls)
        return f"{len(ls)}#" + "/".join(self.line(l) for l in ls)


def stream(line):
    return [(c, s.style, bool(s.is_control)) for s in line for c in s.text]


def all_strings(alpha, maxlen):
    for n in range(maxlen + 1):
        for t in itertools.product(alpha, repeat=n):
            yield "".join(t)


def run(ctx):
    import rich.cells as cells
    from rich._cell_widths import CELL_WIDTHS
    from rich._lru_cache import LRUCache
    from rich.segment import Segment

    rng = ctx.rng
    ctx.assumptions += [
        "styles are opaque to the segment model: compared by == and represented by ids",
        "str is a sequence of code points (lone surrogates are compared through the raw code-point path only)",
    ]

    # ---- 1. every code point: binary search == first-match linear scan of the table (exhaustive)
    ref = [1] * 0x110000
    for s, e, w in reversed(CELL_WIDTHS):  # first row containing cp wins -> paint in reverse
        for cp in range(max(s, 0), min(e, 0x10FFFF) + 1):
            ref[cp] = 0 if w == -1 else w
    for cp in range(32, 127):
        ref[cp] = 1  # the documented ASCII shortcut
    gcs = cells.get_character_cell_size
    bad = None
    for cp in range(0x110000):
        got = gcs(chr(cp))
        if got != ref[cp] and bad is None:
            bad = (cp, got, ref[cp])
        if 0xD800 <= cp <= 0xDFFF:
            ctx.case("cwraw", [cp], cells._get_codepoint_cell_size.__wrapped__(cp))
        else:
            ctx.case("cw", [cp], got, sample=f"get_character_cell_size(U+{cp:04X})" if cp % 65521 == 0 else None)
    ctx.check(bad is None, "get_character_cell_size", bad, "binary search differs from first-match linear scan of CELL_WIDTHS (cp, got, table)")
    ctx.check(all(v in (0, 1, 2) for v in ref), "CELL_WIDTHS", None, "a table width outside {0,1,2}")
    ctx.exhaustive = True
    ctx.flush()

    # ---- 2. cell_len: history independence under small caches (evictions) and the real one
    n_hist = 300 if ctx.quick else 6000
    pool = [s for s in all_strings(ALPHA, 3)] + ["x" * 64, "あ" * 64, "y" * 65, "😽" * 70]
    # long (uncached, > 64 characters) and boundary-length strings of every width class, incl. ASCII control
    # characters (width 0 in the table) inside otherwise plain ASCII text
    for n in (63, 64, 65, 66, 80, 200):
        pool += ["a" * (n - 2) + "\t" + "b", "\x1b" + "z" * (n - 1), "k" * (n - 1) + "\x7f", "q" * (n - 3) + "\x00\x1f ",
                 "a" * (n - 1) + "̀", "あ" * (n // 2) + "x" * (n - n // 2), " " * n]
    # extensions: a string measured after a neighbour of it (the same text plus / minus leading or trailing characters
    # that are not one cell wide: U+3000 is 2 cells; tab, LF, CR, U+001C-U+001F, U+0085, combining marks are 0), so a
    # cache that confuses a string with its stripped / trimmed form is seen (seeded change C13-f2)
    ext = ["\u3000", "\t", "\n", "\r", "\x1c", "\x1f", "\x85", " ", "\u3000 ", " \u3000", "\u200b", "̀", "\x0b\x0c"]
    for _ in range(n_hist):
        cap = rng.choice([1, 2, 3, 4, 8])
        calls = [rng.choice(pool) for _ in range(rng.randint(1, 14))]
        for i in range(1, len(calls)):
            if rng.random() < 0.3:
                base, e = calls[rng.randrange(i)], rng.choice(ext)
                calls[i] = rng.choice([base + e, e + base, base + e + e, base.rstrip(), base.strip(), base[:-1], base[1:]])
        cache = LRUCache(cap)
        got = [cells.cell_len(c, cache) for c in calls]
        want = [sum(ref[ord(ch)] for ch in c) for c in calls]
        ctx.check(got == want, "cell_len(cache)", (cap, calls), f"cached results {got} differ from the sum of character widths {want}")
        ctx.check(len(cache) <= cap, "LRUCache", (cap, calls), "cache grew beyond its capacity")
        ctx.case("cache_hist", [cap, enc_str_list(calls)], " ".join(map(str, got)), shape=f"cap{cap}", sample=f"cell_len history cap={cap} {calls!r}")
    for s in pool:  # the real, shared cache, whatever is in it by now
        ctx.check(cells.cell_len(s) == sum(ref[ord(ch)] for ch in s), "cell_len", s, "cell_len differs from the sum of character widths")
        ctx.case("cell_len", [enc_str(s)], cells.cell_len(s))
    for base in ["名前", "ab", "あ", "x y", "", "à"]:  # the real cache again: a text, then the text with non-one-cell whitespace around it
        for e in ext:
            for t in (base, base + e, e + base, base + e + e):
                ctx.check(cells.cell_len(t) == sum(ref[ord(ch)] for ch in t), "cell_len", (base, t), "cell_len (shared cache, after measuring a neighbouring string) differs from the sum of character widths")
                ctx.case("cell_len", [enc_str(t)], cells.cell_len(t))

    # ---- 3. set_cell_size / chop_cells
    maxlen = 5 if ctx.quick else 7
    strings = list(all_strings(ALPHA, maxlen))
    if not ctx.quick:
        for _ in range(3000):
            strings.append("".join(rng.choice(ALPHA + ["b", "、", "​"]) for _ in range(rng.randint(8, 80))))
    for s in strings:
        clen = sum(ref[ord(ch)] for ch in s)
        totals = range(0, 13) if len(s) <= maxlen else sorted({0, 1, clen, max(clen - 1, 0), clen + 1, rng.randint(0, 100), rng.randint(0, 100)})
        for total in totals:
            got = cells.set_cell_size(s, total)
            k = len(got.rstrip(" "))
            ok = sum(ref[ord(ch)] for ch in got) == total
            # prefix of the original followed by spaces
            okp = any(got == s[:j] + " " * (len(got) - j) for j in range(min(len(got), len(s)), -1, -1) if got[:j] == s[:j])
            ctx.check(ok and okp, "set_cell_size", (s, total), f"result {got!r} is not exactly {total} cells made of a prefix plus spaces")
            ctx.case("set_cell_size", [enc_str(s), total], enc_str(got), shape=("crop" if clen > total else "pad" if clen < total else "same"), sample=f"set_cell_size({s!r},{total})")
        widths = range(1, 7) if len(s) <= maxlen else [2, 3, rng.randint(2, 100)]
        for m in widths:
            for p in (range(0, m + 1) if len(s) <= 4 else [0, rng.randint(0, m)]):
                got = cells.chop_cells(s, m, position=p)
                ok = "".join(got) == s
                if m >= 2:
                    ok = ok and all(sum(ref[ord(ch)] for ch in q) <= m for q in got)
                    ok = ok and (p + sum(ref[ord(ch)] for ch in got[0]) <= m or got[0] == "")
                ctx.check(ok, "chop_cells", (s, m, p), f"pieces {got!r} do not concatenate to the input or do not fit")
                ctx.case("chop_cells", [enc_str(s), m, p], enc_str_list(got), shape=f"pieces{min(len(got), 4)}", sample=f"chop_cells({s!r},{m},{p})")
    ctx.flush()

    # ---- 4. segment line shaping
    enc = Enc()
    styles = enc.styles
    texts = ["", "a", "ab", "あ", "aあ", "\n", "a\n", "\nb", "a\nb", "あ\n\n", "̀", " ", "a\nb\nc", "😽x"]
    # the other characters str.splitlines() breaks on: only "\n" ends a line for rich (seeded change C13-f3)
    texts += ["a\rb\nc", "\r\n", "x\x0b\n", "\x0c", "a\x1cb\nc", "\x1d\x1e\n", "\x85\n", "a\u2028b\n", "\u2029", "\n\r"]

    def rand_seg():
        ctl = rng.random() < 0.15
        return Segment(rng.choice(texts), rng.choice(styles), ctl)

    n_seg = 12000 if ctx.quick else 250000
    for i in range(n_seg):
        segs = [rand_seg() for _ in range(rng.randint(0, 4))]
        length = rng.randint(0, 8)
        pad = rng.random() < 0.7
        st = rng.choice(styles)
        sid = enc.sid(st)
        eline = enc.line(segs)

        # split_lines
        got = [list(l) for l in Segment.split_lines(list(segs))]
        flat = [x for l in got for x in stream(l)]
        want = [x for x in stream(segs) if x[2] or x[0] != "\n"]
        ctx.check(flat == want, "split_lines", segs, "characters/styles changed by split_lines")
        ctx.case("split_lines", [eline], enc.lines(got), shape=f"lines{min(len(got), 4)}", sample=f"split_lines({segs!r})")

        # adjust_line_length on a newline-free line
        line = [s for s in segs if "\n" not in s.text or s.is_control]
        got = Segment.adjust_line_length(list(line), length, style=st, pad=pad)
        ll = sum(s.cell_length for s in line)
        gl = sum(s.cell_length for s in got)
        if pad or ll >= length:
            ctx.check(gl == length, "adjust_line_length", (line, length, pad), f"line has {gl} cells, wanted {length}")
        gs, ls = stream(got), stream(line)
        if ll <= length:
            exp = ls + ([(" ", st, False)] * (length - ll) if pad else [])
            ctx.check(gs == exp, "adjust_line_length", (line, length, st, pad), "padding does not keep the line and append spaces in the requested style")
        else:
            k = 0
            while k < len(gs) and k < len(ls) and gs[k] == ls[k]:
                k += 1
            ctx.check(all(x[0] == " " and not x[2] for x in gs[k:]), "adjust_line_length", (line, length), "cropping changed characters or styles")
        ctx.case("adjust", [enc.line(line), length, enc_opt(sid), enc_bool(pad)], enc.line(got), shape=("crop" if ll > length else "pad" if ll < length else "same"), sample=f"adjust_line_length({line!r},{length},pad={pad})")

        # split_and_crop_lines
        nl = rng.random() < 0.5
        got = [list(l) for l in Segment.split_and_crop_lines(list(segs), length, style=st, pad=pad, include_new_lines=nl)]
        ref_lines = [list(l) for l in Segment.split_lines(list(segs))]
        ok = len(got) == len(ref_lines)
        why = "number of lines differs from split_lines"
        finding = None
        if ok:
            for g, r in zip(got, ref_lines):
                if nl and g and g[-1].text == "\n" and not g[-1].is_control:
                    g = g[:-1]
                rl = sum(s.cell_length for s in r)
                glen = sum(s.cell_length for s in g)
                if pad or rl >= length:
                    if glen != length:
                        ok, why = False, f"a line has {glen} cells, wanted {length}"
                        break
                if rl <= length:
                    exp = stream(r) + ([(" ", st, False)] * (length - rl) if pad else [])
                    if stream(g) != exp:
                        ok, why = False, "padding does not carry the requested style / line content changed"
                        padding = stream(g)[len(stream(r)):]
                        if stream(g)[: len(stream(r))] == stream(r) and padding and all(x[0] == " " for x in padding):
                            finding = "splitcrop-pad-style-rebound"
                        break
        ctx.check(ok, "split_and_crop_lines", (segs, length, st, pad, nl), why, finding=finding)
        ctx.case("split_crop", [eline, length, enc_opt(sid), enc_bool(pad), enc_bool(nl), REBIND], enc.lines(got), shape=f"lines{min(len(got), 4)}", sample=f"split_and_crop_lines({segs!r},{length},style={st!r},pad={pad},nl={nl})")

        # set_shape on the split lines
        h = rng.choice([None, 0, 1, 2, 3, 5])
        got = Segment.set_shape([list(l) for l in ref_lines], length, h, style=st)
        ok = all(sum(s.cell_length for s in l) == length for l in got) and len(got) == max(len(ref_lines), len(ref_lines) if h is None else h)
        ctx.check(ok, "set_shape", (ref_lines, length, h), "not a rectangle of the requested width / wrong number of lines")
        ctx.case("set_shape", [enc.lines(ref_lines), length, enc_opt(h), enc_opt(sid)], enc.lines(got), shape=f"h{h}")

        # simplify
        got = list(Segment.simplify(list(segs)))
        same = stream(got) == stream(segs)
        finding = None
        if not same and [x[:2] for x in stream(got)] == [x[:2] for x in stream(segs)]:
            finding = "simplify-merges-control"
        ctx.check(same, "simplify", segs, "simplify changed the (character, style, control) stream", finding=finding)
        ctx.case("simplify", [eline, MERGE_CTL], enc.line(got), shape=f"n{len(segs)}", sample=f"simplify({segs!r})")
    # ---- 5. style-level helpers on duck-typed styles (ids; add a b = 100a+b; falsy iff id == 0)
    class FS:
        __slots__ = ("id",)

        def __init__(self, i):
            self.id = i

        def __add__(self, other):
            return self if other is None else FS(100 * self.id + other.id)

        def __bool__(self):
            return self.id != 0

        def __eq__(self, other):
            return isinstance(other, FS) and other.id == self.id

        def __hash__(self):
            return hash(self.id)

        def update_link(self, link=None):
            return FS(self.id + 1000)

        @property
        def without_color(self):
            return FS(self.id + 2000)

        def __repr__(self):
            return f"FS({self.id})"

    def fenc(line):
        return "|".join(f"{enc_str(x.text)};{'-' if x.style is None else x.style.id};{enc_bool(x.is_control)}" for x in line)

    def tc(line):
        return [(x.text, bool(x.is_control)) for x in line]

    fstyles = [None, FS(0), FS(1), FS(2), FS(7)]
    n_fs = 6000 if ctx.quick else 120000
    for i in range(n_fs):
        segs = [Segment(rng.choice(texts), rng.choice(fstyles), rng.random() < 0.25) for _ in range(rng.randint(0, 4))]
        st, ps = rng.choice(fstyles[:1] + fstyles[1:]), rng.choice(fstyles)
        if rng.random() < 0.4:
            st = None
        if rng.random() < 0.4:
            ps = None
        got = list(Segment.apply_style(list(segs), st, ps))
        ok = tc(got) == tc(segs) and all(g.style is None for g in got if g.is_control and (st is not None or ps is not None))
        ctx.check(ok, "apply_style", (segs, st, ps), "apply_style changed a text / control flag, or styled a control segment")
        ctx.case("apply_style", [fenc(segs), "-" if st is None else st.id, "-" if ps is None else ps.id], fenc(got), shape=f"{st is not None}{ps is not None}", sample=f"apply_style({segs!r},{st!r},{ps!r})")
        for flag in (False, True):
            got = list(Segment.filter_control(list(segs), is_control=flag))
            ctx.check(got == [x for x in segs if bool(x.is_control) == flag], "filter_control", (segs, flag), "filter_control is not the ordered sub-list with that flag")
            ctx.case("filter_control", [fenc(segs), enc_bool(flag)], fenc(got))
        got = list(Segment.strip_styles(list(segs)))
        ctx.check(tc(got) == tc(segs) and all(g.style is None for g in got), "strip_styles", segs, "strip_styles changed text/control or kept a style")
        ctx.case("strip_styles", [fenc(segs)], fenc(got))
        got = list(Segment.strip_links(list(segs)))
        ctx.check(tc(got) == tc(segs), "strip_links", segs, "strip_links changed a text or control flag")
        ctx.case("strip_links", [fenc(segs)], fenc(got))
        got = list(Segment.remove_color(list(segs)))
        ctx.check(tc(got) == tc(segs), "remove_color", segs, "remove_color changed a text or control flag")
        ctx.case("remove_color", [fenc(segs)], fenc(got), sample=f"remove_color({segs!r})")
        lines = [[x for x in l] for l in Segment.split_lines([x for x in segs if not x.is_control])]
        w, h = Segment.get_shape(lines)
        ctx.check(h == len(lines) and all(sum(x.cell_length for x in l) <= w for l in lines) and (w == 0 or any(sum(x.cell_length for x in l) == w for l in lines)),
                  "get_shape", lines, "get_shape is not the enclosing rectangle")
        ctx.case("get_shape", [f"{len(lines)}#" + "/".join(fenc(l) for l in lines)], f"{w} {h}")
    ctx.flush()
    ctx.rule = (
        "all 1,114,112 code points (exhaustive) + every string <= %d over %r x sizes 0..12 / widths 1..6 x positions "
        "+ seeded random cell_len histories (1..14 calls, LRUCache capacity 1/2/3/4/8) over a pool of every string <= 3 plus "
        "strings of 63..200 characters of every width class (incl. ASCII control characters in plain ASCII text), 30%% of the calls a "
        "neighbour of an earlier call (the same text with U+3000 / tab / LF / CR / U+001C-1F / U+0085 / zero-width characters added or "
        "whitespace stripped at either end); segment texts include every character str.splitlines() breaks on besides LF "
        "+ seeded random segment lists (<=4 segments over %d texts, 4 styles, control flags) x length 0..8 x pad x style "
        "+ seeded random segment lists with duck-typed styles (5 style values) for apply_style / filter_control / strip_styles / "
        "strip_links / remove_color / get_shape; "
        "distinct = distinct canonical requests" % (maxlen, ALPHA, len(texts))
    )


def replay(ctx, case):
    print("site:", case.get("site"))
    print("input:", case.get("input"))
    print("what:", case.get("what"))
    print("re-run `./check C13` to re-evaluate (the generators are seeded: VERIF_SEED=%s)" % case.get("seed"))
    return False

MANIFEST = {
    "text": "Lean 4 theorems (Props/C13.lean, 25, no bound on string length, table size, cache history or segment list): "
    "binary search = first-match linear scan for every code point given the sortedDisjoint side condition, which is "
    "re-proved by `decide +kernel` on the table translated from rich/_cell_widths.py on every run; cache transparency for "
    "every capacity and call history; set_cell_size exactness; chop_cells concatenation/fit; adjust_line_length / "
    "split_and_crop_lines / set_shape exact lengths, stream preservation and padding style; simplify stream preservation; "
    "the style-level helpers: apply_style keeps texts, control flags and cell length and leaves control segments unstyled, "
    "strip_styles / strip_links / remove_color keep texts and control flags, filter_control is the ordered sub-list with the "
    "flag and dropping control segments keeps the cell length, get_shape is an enclosing rectangle; two `old_` witnesses for "
    "the two repaired defects. "
    "Tie: all 1,114,112 code points and ~210k further generated cases per quick run compared model-vs-rich (211,867 in the "
    "recorded quick run, seed 2), plus the theorems' executable statements evaluated on rich's own outputs (221,533 direct "
    "evaluations in that run, so ~430k non-code-point evaluations in all). Thorough: strings <= 7 plus 3,000 random strings "
    "of 8..80 characters, 6,000 cache histories, 250,000 segment lists, 120,000 style-helper segment lists (~3.7M compared "
    "was the builders' figure before the style-helper cases were added; not re-measured since).",
    "note": "Trusted: Lean kernel; axioms propext/Classical.choice/Quot.sound; translator harness/tables.py; the correspondence "
    "harness; styles are opaque ids in the segment model; lone surrogates go through the raw code-point path only. "
    "functools.lru_cache on _get_codepoint_cell_size is assumed transparent (exercised, not modelled). "
    "Variant flags: REBIND = 0, MERGE_CTL = 0 (the repaired code; 1 = rich 9.10.0 as found, before fix b83f6d1 / b97fe77). "
    "No `known:` finding is recorded for C13, so the check prints no KNOWN-FINDING line; the slugs splitcrop-pad-style-rebound "
    "and simplify-merges-control only classify a failure of those two statements, which is a VIOLATION on the repaired code. "
    "For the style-level helpers Style.__add__ / __bool__ / update_link / without_color are parameters of the model, "
    "instantiated by duck-typed style objects in the harness (real Style objects are used for the line-shaping cases).",
    "design_ref": "DESIGN.md section 7, C13",
}
