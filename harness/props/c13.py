"""C13 — cell-width arithmetic and line shaping are exact and history-independent.

Correspondence: Lean model (Model/Cells, Model/Segment) vs rich.cells / rich.segment, in-process.
Direct evaluation (3d): the executable statements of the theorems in Props/C13.lean on the real outputs.
"""
import itertools

from core import enc_bool, enc_opt, enc_str, enc_str_list

PROPERTY = "C13"

ALPHA = ["a", " ", "あ", "̀", "😽"]

# flags telling the model which variant of the code it is compared with (see Model/Segment.lean).
# 0/0 = the repaired code (fix: commits recorded in known_findings.txt).
REBIND = 0
MERGE_CTL = 0


def _styles():
    from rich.style import Style

    s1 = Style(bold=True)
    s2 = Style(color="red")
    return [None, s1, s2, Style.parse("bold")]  # the 4th equals the 2nd but is another object


class Enc:
    def __init__(self):
        self.styles = _styles()
        self.reps = []  # representative style per id

    def sid(self, st):
        if st is None:
            return None
        for i, r in enumerate(self.reps):
            if r == st:
                return i + 1
        self.reps.append(st)
        return len(self.reps)

    def seg(self, s):
        return f"{enc_str(s.text)};{enc_opt(self.sid(s.style))};{enc_bool(s.is_control)}"

    def line(self, l):
        return "|".join(self.seg(s) for s in l)

    def lines(self, ls):
        ls = list(ls)
        return f"{len(ls)}#" + "/".join(self.line(l) for l in ls)


def stream(line):
    return [(c, s.style, bool(s.is_control)) for s in line for c in s.text]


def all_strings(alpha, maxlen):
    for n in range(maxlen + 1):
        for t in itertools.product(alpha, repeat=n):
            yield "".join(t)


# ---- real `rich.style.Style` values judged STRUCTURALLY (follow-up to the round-g miss: `Style.__eq__` without its
# `_set_attributes` clause made `Segment.simplify` merge "not bold" into "none"; a check that compares styles with the
# library's own `==`, or encodes them by `==`, cannot see that).  Never `==` / hash / str of a Style here.
_ATTRS = ("bold", "dim", "italic", "underline", "blink", "blink2", "reverse", "conceal", "strike", "underline2", "frame", "encircle", "overline")


def _ckey(c, with_name=False):
    if c is None:
        return None
    t = c.triplet
    k = (int(c.type), c.number, None if t is None else (t.red, t.green, t.blue))
    return k + (c.name,) if with_name else k


def skey(st, with_name=False):
    """(tri-state of every attribute, colour (type, number, triplet), bgcolor, link); None stays None."""
    if st is None:
        return None
    return (tuple(getattr(st, a) for a in _ATTRS), _ckey(st.color, with_name), _ckey(st.bgcolor, with_name), st.link)


_EMPTY = ((None,) * len(_ATTRS), None, None, None)


def kadd(a, b):
    """Style.__add__ on keys (b wins where it says something)."""
    if b is None:
        return a
    return (tuple(y if y is not None else x for x, y in zip(a[0], b[0])), b[1] or a[1], b[2] or a[2], b[3] or a[3])


def sstream(line):
    return [(c, skey(x.style), bool(x.is_control)) for x in line for c in x.text]


class SEnc(Enc):
    """Style ids by structural key (colour names included, so that ids are at least as fine as `Style.__eq__`)."""

    def __init__(self):
        self.ids = {}

    def sid(self, st):
        if st is None:
            return None
        return self.ids.setdefault(skey(st, True), len(self.ids) + 1)


def _real_style_pool():
    from rich.color import Color, ColorType
    from rich.style import Style

    eight1 = Color("color(1)", ColorType.EIGHT_BIT, number=1)  # same number as standard red, other colour type
    return [
        None, Style(), Style.null(),
        # differ only in explicitly-False attributes / only in the set-mask
        Style(bold=True), Style(bold=True), Style.parse("bold"), Style(bold=False), Style(italic=False), Style(bold=True, italic=False),
        Style(italic=False, underline=False), Style(bold=False, italic=False), Style(dim=False), Style(overline=False), Style(overline=True),
        # colours: standard 1 / eight-bit 1 / truecolor of the same red / default; with and without explicit-False attributes
        Style(color="red"), Style(color="red", italic=False, underline=False), Style(color="red", bold=False), Style(color=eight1),
        Style(color="#800000"), Style(color="#800001"), Style(color="default"), Style(bgcolor="red"), Style(bgcolor=eight1),
        Style(color="red", bgcolor="red"), Style(bgcolor="red", reverse=False),
        # links
        Style(link="http://a"), Style(link="http://b"), Style(bold=True, link="http://a"), Style(bold=False, link="http://a"),
        Style(color="red", link="http://a"),
    ]


def _real_style_cases(ctx, Segment, ref):
    rng = ctx.rng
    pool = _real_style_pool()
    enc = SEnc()
    width = lambda t: sum(ref[ord(ch)] for ch in t)  # noqa: E731

    def one_simplify(segs, sample=None):
        try:
            got = list(Segment.simplify(list(segs)))
        except BaseException as e:  # noqa
            ctx.check(False, "simplify(real styles)", segs, f"raised {type(e).__name__}")
            return
        ctx.check(sstream(got) == sstream(segs), "simplify(real styles)", segs,
                  f"simplify changed a character's style or control flag, compared attribute by attribute: {got!r}")
        ctx.case("simplify", [enc.line(segs), MERGE_CTL], enc.line(got), shape="real-style", sample=sample)

    # bounded-exhaustive: every ordered pair of pool styles on two adjacent text segments, and around a control segment
    for i, a in enumerate(pool):
        for j, b in enumerate(pool):
            one_simplify([Segment("x", a), Segment("y", b)], sample=f"simplify([Segment('x',{a!r}),Segment('y',{b!r})])" if (i * 7 + j) % 97 == 0 else None)
            one_simplify([Segment("x", a), Segment("y", b), Segment("z", a)])
            one_simplify([Segment("x", a), Segment("\x07", b, True), Segment("z", a)])
    texts = ["", "a", "ab", "あ", "a\nb", "\n", "̀", " ", "😽x", "b\n"]
    n = 4000 if ctx.quick else 60000
    for _ in range(n):
        segs = [Segment(rng.choice(texts), rng.choice(pool), rng.random() < 0.15) for _ in range(rng.randint(0, 5))]
        if rng.random() < 0.5:  # runs of near-equal styles: neighbours drawn from a small sub-pool
            sub = rng.sample(pool, 3)
            segs = [Segment(x.text, rng.choice(sub), x.is_control) for x in segs]
        st = rng.choice(pool)
        length, pad, nl = rng.randint(0, 6), rng.random() < 0.7, rng.random() < 0.5
        one_simplify(segs)
        try:
            # adjust_line_length on the newline-free part
            line = [x for x in segs if "\n" not in x.text or x.is_control]
            got = Segment.adjust_line_length(list(line), length, style=st, pad=pad)
            ll = sum(0 if x.is_control else width(x.text) for x in line)
            gs, ls = sstream(got), sstream(line)
            if ll <= length:
                ok = gs == ls + ([(" ", skey(st), False)] * (length - ll) if pad else [])
            else:
                k = 0
                while k < len(gs) and k < len(ls) and gs[k] == ls[k]:
                    k += 1
                ok = all(x[0] == " " and not x[2] for x in gs[k:])
            ctx.check(ok, "adjust_line_length(real styles)", (line, length, st, pad), f"line content / styles changed, or padding not in the requested style (attribute by attribute): {got!r}")
            ctx.case("adjust", [enc.line(line), length, enc_opt(enc.sid(st)), enc_bool(pad)], enc.line(got), shape="real-style")

            # split_and_crop_lines against split_lines, structurally
            got = [list(l) for l in Segment.split_and_crop_lines(list(segs), length, style=st, pad=pad, include_new_lines=nl)]
            rlines = [list(l) for l in Segment.split_lines(list(segs))]
            ok = len(got) == len(rlines)
            for g, r in zip(got, rlines) if ok else ():
                if nl and g and g[-1].text == "\n" and not g[-1].is_control:
                    g = g[:-1]
                rl = sum(0 if x.is_control else width(x.text) for x in r)
                if rl <= length and sstream(g) != sstream(r) + ([(" ", skey(st), False)] * (length - rl) if pad else []):
                    ok = False
                if rl > length:
                    gs, ls = sstream(g), sstream(r)
                    k = 0
                    while k < len(gs) and k < len(ls) and gs[k] == ls[k]:
                        k += 1
                    ok = ok and all(x[0] == " " and not x[2] for x in gs[k:])
            ctx.check(ok, "split_and_crop_lines(real styles)", (segs, length, st, pad, nl), f"a line's characters / styles changed or the padding is not in the requested style (attribute by attribute): {got!r}")
            ctx.case("split_crop", [enc.line(segs), length, enc_opt(enc.sid(st)), enc_bool(pad), enc_bool(nl), REBIND], enc.lines(got), shape="real-style")

            # apply_style / strip_links / remove_color: expected style of every segment computed on keys
            ps = rng.choice(pool) if rng.random() < 0.6 else None
            st2 = st if rng.random() < 0.6 else None
            got = list(Segment.apply_style(list(segs), st2, ps))
            want = []
            for x in segs:
                cur = skey(x.style)
                if st2 is not None:
                    cur = None if x.is_control else kadd(skey(st2), cur)
                if ps is not None:
                    cur = None if x.is_control else (kadd(cur, skey(ps)) if cur is not None else skey(ps))
                want.append((x.text, cur, bool(x.is_control)))
            ctx.check([(g.text, skey(g.style), bool(g.is_control)) for g in got] == want, "apply_style(real styles)", (segs, st2, ps),
                      f"apply_style result {got!r} is not style + segment style + post style, attribute by attribute")
            got = list(Segment.strip_links(list(segs)))
            want = []
            for x in segs:
                k = skey(x.style)
                if x.is_control or k is None:
                    want.append((x.text, k, bool(x.is_control)))
                else:
                    want.append((x.text, None if k == _EMPTY else k[:3] + (None,), False))
            ctx.check([(g.text, skey(g.style), bool(g.is_control)) for g in got] == want, "strip_links(real styles)", segs,
                      f"strip_links result {got!r} changed something other than the link")
            got = list(Segment.remove_color(list(segs)))
            want = []
            for x in segs:
                k = skey(x.style)
                want.append((x.text, None if k is None or k == _EMPTY else (k[0], None, None, k[3]), bool(x.is_control)))
            ctx.check([(g.text, skey(g.style), bool(g.is_control)) for g in got] == want, "remove_color(real styles)", segs,
                      f"remove_color result {got!r} changed something other than the colours")
        except BaseException as e:  # noqa: an exception in these helpers is a property failure with its input
            ctx.check(False, "segment helpers(real styles)", (segs, length, st, pad, nl), f"raised {type(e).__name__}: {e}")
    ctx.note(f"realstyle:pool{len(pool)}:distinct-keys{len({skey(p) for p in pool})}")
    ctx.flush()


def _lru_real(LRUCache, cap, ops):
    """Run ops on the real class. -> (outputs, items, per-step snapshots of items)."""
    c = LRUCache(cap)
    outs, snaps = [], []
    for op in ops:
        try:
            if op[0] == "s":
                c[op[1]] = op[2]
                outs.append("u")
            elif op[0] == "g":
                outs.append(f"v:{c[op[1]]}")
            elif op[0] == "q":
                r = c.get(op[1])
                outs.append("u" if r is None else f"v:{r}")
            elif op[0] == "c":
                outs.append("b:1" if op[1] in c else "b:0")
            else:
                outs.append(f"n:{len(c)}")
        except KeyError:
            outs.append("E")
        except BaseException as e:  # noqa: judged by the comparison, never a harness error
            outs.append(f"err:Other:{type(e).__name__}")
        snaps.append(list(c.items()))
    return outs, list(c.items()), snaps


def _lru_oracle(cap, ops):
    """The statement of lru_refines_plain_map, executable and independent of the Lean model: a plain dict that never
    evicts plus the recency order of its keys; yields after every op the expected (output, items) for capacity >= 1."""
    plain, order = {}, []  # order: oldest first, every key ever stored
    for op in ops:
        live = order[-cap:]
        out = None
        if op[0] == "s":
            k, v = op[1], op[2]
            if k not in live:
                if k in order:
                    order.remove(k)
                order.append(k)
            plain[k] = v
            out = "u"
        elif op[0] == "g":
            k = op[1]
            if k in live:
                out = f"v:{plain[k]}"
                order.remove(k)
                order.append(k)
            else:
                out = "E"
        elif op[0] == "q":
            out = f"v:{plain[op[1]]}" if op[1] in live else "u"
        elif op[0] == "c":
            out = "b:1" if op[1] in live else "b:0"
        else:
            out = f"n:{len(live)}"
        yield out, [(k, plain[k]) for k in order[-cap:]]


def _lru_enc(ops):
    return ",".join(":".join(str(x) for x in op) for op in ops)


def _lru_one(ctx, LRUCache, cap, ops, sample=None):
    outs, items, snaps = _lru_real(LRUCache, cap, ops)
    answer = ",".join(outs) + "|" + ",".join(f"{k}:{v}" for k, v in items)
    ctx.case("lru_ops", [cap, _lru_enc(ops)], answer, shape=f"cap{cap}", sample=sample)
    if cap >= 1:
        ctx.case("lru_abs", [cap, _lru_enc(ops)], answer, shape=f"cap{cap}")
        ok, why = True, ""
        for i, ((eo, ei), o, sn) in enumerate(zip(_lru_oracle(cap, ops), outs, snaps)):
            if o != eo or sn != ei:
                ok, why = False, f"after op {i} {ops[i]}: output {o}, items {sn}; a plain dict restricted to its {cap} most recent keys gives {eo}, {ei}"
                break
            if len(sn) > cap:
                ok, why = False, f"after op {i}: {len(sn)} items in a cache of capacity {cap}"
                break
        ctx.check(ok, "LRUCache", (cap, ops), why or "ok")
    else:
        # capacity <= 0: __setitem__ raises KeyError from popitem() and nothing is ever stored (theorem lru_cap_zero)
        ok = items == [] and all(o == "E" for o, op in zip(outs, ops) if op[0] in "sg")
        ctx.check(ok, "LRUCache", (cap, ops), f"capacity {cap}: outputs {outs}, items {items}; expected KeyError on every store / subscript and an empty cache")
    for o in outs:
        ctx.note("lru:out:" + o.split(":")[0])
    ctx.note(f"lru:evicting:{cap >= 1 and len({op[1] for op in ops if op[0] == 's'}) > cap}")


def _lru_sequences(ctx, LRUCache):
    rng = ctx.rng
    # bounded-exhaustive: every sequence of <= L ops over {c[k]=fresh, c[k], c.get(k)} x keys 0..2 + len, capacity 1 and 2
    # (values are the op index + 10, so a stale or misplaced value is visible)
    L = 4 if ctx.quick else 5
    alpha = [("s", k) for k in range(3)] + [("g", k) for k in range(3)] + [("q", k) for k in range(3)] + [("l",)]
    for n in range(0, L + 1):
        for seq in itertools.product(alpha, repeat=n):
            ops = [(o[0], o[1], 10 + i) if o[0] == "s" else o for i, o in enumerate(seq)]
            for cap in (1, 2):
                _lru_one(ctx, LRUCache, cap, ops, sample=f"LRUCache({cap}) ops {ops!r}" if n == L and rng.random() < 0.001 else None)
    # seeded random beyond: longer histories, capacities -1..8 (<= 0: every store raises), all five operations
    for _ in range(2000 if ctx.quick else 40000):
        cap = rng.choice([-1, 0, 1, 1, 2, 2, 3, 3, 4, 8])
        nkeys = max(cap, 1) + rng.randint(1, 3)
        ops = []
        for i in range(rng.randint(1, 30)):
            kind = rng.choice("ssssgggqqcl")
            k = rng.randrange(nkeys)
            ops.append(("s", k, rng.randint(0, 99)) if kind == "s" else ("l",) if kind == "l" else (kind, k))
        _lru_one(ctx, LRUCache, cap, ops)
    ctx.flush()


def run(ctx):
    import rich.cells as cells
    from rich._cell_widths import CELL_WIDTHS
    from rich._lru_cache import LRUCache
    from rich.segment import Segment

    rng = ctx.rng
    ctx.assumptions += [
        "styles are opaque to the segment model: compared by == and represented by ids",
        "str is a sequence of code points (lone surrogates are compared through the raw code-point path only)",
    ]

    # ---- 1. every code point: binary search == first-match linear scan of the table (exhaustive)
    ref = [1] * 0x110000
    for s, e, w in reversed(CELL_WIDTHS):  # first row containing cp wins -> paint in reverse
        for cp in range(max(s, 0), min(e, 0x10FFFF) + 1):
            ref[cp] = 0 if w == -1 else w
    for cp in range(32, 127):
        ref[cp] = 1  # the documented ASCII shortcut
    gcs = cells.get_character_cell_size
    bad = None
    for cp in range(0x110000):
        got = gcs(chr(cp))
        if got != ref[cp] and bad is None:
            bad = (cp, got, ref[cp])
        if 0xD800 <= cp <= 0xDFFF:
            ctx.case("cwraw", [cp], cells._get_codepoint_cell_size.__wrapped__(cp))
        else:
            ctx.case("cw", [cp], got, sample=f"get_character_cell_size(U+{cp:04X})" if cp % 65521 == 0 else None)
    ctx.check(bad is None, "get_character_cell_size", bad, "binary search differs from first-match linear scan of CELL_WIDTHS (cp, got, table)")
    ctx.check(all(v in (0, 1, 2) for v in ref), "CELL_WIDTHS", None, "a table width outside {0,1,2}")
    ctx.exhaustive = True
    ctx.flush()

    # ---- 2. cell_len: history independence under small caches (evictions) and the real one
    n_hist = 300 if ctx.quick else 6000
    pool = [s for s in all_strings(ALPHA, 3)] + ["x" * 64, "あ" * 64, "y" * 65, "😽" * 70]
    # long (uncached, > 64 characters) and boundary-length strings of every width class, incl. ASCII control
    # characters (width 0 in the table) inside otherwise plain ASCII text
    for n in (63, 64, 65, 66, 80, 200):
        pool += ["a" * (n - 2) + "\t" + "b", "\x1b" + "z" * (n - 1), "k" * (n - 1) + "\x7f", "q" * (n - 3) + "\x00\x1f ",
                 "a" * (n - 1) + "̀", "あ" * (n // 2) + "x" * (n - n // 2), " " * n]
    # extensions: a string measured after a neighbour of it (the same text plus / minus leading or trailing characters
    # that are not one cell wide: U+3000 is 2 cells; tab, LF, CR, U+001C-U+001F, U+0085, combining marks are 0), so a
    # cache that confuses a string with its stripped / trimmed form is seen (seeded change C13-f2)
    ext = ["\u3000", "\t", "\n", "\r", "\x1c", "\x1f", "\x85", " ", "\u3000 ", " \u3000", "\u200b", "̀", "\x0b\x0c"]
    for _ in range(n_hist):
        cap = rng.choice([1, 2, 3, 4, 8])
        calls = [rng.choice(pool) for _ in range(rng.randint(1, 14))]
        for i in range(1, len(calls)):
            if rng.random() < 0.3:
                base, e = calls[rng.randrange(i)], rng.choice(ext)
                calls[i] = rng.choice([base + e, e + base, base + e + e, base.rstrip(), base.strip(), base[:-1], base[1:]])
        cache = LRUCache(cap)
        got = [cells.cell_len(c, cache) for c in calls]
        want = [sum(ref[ord(ch)] for ch in c) for c in calls]
        ctx.check(got == want, "cell_len(cache)", (cap, calls), f"cached results {got} differ from the sum of character widths {want}")
        ctx.check(len(cache) <= cap, "LRUCache", (cap, calls), "cache grew beyond its capacity")
        ctx.case("cache_hist", [cap, enc_str_list(calls)], " ".join(map(str, got)), shape=f"cap{cap}", sample=f"cell_len history cap={cap} {calls!r}")
        # the cache CONTENT after the history (keys oldest first, values): cell_len goes through OrderedDict.get (no recency
        # refresh) and LRUCache.__setitem__ (eviction of the oldest), so the order and the survivors are part of the model
        kv = list(cache.items())
        ctx.case("cache_state", [cap, enc_str_list(calls)], enc_str_list([k for k, _ in kv]) + "#" + " ".join(str(v) for _, v in kv), shape=f"cap{cap}")
    for s in pool:  # the real, shared cache, whatever is in it by now
        ctx.check(cells.cell_len(s) == sum(ref[ord(ch)] for ch in s), "cell_len", s, "cell_len differs from the sum of character widths")
        ctx.case("cell_len", [enc_str(s)], cells.cell_len(s))
    for base in ["名前", "ab", "あ", "x y", "", "à"]:  # the real cache again: a text, then the text with non-one-cell whitespace around it
        for e in ext:
            for t in (base, base + e, e + base, base + e + e):
                ctx.check(cells.cell_len(t) == sum(ref[ord(ch)] for ch in t), "cell_len", (base, t), "cell_len (shared cache, after measuring a neighbouring string) differs from the sum of character widths")
                ctx.case("cell_len", [enc_str(t)], cells.cell_len(t))

    # ---- 2b. LRUCache as a state machine (deepening round 4): op sequences against the real class
    _lru_sequences(ctx, LRUCache)

    # ---- 3. set_cell_size / chop_cells
    maxlen = 5 if ctx.quick else 7
    strings = list(all_strings(ALPHA, maxlen))
    if not ctx.quick:
        for _ in range(3000):
            strings.append("".join(rng.choice(ALPHA + ["b", "、", "​"]) for _ in range(rng.randint(8, 80))))
    for s in strings:
        clen = sum(ref[ord(ch)] for ch in s)
        totals = range(0, 13) if len(s) <= maxlen else sorted({0, 1, clen, max(clen - 1, 0), clen + 1, rng.randint(0, 100), rng.randint(0, 100)})
        for total in totals:
            got = cells.set_cell_size(s, total)
            k = len(got.rstrip(" "))
            ok = sum(ref[ord(ch)] for ch in got) == total
            # prefix of the original followed by spaces
            okp = any(got == s[:j] + " " * (len(got) - j) for j in range(min(len(got), len(s)), -1, -1) if got[:j] == s[:j])
            ctx.check(ok and okp, "set_cell_size", (s, total), f"result {got!r} is not exactly {total} cells made of a prefix plus spaces")
            ctx.case("set_cell_size", [enc_str(s), total], enc_str(got), shape=("crop" if clen > total else "pad" if clen < total else "same"), sample=f"set_cell_size({s!r},{total})")
        for total in ((-1, -2, -7) if len(s) <= maxlen else (-1, -rng.randint(2, 50))):
            try:
                got = cells.set_cell_size(s, total)
            except BaseException as e:  # noqa
                got = None
                ctx.check(False, "set_cell_size", (s, total), f"raised {type(e).__name__}")
            if got is not None:
                ctx.check(got == "", "set_cell_size", (s, total), f"negative total gave {got!r}, not the empty string")
                ctx.case("set_cell_size_i", [enc_str(s), total], enc_str(got), shape="negative")
        for total in ((0, 1, 2) if len(s) <= 3 else ()):  # the integer model on the non-negative side as well
            ctx.case("set_cell_size_i", [enc_str(s), total], enc_str(cells.set_cell_size(s, total)), shape="nonneg")
        widths = range(0, 7) if len(s) <= maxlen else [0, 1, 2, 3, rng.randint(2, 100)]
        for m in widths:
            # positions beyond the width too: divide_line passes the cell length of the previous word WITH its trailing
            # spaces, which may exceed the width (deepening round 4: theorem chop_cells_first_piece has no p <= m)
            for p in (range(0, m + 4) if len(s) <= 4 else [0, rng.randint(0, m), rng.randint(m + 1, m + 3)]):
                try:
                    got = cells.chop_cells(s, m, position=p)
                except BaseException as e:  # noqa: an exception here is a property failure, not a harness error
                    ctx.check(False, "chop_cells", (s, m, p), f"raised {type(e).__name__}")
                    ctx.case("chop_cells", [enc_str(s), m, p], f"err:Other:{type(e).__name__}")
                    continue
                ok = "".join(got) == s
                if m >= 2:
                    ok = ok and all(sum(ref[ord(ch)] for ch in q) <= m for q in got)
                    ok = ok and (p + sum(ref[ord(ch)] for ch in got[0]) <= m or got[0] == "")
                ctx.check(ok, "chop_cells", (s, m, p), f"pieces {got!r} do not concatenate to the input or do not fit")
                # chop_cells_first_piece, every clause, for every m and p
                wq = [sum(ref[ord(ch)] for ch in q) for q in got]
                ok1 = len(got) >= 1 and (got[0] == "" or p + wq[0] <= m)
                ok2 = all(q != "" and (w <= m or (len(q) == 1 and w > m)) for q, w in zip(got[1:], wq[1:]))
                ok3 = all(got[i + 1] != "" and (p if i == 0 else 0) + wq[i] + ref[ord(got[i + 1][0])] > m for i in range(len(got) - 1))
                ctx.check(ok1, "chop_cells", (s, m, p), f"first piece of {got!r} is not empty and does not fit behind position {p}")
                ctx.check(ok2, "chop_cells", (s, m, p), f"a later piece of {got!r} is empty, or too wide without being a single too-wide character")
                ctx.check(ok3, "chop_cells", (s, m, p), f"pieces {got!r} are not greedy: the first character of a piece would have fitted on the piece before")
                ctx.note(f"chop:{'p>m' if p > m else 'p<=m'}:{'first-empty' if got[0] == '' else 'first-nonempty'}")
                ctx.case("chop_cells", [enc_str(s), m, p], enc_str_list(got), shape=f"pieces{min(len(got), 4)}", sample=f"chop_cells({s!r},{m},{p})")
    ctx.flush()

    # ---- 4. segment line shaping
    enc = Enc()
    styles = enc.styles
    texts = ["", "a", "ab", "あ", "aあ", "\n", "a\n", "\nb", "a\nb", "あ\n\n", "̀", " ", "a\nb\nc", "😽x"]
    # the other characters str.splitlines() breaks on: only "\n" ends a line for rich (seeded change C13-f3)
    texts += ["a\rb\nc", "\r\n", "x\x0b\n", "\x0c", "a\x1cb\nc", "\x1d\x1e\n", "\x85\n", "a\u2028b\n", "\u2029", "\n\r"]

    def rand_seg():
        ctl = rng.random() < 0.15
        return Segment(rng.choice(texts), rng.choice(styles), ctl)

    n_seg = 12000 if ctx.quick else 250000
    for i in range(n_seg):
        segs = [rand_seg() for _ in range(rng.randint(0, 4))]
        length = rng.randint(0, 8)
        pad = rng.random() < 0.7
        st = rng.choice(styles)
        sid = enc.sid(st)
        eline = enc.line(segs)

        # split_lines
        got = [list(l) for l in Segment.split_lines(list(segs))]
        flat = [x for l in got for x in stream(l)]
        want = [x for x in stream(segs) if x[2] or x[0] != "\n"]
        ctx.check(flat == want, "split_lines", segs, "characters/styles changed by split_lines")
        ctx.case("split_lines", [eline], enc.lines(got), shape=f"lines{min(len(got), 4)}", sample=f"split_lines({segs!r})")

        # adjust_line_length on a newline-free line
        line = [s for s in segs if "\n" not in s.text or s.is_control]
        got = Segment.adjust_line_length(list(line), length, style=st, pad=pad)
        ll = sum(s.cell_length for s in line)
        gl = sum(s.cell_length for s in got)
        if pad or ll >= length:
            ctx.check(gl == length, "adjust_line_length", (line, length, pad), f"line has {gl} cells, wanted {length}")
        gs, ls = stream(got), stream(line)
        if ll <= length:
            exp = ls + ([(" ", st, False)] * (length - ll) if pad else [])
            ctx.check(gs == exp, "adjust_line_length", (line, length, st, pad), "padding does not keep the line and append spaces in the requested style")
        else:
            k = 0
            while k < len(gs) and k < len(ls) and gs[k] == ls[k]:
                k += 1
            ctx.check(all(x[0] == " " and not x[2] for x in gs[k:]), "adjust_line_length", (line, length), "cropping changed characters or styles")
        ctx.case("adjust", [enc.line(line), length, enc_opt(sid), enc_bool(pad)], enc.line(got), shape=("crop" if ll > length else "pad" if ll < length else "same"), sample=f"adjust_line_length({line!r},{length},pad={pad})")

        # split_and_crop_lines
        nl = rng.random() < 0.5
        got = [list(l) for l in Segment.split_and_crop_lines(list(segs), length, style=st, pad=pad, include_new_lines=nl)]
        ref_lines = [list(l) for l in Segment.split_lines(list(segs))]
        ok = len(got) == len(ref_lines)
        why = "number of lines differs from split_lines"
        finding = None
        if ok:
            for g, r in zip(got, ref_lines):
                if nl and g and g[-1].text == "\n" and not g[-1].is_control:
                    g = g[:-1]
                rl = sum(s.cell_length for s in r)
                glen = sum(s.cell_length for s in g)
                if pad or rl >= length:
                    if glen != length:
                        ok, why = False, f"a line has {glen} cells, wanted {length}"
                        break
                if rl <= length:
                    exp = stream(r) + ([(" ", st, False)] * (length - rl) if pad else [])
                    if stream(g) != exp:
                        ok, why = False, "padding does not carry the requested style / line content changed"
                        padding = stream(g)[len(stream(r)):]
                        if stream(g)[: len(stream(r))] == stream(r) and padding and all(x[0] == " " for x in padding):
                            finding = "splitcrop-pad-style-rebound"
                        break
        ctx.check(ok, "split_and_crop_lines", (segs, length, st, pad, nl), why, finding=finding)
        ctx.case("split_crop", [eline, length, enc_opt(sid), enc_bool(pad), enc_bool(nl), REBIND], enc.lines(got), shape=f"lines{min(len(got), 4)}", sample=f"split_and_crop_lines({segs!r},{length},style={st!r},pad={pad},nl={nl})")

        # deepening round 4: get_line_length, make_control, Segment.control, __bool__ / cell_length of one segment
        try:
            gll = Segment.get_line_length(list(line))
            want_ll = sum(sum(ref[ord(ch)] for ch in x.text) for x in line if not x.is_control)
            ctx.check(gll == want_ll, "get_line_length", line, f"get_line_length {gll} is not the sum of the widths of the non-control characters {want_ll}")
            ctx.case("line_length", [enc.line(line)], gll)
            mc = list(Segment.make_control(list(segs)))
            ctx.check(all(x.is_control for x in mc) and [(x.text, x.style) for x in mc] == [(x.text, x.style) for x in segs] and Segment.get_line_length(mc) == 0,
                      "make_control", segs, "make_control changed a text / style, left a non-control segment, or the result has a cell length")
            ctx.case("make_control", [eline], enc.line(mc))
            if segs:
                s0 = segs[0]
                ctx.check(bool(s0) == (s0.text != "") and s0.cell_length == (0 if s0.is_control else sum(ref[ord(ch)] for ch in s0.text)),
                          "Segment.cell_length", s0, "bool(segment) / segment.cell_length wrong (a control segment measures 0 cells)")
                ctx.case("seg_bool_len", [enc.seg(s0)], f"{enc_bool(bool(s0))} {s0.cell_length}", shape=f"ctl{int(bool(s0.is_control))}")
                c0 = Segment.control(s0.text, s0.style)
                ctx.check(c0.is_control is True and c0.text == s0.text and c0.style == s0.style and c0.cell_length == 0, "Segment.control", s0, "Segment.control is not the control segment with that text and style")
                ctx.case("seg_control", [enc_str(s0.text), enc_opt(enc.sid(s0.style))], enc.seg(c0))
        except BaseException as e:  # noqa: an exception in these helpers is a property failure
            ctx.check(False, "segment helpers", segs, f"raised {type(e).__name__}")

        # set_shape on the split lines
        h = rng.choice([None, 0, 1, 2, 3, 5])
        got = Segment.set_shape([list(l) for l in ref_lines], length, h, style=st)
        ok = all(sum(s.cell_length for s in l) == length for l in got) and len(got) == max(len(ref_lines), len(ref_lines) if h is None else h)
        ctx.check(ok, "set_shape", (ref_lines, length, h), "not a rectangle of the requested width / wrong number of lines")
        ctx.case("set_shape", [enc.lines(ref_lines), length, enc_opt(h), enc_opt(sid)], enc.lines(got), shape=f"h{h}")

        # simplify
        got = list(Segment.simplify(list(segs)))
        same = stream(got) == stream(segs)
        finding = None
        if not same and [x[:2] for x in stream(got)] == [x[:2] for x in stream(segs)]:
            finding = "simplify-merges-control"
        ctx.check(same, "simplify", segs, "simplify changed the (character, style, control) stream", finding=finding)
        ctx.case("simplify", [eline, MERGE_CTL], enc.line(got), shape=f"n{len(segs)}", sample=f"simplify({segs!r})")
    for flag in (False, True):  # Segment.line(): a "\n" segment without style, text or control
        ln = Segment.line(flag) if flag else Segment.line()
        ctx.check(ln.text == "\n" and ln.style is None and bool(ln.is_control) == flag and ln.cell_length == 0, "Segment.line", flag, "Segment.line() is not the unstyled line-feed segment of 0 cells")
        ctx.case("seg_line", [enc_bool(flag)], enc.seg(ln))
    got = [list(l) for l in Segment.split_lines([Segment("a"), Segment.line(), Segment("b", styles[1]), Segment.line(True), Segment("c")])]
    ctx.check([[x.text for x in l] for l in got] == [["a"], ["b", "\n", "c"]], "Segment.line", got, "split_lines does not split at Segment.line() / splits at a control line segment")
    # ---- 4b. the same helpers over REAL Style objects, judged attribute by attribute (never Style.__eq__)
    _real_style_cases(ctx, Segment, ref)

    # ---- 5. style-level helpers on duck-typed styles (ids; add a b = 100a+b; falsy iff id == 0)
    class FS:
        __slots__ = ("id",)

        def __init__(self, i):
            self.id = i

        def __add__(self, other):
            return self if other is None else FS(100 * self.id + other.id)

        def __bool__(self):
            return self.id != 0

        def __eq__(self, other):
            return isinstance(other, FS) and other.id == self.id

        def __hash__(self):
            return hash(self.id)

        def update_link(self, link=None):
            return FS(self.id + 1000)

        @property
        def without_color(self):
            return FS(self.id + 2000)

        def __repr__(self):
            return f"FS({self.id})"

    def fenc(line):
        return "|".join(f"{enc_str(x.text)};{'-' if x.style is None else x.style.id};{enc_bool(x.is_control)}" for x in line)

    def tc(line):
        return [(x.text, bool(x.is_control)) for x in line]

    fstyles = [None, FS(0), FS(1), FS(2), FS(7)]
    n_fs = 6000 if ctx.quick else 120000
    for i in range(n_fs):
        segs = [Segment(rng.choice(texts), rng.choice(fstyles), rng.random() < 0.25) for _ in range(rng.randint(0, 4))]
        st, ps = rng.choice(fstyles[:1] + fstyles[1:]), rng.choice(fstyles)
        if rng.random() < 0.4:
            st = None
        if rng.random() < 0.4:
            ps = None
        got = list(Segment.apply_style(list(segs), st, ps))
        ok = tc(got) == tc(segs) and all(g.style is None for g in got if g.is_control and (st is not None or ps is not None))
        ctx.check(ok, "apply_style", (segs, st, ps), "apply_style changed a text / control flag, or styled a control segment")
        ctx.case("apply_style", [fenc(segs), "-" if st is None else st.id, "-" if ps is None else ps.id], fenc(got), shape=f"{st is not None}{ps is not None}", sample=f"apply_style({segs!r},{st!r},{ps!r})")
        for flag in (False, True):
            got = list(Segment.filter_control(list(segs), is_control=flag))
            ctx.check(got == [x for x in segs if bool(x.is_control) == flag], "filter_control", (segs, flag), "filter_control is not the ordered sub-list with that flag")
            ctx.case("filter_control", [fenc(segs), enc_bool(flag)], fenc(got))
        got = list(Segment.strip_styles(list(segs)))
        ctx.check(tc(got) == tc(segs) and all(g.style is None for g in got), "strip_styles", segs, "strip_styles changed text/control or kept a style")
        ctx.case("strip_styles", [fenc(segs)], fenc(got))
        got = list(Segment.strip_links(list(segs)))
        ctx.check(tc(got) == tc(segs), "strip_links", segs, "strip_links changed a text or control flag")
        ctx.case("strip_links", [fenc(segs)], fenc(got))
        got = list(Segment.remove_color(list(segs)))
        ctx.check(tc(got) == tc(segs), "remove_color", segs, "remove_color changed a text or control flag")
        ctx.case("remove_color", [fenc(segs)], fenc(got), sample=f"remove_color({segs!r})")
        lines = [[x for x in l] for l in Segment.split_lines([x for x in segs if not x.is_control])]
        w, h = Segment.get_shape(lines)
        ctx.check(h == len(lines) and all(sum(x.cell_length for x in l) <= w for l in lines) and (w == 0 or any(sum(x.cell_length for x in l) == w for l in lines)),
                  "get_shape", lines, "get_shape is not the enclosing rectangle")
        ctx.case("get_shape", [f"{len(lines)}#" + "/".join(fenc(l) for l in lines)], f"{w} {h}")
    ctx.flush()
    ctx.rule = (
        "all 1,114,112 code points (exhaustive) + every string <= %d over %r x sizes 0..12 / widths 1..6 x positions "
        "+ seeded random cell_len histories (1..14 calls, LRUCache capacity 1/2/3/4/8) over a pool of every string <= 3 plus "
        "strings of 63..200 characters of every width class (incl. ASCII control characters in plain ASCII text), 30%% of the calls a "
        "neighbour of an earlier call (the same text with U+3000 / tab / LF / CR / U+001C-1F / U+0085 / zero-width characters added or "
        "whitespace stripped at either end); segment texts include every character str.splitlines() breaks on besides LF "
        "+ seeded random segment lists (<=4 segments over %d texts, 4 styles, control flags) x length 0..8 x pad x style "
        "+ seeded random segment lists with duck-typed styles (5 style values) for apply_style / filter_control / strip_styles / "
        "strip_links / remove_color / get_shape; "
        "+ (round 4) chop_cells at widths 0..6 and positions 0..width+3 (beyond the width too); set_cell_size with negative totals; "
        "LRUCache op sequences against the real class: every sequence of <= %d operations over {c[k]=v, c[k], c.get(k)} x keys 0..2 "
        "+ len, capacity 1 and 2, then seeded random histories of 1..30 operations (all five kinds) at capacities -1..8; the "
        "cache content (order and values) after every cell_len history; get_line_length / make_control / Segment.control / "
        "Segment.line / bool(segment) / cell_length on the segment lists; "
        "+ (round-g follow-up) simplify / adjust_line_length / split_and_crop_lines / apply_style / strip_links / remove_color over "
        "REAL rich.style.Style objects from a pool of 30 (27 structurally distinct; pairs differing only in explicitly-False "
        "attributes, only in the set-mask, only in link, only in colour type: standard 1 / eight-bit 1 / truecolor; None vs Style() vs "
        "Style.null(); equal-but-distinct objects): every ordered pair on adjacent segments (x3 shapes) + seeded random lists of <= 5 "
        "segments; styles are compared and encoded by a structural key (attribute tri-states, colour (type, number, triplet), bgcolor, "
        "link), never by Style.__eq__ / hash / str; "
        "distinct = distinct canonical requests" % (maxlen, ALPHA, len(texts), 4 if ctx.quick else 5)
    )


def replay(ctx, case):
    print("site:", case.get("site"))
    print("input:", case.get("input"))
    print("what:", case.get("what"))
    print("re-run `./check C13` to re-evaluate (the generators are seeded: VERIF_SEED=%s)" % case.get("seed"))
    return False

MANIFEST = {
    "text": "Lean 4 theorems (Props/C13.lean, 37, no bound on string length, table size, cache history or segment list): "
    "binary search = first-match linear scan for every code point given the sortedDisjoint side condition, which is "
    "re-proved by `decide +kernel` on the table translated from rich/_cell_widths.py on every run; cache transparency for "
    "every capacity and call history; set_cell_size exactness (and, round 4, for every integer total: the empty string when "
    "negative); chop_cells concatenation/fit; round 4: chop_cells for EVERY width and starting position (no p <= m, no "
    "m >= 2): first piece empty or position + its width <= width, later pieces non-empty and fitting unless a single "
    "too-wide character, greedy maximality, and uniqueness (these clauses determine the output: chop_cells_unique); "
    "round 4: rich/_lru_cache.py LRUCache as a state machine over __setitem__ / __getitem__ / get / in / len with KeyError "
    "branches, refined for every capacity >= 1 and every operation history to a plain association list that never evicts, "
    "observed through its `cap` most recent keys (lru_refines_plain_map, _from), whose lookup is the Function.update map of "
    "the history; corollaries len <= capacity, distinct keys, a hit is never stale; capacity 0 raises KeyError on every "
    "store; the Cache model under cell_len is that machine's get/__setitem__ (capacity >= 1); "
    "adjust_line_length / split_and_crop_lines / set_shape exact lengths, stream preservation and padding style; "
    "simplify stream preservation; make_control / Segment.line measure 0 cells; "
    "the style-level helpers: apply_style keeps texts, control flags and cell length and leaves control segments unstyled, "
    "strip_styles / strip_links / remove_color keep texts and control flags, filter_control is the ordered sub-list with the "
    "flag and dropping control segments keeps the cell length, get_shape is an enclosing rectangle; two `old_` witnesses for "
    "the two repaired defects. "
    "Tie: all 1,114,112 code points and ~360k further generated cases per quick run compared model-vs-rich (26 driver entry "
    "points; recorded quick run, seed 3: 1,475,480 compared, 0 mismatches, 0 unmodelled, ~24 s wall), plus the theorems' "
    "executable statements evaluated on rich's own outputs (657,994 direct evaluations: every clause of chop_cells_first_piece on ~104k "
    "chop_cells calls incl. positions beyond the width and width 0/1; ~24.5k LRUCache histories judged after every operation "
    "against an independent plain-dict-plus-recency oracle). LRUCache sequences: bounded-exhaustive <= 4 ops (quick) / <= 5 "
    "(thorough) over 10 operations x capacity 1, 2 (22,222 / 222,222 histories), then 2,000 / 40,000 seeded random histories. "
    "Round-g follow-up: the style-carrying helpers are also run over REAL Style objects (pool of 30 incl. pairs differing only "
    "in explicitly-False attributes / set-mask / link / colour type, None vs Style() vs Style.null()): all 900 ordered pairs x 3 "
    "segment shapes through simplify plus 4,000 (quick) / 60,000 (thorough) seeded lists through simplify, adjust_line_length, "
    "split_and_crop_lines (model-compared with structural style ids and judged per character) and apply_style, strip_links, "
    "remove_color (judged against Style.__add__ / update_link / without_color recomputed on structural keys); style identity "
    "there is a structural key of the harness's own, never Style.__eq__. "
    "Thorough otherwise as before: strings <= 7 plus 3,000 random strings of 8..80 characters, 6,000 cache histories, 250,000 "
    "segment lists, 120,000 style-helper segment lists.",
    "note": "Trusted: Lean kernel; axioms propext/Classical.choice/Quot.sound; translator harness/tables.py; the correspondence "
    "harness; styles are opaque ids in the segment model; lone surrogates go through the raw code-point path only. "
    "functools.lru_cache on _get_codepoint_cell_size is still assumed transparent (a pure function of one int; exercised by the "
    "exhaustive sweep, not modelled). LRUCache: only the two overridden methods and the inherited get / in / len are modelled; "
    "the other inherited OrderedDict mutators (del, pop, popitem, update, setdefault, move_to_end, clear) are not, and the "
    "refinement to 'plain map restricted to the most recent keys' is false once `del` is allowed (a deletion would resurrect "
    "an evicted key in the view). cache_size <= 0 is modelled as 0. The pre-existing `Cache.set` stores at capacity 0 where "
    "Python raises KeyError (cell_len_cache_is_lru is stated for capacity >= 1 or a non-empty cache; the harness drives "
    "cell_len histories at capacities 1..8 only, and capacity 0 / -1 through the new lru_ops entry, which raises). "
    "Variant flags: REBIND = 0, MERGE_CTL = 0 (the repaired code; 1 = rich 9.10.0 as found, before fix b83f6d1 / b97fe77). "
    "No `known:` finding is recorded for C13, so the check prints no KNOWN-FINDING line; the slugs splitcrop-pad-style-rebound "
    "and simplify-merges-control only classify a failure of those two statements, which is a VIOLATION on the repaired code. "
    "For the style-level helpers Style.__add__ / __bool__ / update_link / without_color are parameters of the model, "
    "instantiated by duck-typed style objects in the harness (real Style objects are used for the line-shaping cases). "
    "The older line-shaping cases (4 real styles) and their Enc still identify styles by the library's own ==; only the "
    "real-style class added after the round-g miss (Style.__eq__ without its _set_attributes clause, unnoticed then) is "
    "independent of Style.__eq__/__hash__. "
    "adjust_line_length / set_shape with a negative length are outside the driven domain (lengths are naturals in the model).",
    "design_ref": "DESIGN.md section 7, C13",
}
