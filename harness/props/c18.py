"""C18 — colour down-conversion stays in gamut, is idempotent and picks the nearest entry.

Correspondence: Lean model (Model/Color.lean over the palettes translated by harness/gen/palettes.py)
vs rich.color.Color.downgrade / get_ansi_codes / get_truecolor (default and custom TerminalTheme objects),
rich.palette.Palette.match / __getitem__, ColorTriplet.hex, parse_rgb_hex and blend_rgb, in-process.  Direct evaluation (DESIGN 3d): the executable statements of the theorems in
Props/C18.lean on rich's own outputs, with the oracle of harness/lib_color.py (independent of the model).
"""
import itertools
import multiprocessing
from math import sqrt

import lib_color as L
from core import enc_bool

PROPERTY = "C18"

# CODE VARIANT FLAGS  (value = what /repo does now: the defect is repaired; see Cfg in lean/RichModel/Model/Color.lean)
# 1: rich 9.10.0 as found: downgrade(STANDARD) sends 16-colour WINDOWS / EIGHT_BIT numbers < 16 through EIGHT_BIT_PALETTE and the
#    palette search (renumbering 8->7, 9->1, 10->2, 12->4);  0: repaired (fix 2cec9e1 = pending_fixes/C18-*.diff): numbers < 16 kept.
STD_VIA_PALETTE = 0

NPROC = 16
MAX_RADICAND = 700000  # > the largest integer get_color_distance takes the square root of (proved: dist2_le, 649,740)


def _pool():
    return multiprocessing.get_context("fork").Pool(NPROC)


def _chunks(lst, n):
    for i in range(0, len(lst), n):
        yield lst[i : i + n]


def _fail(ctx, failures):
    for site, inp, what, finding in failures:
        ctx.check(False, site, inp, what, finding=finding)


def _full_api(ctx, orc, c, tag):
    """every observed entry point on one colour object, correspondence + direct evaluation."""
    from rich.color import Color, ColorSystem

    fields = L.color_fields(c)
    good = L.wf(c)
    ctx.note(f"colour:{tag}:type{int(c.type)}:{'wf' if good else 'illformed'}")
    systems = list(L.SYSTEMS)
    ctx.rng.shuffle(systems)  # call order varies: the LRU caches must not care
    for s in systems:
        sysm = ColorSystem(s)
        ans, res = L.call(lambda: c.downgrade(sysm), L.enc_color)
        ctx.case("color.downgrade", [STD_VIA_PALETTE] + fields + [s], ans, shape=f"type{int(c.type)}->sys{s}:{ans[:3]}", sample=f"{c!r}.downgrade({sysm!r})")
        # the cached and the uncached function agree
        ans2, _ = L.call(lambda: L.unwrap(Color.downgrade)(c, sysm), L.enc_color)
        ctx.check(ans == ans2, "downgrade:lru_cache", (L.color_key(c), s), f"cached answer {ans} differs from a fresh computation {ans2}")
        if good:
            ctx.check(res is not None, "downgrade:raises", (L.color_key(c), s), f"downgrade raised {ans} on a well-formed colour")
            if res is not None:
                again = res.downgrade(sysm)
                fs = orc.evaluate(c, s, res, again)
                ctx.note("prop:downgrade(indexed/default)")
                _fail(ctx, [(site, (L.color_key(c), s), what, finding) for site, what, finding in fs])
                for fg in (True, False):
                    fs = orc.evaluate_codes(res, fg, res.get_ansi_codes(foreground=fg))
                    ctx.check(not fs, "get_ansi_codes", (L.color_key(res), fg), fs[0][1] if fs else "ok")
    # Color.system / is_system_defined / is_default (and the name field through every answer above)
    ans, pr = L.call(lambda: (int(c.system), bool(c.is_system_defined), bool(c.is_default)), lambda t: "%d %d %d" % t)
    ctx.case("color.props", fields, ans, shape=f"type{int(c.type)}:{ans}")
    ty = int(c.type)
    ctx.check(pr == ((1 if ty == 0 else ty), ty in (0, 1, 4), ty == 0), "Color.system/is_system_defined/is_default", L.color_key(c), f"got {ans} for a colour of type {ty}")
    for fg in (True, False):
        ans, codes = L.call(lambda: c.get_ansi_codes(foreground=fg), lambda t: ",".join(t))
        ctx.case("color.ansi", fields + [enc_bool(fg)], ans, shape=f"type{int(c.type)}:{ans[:3]}", sample=f"{c!r}.get_ansi_codes(foreground={fg})")
        if good:
            ok = codes is not None and all(isinstance(x, str) for x in codes) and not orc.evaluate_codes(c, fg, codes)
            ctx.check(ok, "get_ansi_codes", (L.color_key(c), fg), f"codes {codes!r}, the standard ones are {L.sgr_spec(c, fg)!r}")
        ans, _ = L.call(lambda: c.get_truecolor(foreground=fg), L.enc_triplet)
        ctx.case("color.truecolor", fields + [enc_bool(fg)], ans, shape=f"type{int(c.type)}:{ans[:3]}")


def _boundary_points(rng, pal, n_pairs):
    """colours next to a decision boundary of the palette search: bisect the segment between two colours with
    different nearest entries until the two ends are lattice neighbours (where a perturbed metric shows first)."""
    pts = []
    for _ in range(n_pairs):
        a = (rng.randrange(256), rng.randrange(256), rng.randrange(256))
        b = rng.choice(pal) if rng.random() < 0.3 else (rng.randrange(256), rng.randrange(256), rng.randrange(256))
        na, nb = L.nearest(pal, a), L.nearest(pal, b)
        if na == nb:
            pts.append(a)
            continue
        lo, hi = 0.0, 1.0

        def at(t):
            return tuple(int(round(a[i] + t * (b[i] - a[i]))) for i in range(3))

        for _ in range(12):
            mid = (lo + hi) / 2
            if L.nearest(pal, at(mid)) == na:
                lo = mid
            else:
                hi = mid
        pts.append(at(lo))
        pts.append(at(hi))
    return pts


def _segment_points(pal):
    """all lattice points on the segments between palette entries (exact ties live on these)."""
    pts = set()
    for p, q in itertools.combinations(pal, 2):
        steps = max(abs(p[i] - q[i]) for i in range(3))
        for k in range(steps + 1):
            pts.add(tuple((p[i] * (steps - k) + q[i] * k) // steps for i in range(3)))
            pts.add(tuple(-((-(p[i] * (steps - k) + q[i] * k)) // steps) for i in range(3)))
    return sorted(pts)


def run(ctx):
    from colorsys import rgb_to_hls

    from rich._palettes import EIGHT_BIT_PALETTE, STANDARD_PALETTE, WINDOWS_PALETTE
    from rich.color import ANSI_COLOR_NAMES, Color, ColorSystem, ColorType
    from rich.color_triplet import ColorTriplet
    from rich.terminal_theme import DEFAULT_TERMINAL_THEME

    rng = ctx.rng
    orc = L.oracle()
    ctx.assumptions += [
        "IEEE doubles: c/255.0, colorsys.rgb_to_hls and round() are modelled by exact rational arithmetic; the saturation "
        "test s < 0.1 additionally by the 9 tabulated (max,min) pairs where the double result falls below 0.1 at an exact tie; "
        "validated exhaustively on every run over all 32,896 (max,min) pairs and all 256 channel values (and over all 2^24 colours "
        "in the thorough tier)",
        "math.sqrt is strictly increasing on 0..700,000 (every radicand of get_color_distance is <= 649,740): checked exhaustively each run, "
        "so the argmin over sqrt(d2) is the argmin over the integer d2",
        "functools.lru_cache on Color.downgrade / get_ansi_codes / Palette.match is transparent (answers of the cached function and of the function behind the cache - getattr(f, '__wrapped__', f) - compared, not modelled)",
        "blend_rgb: the dyadic model (cross_fade = k/2^n) is kept; since deepening 4 blend_rgb is also modelled in IEEE-754 binary64 (round-to-nearest-even to 53 bits after the "
        "multiplication and after the addition, int() truncates, int(inf)/int(nan) raise) for every float with 2^-900 <= |x| <= 2^900, 0, inf, nan; floats outside that exponent range "
        "(subnormal / overflowing products) answer `unmodelled`. Assumed: CPython float arithmetic is IEEE binary64 with round-to-nearest-even and no double rounding (compared on every run)",
        "parse_rgb_hex: the ASCII model is kept (color.parse_hex answers `unmodelled` on non-ASCII); since deepening 4 parseRgbHexU models int(s, 16) on any code points through the runtime tables "
        "Gen.strDecimalRuns / Gen.strWhitespace (str_tables.py, from the running Python), validated here on every code point; lone surrogates are outside Lean's Char and are not generated",
        "colour numbers / components are naturals; negative numbers and components above 255 answer `unmodelled`",
    ]

    # ---- 0. runtime facts the model rests on
    prev = -1.0
    for n in range(MAX_RADICAND + 1):
        s = sqrt(n)
        if not s > prev:
            raise RuntimeError(f"math.sqrt is not strictly increasing at {n}: the integer model of Palette.match is unjustified")
        prev = s
    for M in range(256):
        for m in range(M + 1):
            r, g, b = ColorTriplet(M, m, m).normalized
            _h, l, s = rgb_to_hls(r, g, b)
            ctx.case("color.satgray", [M, m], f"{int(s < 0.1)} {round(l * 25.0)}", shape=("grey" if s < 0.1 else "cube"))
    for c in range(256):
        ctx.case("color.cube", [c], round(ColorTriplet(c, c, c).normalized[0] * 5.0))
    ctx.flush()

    # ---- 1. palettes: __getitem__ on every index (and just outside), match on the entries themselves
    pals = {"s": STANDARD_PALETTE, "w": WINDOWS_PALETTE, "e": EIGHT_BIT_PALETTE, "t": DEFAULT_TERMINAL_THEME.ansi_colors}
    for key, pal in pals.items():
        n = len(pal._colors)
        for i in list(range(n)) + [n, n + 1, 300]:
            ans, _ = L.call(lambda: pal[i], L.enc_triplet)
            ctx.case("color.palget", [key, i], ans, shape=ans[:3])
        rawp = L.raw(pal)
        ctx.check(all(len(t) == 3 and all(isinstance(x, int) and 0 <= x <= 255 for x in t) for t in rawp), "palette-data", key, "palette entry outside 0..255")
    ctx.check(len(orc.std) == 16 and len(orc.win) == 16 and len(orc.eight) == 256, "palette-data", None, "palette sizes are not 16/16/256")

    # ---- 2. every indexed colour, default, constructors, ill-formed colours: the whole API
    seen = set()

    def api(c, tag):
        k = L.color_key(c)
        if k in seen:
            return
        seen.add(k)
        _full_api(ctx, orc, c, tag)

    api(Color.default(), "ctor")
    api(Color.parse("default"), "ctor")
    for name in ANSI_COLOR_NAMES:
        api(Color.parse(name), "ctor")
    for n in range(256):
        api(Color.from_ansi(n), "ctor")
        api(Color.parse(f"color({n})"), "ctor")
        for ty in (ColorType.STANDARD, ColorType.WINDOWS, ColorType.EIGHT_BIT):
            api(Color("n", ty, n), "raw")  # includes ill-typed numbers (STANDARD 200): constructible, so modelled
    for ty in ColorType:
        api(Color("x", ty), "raw")  # no number, no triplet
        api(Color("é x", ty, 7, ColorTriplet(1, 2, 3)), "raw")  # both
        for n in (15, 16, 255, 256, 257, 1000):
            api(Color("", ty, n), "raw")
        api(Color("t", ty, None, ColorTriplet(200, 100, 0)), "raw")
    # outside the modelled domain (counted as unmodelled, never compared)
    for c in (Color("neg", ColorType.EIGHT_BIT, -1), Color("big", ColorType.TRUECOLOR, None, ColorTriplet(256, 0, 0))):
        for s in L.SYSTEMS:
            ans, _ = L.call(lambda: c.downgrade(ColorSystem(s)), L.enc_color)
            ctx.case("color.downgrade", [STD_VIA_PALETTE] + L.color_fields(c) + [s], ans, shape="outside-domain")
    for t in [(0, 0, 0), (255, 255, 255), (1, 2, 3), (255, 0, 0), (128, 128, 128), (12, 12, 12), (95, 135, 175)]:
        api(Color.from_triplet(ColorTriplet(*t)), "ctor")
        api(Color.from_rgb(*t), "ctor")
        api(Color.parse("#%02x%02x%02x" % t), "ctor")
        api(Color.parse("rgb(%d,%d,%d)" % t), "ctor")
    ctx.flush()

    # ---- 3. truecolor colours in bulk (real rich runs in a pool; inputs are generated here, from ctx.rng)
    all4, only256, only16 = [], [], []
    # 3a. all (max, min) channel pairs, in every arrangement of (M, m, m), (M, M, m), (M, x, m)
    for M in range(256):
        for m in range(M + 1):
            x = rng.randint(m, M)
            arr = set(itertools.permutations((M, m, m)))  # max and min in every position
            arr.add(rng.choice(list(itertools.permutations((M, M, m)))))
            perm_x = list(itertools.permutations((M, x, m)))
            chosen = rng.choice(perm_x)
            all4.append(chosen)
            if not ctx.quick:
                arr |= set(itertools.permutations((M, M, m))) | set(perm_x)
            else:
                arr |= set(rng.sample(perm_x, 2))
            for t in sorted(arr):
                if t != chosen:
                    only256.append(t)
    ctx.note("gen:pairs(max,min)", 32896)
    # 3b. greys and near-greys
    for v in range(256):
        all4.append((v, v, v))
        for d in (1, 2):
            t = [v, v, v]
            t[rng.randrange(3)] = min(255, v + d)
            all4.append(tuple(t))
    # 3c. seeded random colours
    n_rand = 30000 if ctx.quick else 400000
    for _ in range(n_rand):
        all4.append((rng.randrange(256), rng.randrange(256), rng.randrange(256)))
    # 3d. colours at the decision boundaries of the two palette searches, and on the segments between entries
    n_b = 6000 if ctx.quick else 60000
    for pal in (orc.std, orc.win):
        only16 += _boundary_points(rng, pal, n_b)
        only16 += _segment_points(pal)
    ctx.note("gen:boundary+segment points", len(only16))
    # 3e. around every cube rounding threshold in each channel against random others
    for thr in (25, 26, 76, 77, 127, 128, 178, 179, 229, 230, 0, 255):
        for pos in range(3):
            for _ in range(40):
                t = [rng.randrange(256), rng.randrange(256), rng.randrange(256)]
                t[pos] = thr
                all4.append(tuple(t))

    jobs = []
    for lst, systems in ((all4, (1, 2, 3, 4)), (only256, (2,)), (only16, (1, 4))):
        for ch in _chunks(lst, 4000):
            jobs.append((ch, systems, False))
    with _pool() as pool:
        results = pool.map(work_triplets_entry, jobs, chunksize=1)
    for (triplets, systems, _w), (answers, failures, n_ev) in zip(jobs, results):
        ctx.note("prop:downgrade(truecolor)", n_ev)
        _fail(ctx, failures)
        for t, row in zip(triplets, answers):
            name = L.enc_str("#%02x%02x%02x" % t)
            tri = "%d,%d,%d" % t
            mx, mn = max(t), min(t)
            for s, ans in zip(systems, row):
                shape = None
                if s == 2:
                    num = ans.split("|")[1] if ans.startswith("ok") else "err"
                    shape = "sys2:" + ("black16" if num == "16" else "white231" if num == "231" and mx - mn < 26 else "ramp" if num.isdigit() and int(num) >= 232 else "cube")
                ctx.case("color.downgrade", [STD_VIA_PALETTE, name, 3, "-", tri, s], ans, shape=shape, sample=f"Color.from_triplet({t}).downgrade({s})" if rng.random() < 0.001 else None)
    ctx.flush()

    # ---- 4. Palette.match itself (cached entry point and the function under the cache) on all four palettes
    m_pts = [(rng.randrange(256), rng.randrange(256), rng.randrange(256)) for _ in range(3000 if ctx.quick else 30000)]
    m_pts += rng.sample(only16, min(len(only16), 3000))
    for key, pal in pals.items():
        rawp = L.raw(pal)
        match_raw = L.unwrap(type(pal).match)
        pts = m_pts if key != "e" else m_pts[:600]  # 256 distances per call
        for t in pts + rawp[:16]:
            got = pal.match(t)
            got2 = match_raw(pal, ColorTriplet(*t))
            want = L.nearest(rawp, t)
            ctx.check(got == want and got2 == want, "Palette.match", (key, t), f"match gave {got} / uncached {got2}, the first entry of minimum distance is {want}")
            ctx.case("color.match", [key, "%d,%d,%d" % t], f"ok {got}", shape=key)
    ctx.flush()

    # ---- 5. whole blue-rows of the RGB cube without the LRU; every row (all 2^24 colours) in the thorough tier
    if ctx.quick:
        rows = sorted({(rng.randrange(256), rng.randrange(256)) for _ in range(64)} | {(0, 0), (255, 255), (128, 128)})
    else:
        rows = [(r, g) for r in range(256) for g in range(256)]
    bjobs = [(r, g, (1, 2, 4)) for r, g in rows]
    with _pool() as pool:
        for r, g, out, failures, n_ev in pool.imap(work_block_entry, bjobs, chunksize=16):
            ctx.note("prop:downgrade(truecolor,uncached)", n_ev)
            _fail(ctx, failures)
            for s, line in out.items():
                ctx.case("color.dg_block", [STD_VIA_PALETTE, r, g, s], line, shape=f"sys{s}")
    ctx.flush()
    if not ctx.quick:
        ctx.exhaustive = True
        ctx.note("exhaustive:all 2^24 RGB x {standard,256,windows}", 3 * 2**24)

    # ---- 6. get_truecolor under custom terminal themes (TerminalTheme.__init__: normal + (bright or normal))
    from rich.terminal_theme import TerminalTheme

    def rt():
        return (rng.randrange(256), rng.randrange(256), rng.randrange(256))

    def enc_list(l):
        return "-" if l is None else "%d:%s" % (len(l), "|".join("%d,%d,%d" % t for t in l))

    probe = [Color.default(), Color("d", ColorType.DEFAULT, 3), Color("x", ColorType.STANDARD), Color("t", ColorType.TRUECOLOR)]
    probe += [Color("s", ColorType.STANDARD, n) for n in list(range(16)) + [16, 17, 40]]
    probe += [Color("w", ColorType.WINDOWS, n) for n in (0, 7, 8, 15, 16)]
    probe += [Color("e", ColorType.EIGHT_BIT, n) for n in (0, 15, 16, 231, 232, 255, 256)]
    probe += [Color.from_triplet(ColorTriplet(*rt())) for _ in range(3)]
    n_themes = 120 if ctx.quick else 3000
    for i in range(n_themes):
        bg, fgc = rt(), rt()
        nn = rng.choice([8, 8, 8, 8, 8, 0, 1, 7, 9, 16])
        normal = [rt() for _ in range(nn)]
        kind = rng.choice(["none", "empty", "8", "8", "8", "short", "long"])
        bright = None if kind == "none" else [] if kind == "empty" else [rt() for _ in range(8 if kind == "8" else rng.randint(1, 7) if kind == "short" else rng.randint(9, 12))]
        theme = TerminalTheme(bg, fgc, list(normal), None if bright is None else list(bright))
        ansi = normal + (bright if bright else normal)  # documented: bright=None repeats the normal colours
        ctx.note(f"theme:normal{nn}:bright-{kind}")
        ctx.check(tuple(theme.background_color) == bg and tuple(theme.foreground_color) == fgc and L.raw(theme.ansi_colors) == ansi, "TerminalTheme", (bg, fgc, normal, bright), "theme does not hold background, foreground and normal + (bright or normal)")
        for c in probe:
            for fg in (True, False):
                ans, got = L.call(lambda: c.get_truecolor(theme, foreground=fg), L.enc_triplet)
                ctx.case("color.truecolor_theme", ["%d,%d,%d" % bg, "%d,%d,%d" % fgc, enc_list(normal), enc_list(bright)] + L.color_fields(c) + [enc_bool(fg)], ans, shape=f"type{int(c.type)}:{ans[:3]}", sample=f"{c!r}.get_truecolor(TerminalTheme({bg},{fgc},<{nn} normal>,<{kind}>), foreground={fg})")
                if L.wf(c):
                    ty = int(c.type)
                    table = {1: ansi, 2: orc.eight, 4: orc.win}.get(ty)
                    want = tuple(c.triplet) if ty == 3 else (fgc if fg else bg) if ty == 0 else (table[c.number] if c.number < len(table) else None)
                    if want is not None:
                        ctx.check(got is not None and tuple(got) == want, "get_truecolor", (L.color_key(c), fg, bg, fgc, normal, bright), f"get_truecolor gave {ans}, the specified colour is {want}")
    ctx.flush()

    # ---- 7. ColorTriplet.hex, parse_rgb_hex, blend_rgb
    from rich.color import blend_rgb, parse_rgb_hex

    hex_ts = [(v, 255 - v, (v * 7) % 256) for v in range(256)] + [rt() for _ in range(1500 if ctx.quick else 30000)]
    for t in hex_ts:
        hx = ColorTriplet(*t).hex
        ctx.case("color.hex", ["%d,%d,%d" % t], L.enc_str(hx), shape="hex")
        ans, back = L.call(lambda: parse_rgb_hex(hx[1:]), L.enc_triplet)
        ctx.check(back is not None and tuple(back) == t and len(hx) == 7 and hx[0] == "#", "parse_rgb_hex(hex)", t, f"parse_rgb_hex({hx[1:]!r}) gave {ans}")
        ctx.check(hx == "#" + "".join("0123456789abcdef"[v >> 4] + "0123456789abcdef"[v & 15] for v in t), "ColorTriplet.hex", t, f"hex gave {hx!r}, not the CSS form #rrggbb in lower case")
        ctx.case("color.parse_hex", [L.enc_str(hx[1:])], ans, shape="roundtrip")
        ans, _ = L.call(lambda: parse_rgb_hex(hx[1:].upper()), L.enc_triplet)
        ctx.case("color.parse_hex", [L.enc_str(hx[1:].upper())], ans, shape="upper")
    for a in range(128):  # every two-character ASCII string in one of the three positions (int(.., 16) accepts more than hex digits)
        for b in range(128):
            pos = rng.randrange(3)
            parts = ["%02x" % rng.randrange(256) for _ in range(3)]
            parts[pos] = chr(a) + chr(b)
            sx = "".join(parts)
            ans, got = L.call(lambda: parse_rgb_hex(sx), L.enc_triplet)
            ctx.case("color.parse_hex", [L.enc_str(sx)], ans, shape="pair:" + ans[:3], sample=f"parse_rgb_hex({sx!r})" if rng.random() < 0.01 else None)
    for sx in ["", "f", "fffff", "fffffff", "ffffffff", "#ff8700", "ff 87 00", "fé0000", "٣٣0000"]:
        ans, _ = L.call(lambda: parse_rgb_hex(sx), L.enc_triplet)
        ctx.check(len(sx) == 6 or ans == "err:AssertionError", "parse_rgb_hex", sx, f"length {len(sx)} gave {ans}")
        ctx.case("color.parse_hex", [L.enc_str(sx)], ans, shape="len%d" % len(sx))

    def blend_case(t1, t2, k, n):
        cf = k / 2**n  # exact
        ans, got = L.call(lambda: blend_rgb(ColorTriplet(*t1), ColorTriplet(*t2), cf), L.enc_triplet)
        ctx.case("color.blend", ["%d,%d,%d" % t1, "%d,%d,%d" % t2, k, n], ans[3:] if ans.startswith("ok ") else ans, shape=("in01" if 0 <= k <= 2**n else "outside"), sample=f"blend_rgb({t1},{t2},{k}/2^{n})" if rng.random() < 0.002 else None)
        if got is not None and 0 <= k <= 2**n:
            ok = all(isinstance(x, int) and min(p, q) <= x <= max(p, q) for x, p, q in zip(got, t1, t2))
            ok = ok and (k != 0 or tuple(got) == t1) and (k != 2**n or tuple(got) == t2)
            # integer part of the exact blend (int() truncates): p + (q-p)*k/2^n >= 0 here, so floor division is truncation
            ok = ok and tuple(got) == tuple((p * 2**n + (q - p) * k) // 2**n for p, q in zip(t1, t2))
            ctx.check(ok, "blend_rgb", (t1, t2, k, n), f"blend gave {tuple(got)}: not the integer part of the exact blend / not between its arguments / not an end point at cross_fade 0 or 1")

    for a in range(256):  # cross_fade 0.5 (Style's dim-on-background blend) on every pair of channel values
        for b in range(256):
            blend_case((a, b, a), (b, a, 255 - b), 1, 1)
    for _ in range(8000 if ctx.quick else 200000):
        n = rng.randrange(0, 13)
        k = rng.choice([0, 2**n, rng.randint(0, 2**n), rng.randint(0, 2**n), rng.randint(-(2**n), 2 * 2**n)])
        blend_case(rt(), rt(), k, n)
    ctx.flush()

    _deepen4(ctx, orc, hex_ts)

    ctx.rule = (
        "exhaustive: all 32,896 (max,min) channel pairs (float facts directly, and through Color.downgrade in every channel arrangement), "
        "all 256 channel values, every index of the four palettes, all 256 numbers x {STANDARD, EIGHT_BIT, WINDOWS} + default + ill-formed "
        "colours x 4 target systems x fg/bg through downgrade / get_ansi_codes / get_truecolor; seeded: %d random RGB, %d colours at palette "
        "decision boundaries and on segments between palette entries, cube rounding thresholds; %d whole blue-rows (x 3 systems, 256 colours each) "
        "uncached%s; get_truecolor under seeded custom TerminalThemes (normal/bright of every length class) x 38 probe colours x fg/bg; ColorTriplet.hex / "
        "parse_rgb_hex on every two-character ASCII string in a component position; blend_rgb at cross_fade 1/2 on all 65,536 channel pairs + seeded dyadic "
        "cross-fades. Deepening 4: the exact-vs-double saturation decision on all 32,896 pairs (exact HLS in Fractions vs colorsys), blend_rgb in doubles at k/100 and k/255 on every (difference, k) whose exact "
        "blend is an integer (the only inputs where the double result can differ from the exact one; all start values in the thorough tier, 2 seeded per pair in quick) + seeded fractional ones, "
        "special floats (0.0, -0.0, 1.0, inf, -inf, nan, tiny, huge) and 12k seeded random floats; int(s, 16) on blocks of 256 code points in both positions of a component (every block that holds a "
        "digit / space / numeric character with 7 partner characters, all other blocks below U+30000, a seeded tenth of the rest in quick, all in thorough), 4k seeded mixed ASCII/Unicode strings through "
        "parse_rgb_hex; ColorTriplet.rgb / normalized; Color.system / is_system_defined / is_default on every colour of the API sweep. Direct evaluation also pins the documented 256-colour mapping (grey test at 10%% saturation, grey ramp step, nearest cube level) with an "
        "exact-arithmetic oracle. distinct = distinct canonical requests (a dg_block request stands for 256 colours)."
        % (n_rand, len(only16), len(rows), "" if ctx.quick else " = all 16,777,216 RGB colours")
    )


def _enc_float(cf):
    """wire form of a Python float: `f num sh` = num / 2^sh exactly (float.as_integer_ratio), or inf / -inf / nan"""
    if cf != cf:
        return ["nan", 0, 0]
    if cf in (float("inf"), float("-inf")):
        return ["inf" if cf > 0 else "-inf", 0, 0]
    n, d = cf.as_integer_ratio()
    return ["f", n, d.bit_length() - 1]


def _deepen4(ctx, orc, hex_ts):
    """fourth deepening: the saturation decision against exact arithmetic on every (max, min) pair; blend_rgb in doubles for
    k/100, k/255 and arbitrary floats; parse_rgb_hex / int(.., 16) on every code point; ColorTriplet.rgb / normalized."""
    import unicodedata
    from colorsys import rgb_to_hls
    from fractions import Fraction

    from rich.color import blend_rgb, parse_rgb_hex
    from rich.color_triplet import ColorTriplet

    rng = ctx.rng

    # ---- 8. satLow_eq_rat_iff / satLow_at_exception on real colorsys: all 32,896 pairs, exact HLS in Fractions
    n_exc = 0
    for M in range(256):
        for m in range(M + 1):
            r, g, b = ColorTriplet(M, m, m).normalized
            fl = rgb_to_hls(r, g, b)[2] < 0.1
            if M == m:
                exact = True
            else:
                fM, fm = Fraction(M, 255), Fraction(m, 255)
                l = (fM + fm) / 2
                sat = (fM - fm) / (fM + fm) if l <= Fraction(1, 2) else (fM - fm) / (2 - fM - fm)
                exact = sat < Fraction(1, 10)
            listed = (M, m) in L.FLOAT_TIE_GREYS
            n_exc += fl != exact
            ctx.case("color.satrat", [M, m], "%d %d" % (exact, fl != exact), shape="exc" if fl != exact else "agree")
            ctx.check((fl == exact) == (not listed) and (not listed or (fl and not exact)), "saturation:float-vs-exact", (M, m),
                      f"colorsys says s<0.1 is {fl}, exact arithmetic {exact}, pair listed as float exception: {listed}")
    ctx.note("sat:pairs where the double decision differs from the exact one", n_exc)
    ctx.flush()

    # ---- 9. blend_rgb in doubles
    def blend_call(t1, t2, cf, shape):
        ans, got = L.call(lambda: blend_rgb(ColorTriplet(*t1), ColorTriplet(*t2), cf), L.enc_triplet)
        ctx.case("color.blendf", ["%d,%d,%d" % t1, "%d,%d,%d" % t2] + _enc_float(cf), ans, shape=shape + ":" + ans[:3] + (":" + ans.split(":")[-1] if ans.startswith("err") else ""),
                 sample=f"blend_rgb({t1},{t2},{cf!r})" if rng.random() < 0.002 else None)
        return got

    def frac_eval(t1, t2, k, den, got):
        """real result vs the exact rational blend with cross_fade = k/den: equal, except that where the exact value is an
        integer the double computation may land just below it (k/den is not a double)."""
        for p, q, x in zip(t1, t2, got):
            num = p * den + (q - p) * k
            ex = num // den  # values are >= 0 for 0 <= k <= den
            integral = num % den == 0
            ok = x == ex or (integral and x == ex - 1)
            ctx.note("blend:k/%d:%s" % (den, "exact-integer:below" if x != ex else "exact-integer:same" if integral else "fractional"))
            ctx.check(ok and min(p, q) <= x <= max(p, q), "blend_rgb:float-vs-exact", (t1, t2, k, den),
                      f"channel {p}->{q} at {k}/{den} gave {x}; the exact blend is {Fraction(num, den)}")

    for den in (100, 255):
        for k in range(den + 1):
            ds = [d for d in range(-255, 256) if d != 0 and (d * k) % den == 0]  # the inputs that could differ
            if not ctx.quick:
                trip = [(c1, c1 + d) for d in ds for c1 in range(256) if 0 <= c1 + d <= 255]
            else:
                trip = []
                for d in ds:
                    for _ in range(2):
                        c1 = rng.randint(max(0, -d), min(255, 255 - d))
                        trip.append((c1, c1 + d))
            for _ in range(12 if ctx.quick else 200):  # and the others: fractional exact values
                trip.append((rng.randrange(256), rng.randrange(256)))
            while len(trip) % 3:
                trip.append((rng.randrange(256), rng.randrange(256)))
            for i in range(0, len(trip), 3):
                t1 = tuple(x[0] for x in trip[i:i + 3])
                t2 = tuple(x[1] for x in trip[i:i + 3])
                got = blend_call(t1, t2, k / den, "k/%d" % den)
                if got is not None:
                    frac_eval(t1, t2, k, den, got)
                else:
                    ctx.check(False, "blend_rgb:float-vs-exact", (t1, t2, k, den), "blend_rgb raised on a cross-fade in [0, 1]")
    specials = [0.0, -0.0, 1.0, 0.5, 1e-300, -1e-300, 1e300, 5e-324, 1e-200, -1e200, float("inf"), float("-inf"), float("nan"), 2.0**-53, 1 - 2.0**-53, 1 + 2.0**-52]

    def rt():
        return (rng.randrange(256), rng.randrange(256), rng.randrange(256))

    for cf in specials:
        for _ in range(6):
            t1, t2 = rt(), rt()
            if rng.random() < 0.5:
                t2 = (t1[0], t2[1], t2[2])  # equal channel: 0 * inf = nan
            got = blend_call(t1, t2, cf, "special")
            if cf != cf or cf in (float("inf"), float("-inf")):
                ctx.check(got is None, "blend_rgb:non-finite", (t1, t2, repr(cf)), "int() of a non-finite float did not raise")
    for _ in range(12000 if ctx.quick else 300000):
        kind = rng.randrange(4)
        cf = rng.random() if kind < 2 else rng.uniform(-4, 4) if kind == 2 else rng.uniform(-1, 1) * 10.0 ** rng.randint(-30, 30)
        t1, t2 = rt(), rt()
        got = blend_call(t1, t2, cf, "in01" if 0 <= cf <= 1 else "outside")
        if 0 <= cf <= 1:
            ok = got is not None and all(min(p, q) <= x <= max(p, q) for x, p, q in zip(got, t1, t2))
            # monotone rounding: the result is within one of the integer part of the exact blend with the exact value of the double
            fr = Fraction(cf)
            ok = ok and all(abs(x - int(p + (q - p) * fr)) <= 1 for x, p, q in zip(got, t1, t2))
            ctx.check(ok, "blend_rgb:in-range", (t1, t2, repr(cf)), f"blend gave {got}: not between its arguments / not next to the exact blend")
    for _ in range(2000 if ctx.quick else 20000):  # the exact-rational model against Python's Fractions
        c1, c2, den = rng.randrange(256), rng.randrange(256), rng.choice([1, 2, 3, 7, 100, 255, 256, 1000, rng.randint(1, 10**6)])
        k = rng.randint(-den, 2 * den)
        v = c1 + (c2 - c1) * Fraction(k, den)
        ctx.case("color.blendq", [c1, c2, k, den], str(int(v)), shape="q:" + ("in01" if 0 <= k <= den else "outside"))
    ctx.flush()

    # ---- 10. int(s, 16) on every code point (in both positions of a component), parse_rgb_hex on mixed strings
    def py_int16(sx):
        try:
            return str(int(sx, 16))
        except ValueError:
            return "e"

    def oracle_int16(sx):
        """what the language reference says int(s, 16) accepts: Unicode decimal digits and white space count as their ASCII forms"""
        out = []
        for ch in sx:
            if ord(ch) < 128:
                out.append(ch)
            elif unicodedata.decimal(ch, None) is not None:
                out.append(str(unicodedata.decimal(ch)))
            elif ch.isspace():
                out.append(" ")
            else:
                return None
        a = "".join(out).strip(" \t\n\r\x0b\x0c")
        if a and a[0] in "+-":
            sign, a = (-1 if a[0] == "-" else 1), a[1:]
        else:
            sign = 1
        if not a or any(c not in "0123456789abcdefABCDEF" for c in a):
            return None
        v = 0
        for c in a:
            v = 16 * v + "0123456789abcdef".index(c.lower())
        return sign * v

    interesting = set()
    for cp in range(128, 0x110000):
        if 0xD800 <= cp <= 0xDFFF:
            continue
        ch = chr(cp)
        if ch.isspace() or unicodedata.decimal(ch, None) is not None or ch.isdigit() or ch.isnumeric() and cp < 0x3000:
            interesting.add(cp >> 8)
    others = ["1", "f", " ", "-", "\u0663", "g", "\u3000"]
    n_blocks = 0
    for blk in range(0x110000 >> 8):
        base = blk << 8
        if 0xD800 <= base <= 0xDFFF:
            continue
        os_ = others if (blk in interesting or blk == 0) else [rng.choice(others)]
        if ctx.quick and blk not in interesting and blk != 0 and blk >= 0x300 and rng.random() < 0.9:
            continue  # quick: a tenth of the blocks from plane 3 on that hold no digit / space (almost all unassigned), chosen by the seed
        for o in os_:
            n_blocks += 1
            parts = []
            for i in range(256):
                ch = chr(base + i)
                parts.append(py_int16(ch + o) + "/" + py_int16(o + ch))
            ctx.case("color.int16_block", [base, ord(o)], " ".join(parts), shape="int16:" + ("interesting" if blk in interesting or blk == 0 else "plain"))
    ctx.note("int16 blocks of 256 code points", n_blocks)
    alphabet = list("0123456789abcdefABCDEF") * 3 + list(" +-_xg\t\x1c") + ["\u0663", "\u0669", "\uff11", "\U0001d7d8", "\u00a0", "\u3000", "\u2028", "\u00e9", "\u00b2", "\u2460", "\u0bf0", "\x85"]
    for _ in range(4000 if ctx.quick else 60000):
        sx = "".join(rng.choice(alphabet) for _ in range(rng.choice([6, 6, 6, 6, 6, 5, 7])))
        ans, got = L.call(lambda: parse_rgb_hex(sx), L.enc_triplet)
        ctx.case("color.parse_hexu", [L.enc_str(sx)], ans, shape="u:" + (ans if ans.startswith("err") else "ok") + (":ascii" if sx.isascii() else ":unicode"), sample=f"parse_rgb_hex({sx!r})" if rng.random() < 0.005 else None)
        if len(sx) == 6:
            want = [oracle_int16(sx[i:i + 2]) for i in (0, 2, 4)]
            first_bad = next((w for w in want if w is None), 0)
            ok = (tuple(got) == tuple(want)) if first_bad == 0 and None not in want else ans == "err:ValueError"
            ctx.check(ok, "parse_rgb_hex:unicode", sx, f"parse_rgb_hex gave {ans}; reading every Unicode decimal digit / space as its ASCII form gives {want}")
        else:
            ctx.check(ans == "err:AssertionError", "parse_rgb_hex", sx, f"length {len(sx)} gave {ans}")
    ctx.flush()

    # ---- 11. ColorTriplet.rgb (compared) and ColorTriplet.normalized (evaluated: correctly rounded c/255, never compared as floats)
    for t in hex_ts[:1200]:
        ct = ColorTriplet(*t)
        ctx.case("color.rgbstr", ["%d,%d,%d" % t], L.enc_str(ct.rgb), shape="rgb")
        ctx.check(ct.rgb == "rgb(%d,%d,%d)" % t, "ColorTriplet.rgb", t, f"rgb gave {ct.rgb!r}")
    for v in range(256):
        nz = ColorTriplet(v, 255 - v, (v * 7) % 256).normalized
        want = (v, 255 - v, (v * 7) % 256)
        ok = len(nz) == 3 and all(isinstance(x, float) and abs(Fraction(x) - Fraction(c, 255)) <= Fraction(1, 2**54) and (c not in (0, 255) or x == c // 255) for x, c in zip(nz, want))
        ctx.check(ok, "ColorTriplet.normalized", want, f"normalized gave {nz!r}: not the doubles nearest to c/255")
    ctx.flush()


def work_triplets_entry(job):
    return L.work_triplets(job)


def work_block_entry(job):
    return L.work_block(job)


def replay(ctx, case):
    """re-evaluate the property on the recorded input: ((name, type, number, triplet), system) or (colour, foreground)."""
    from rich.color import Color, ColorSystem, ColorType
    from rich.color_triplet import ColorTriplet

    inp = case.get("input")
    print("site:", case.get("site"))
    print("input:", inp)
    print("what:", case.get("what"))
    try:
        (name, ty, number, triplet), arg = inp
        c = Color(name, ColorType(ty), number, None if triplet is None else ColorTriplet(*triplet))
    except Exception:  # noqa: BLE001
        print("input is not a colour case; re-run ./check C18 with VERIF_SEED=%s" % case.get("seed"))
        return False
    orc = L.oracle()
    if str(case.get("site", "")).startswith("get_ansi_codes"):
        fs = orc.evaluate_codes(c, bool(arg), c.get_ansi_codes(foreground=bool(arg)))
    else:
        sysm = ColorSystem(arg)
        res = L.unwrap(Color.downgrade)(c, sysm)
        fs = orc.evaluate(c, arg, res, L.unwrap(Color.downgrade)(res, sysm))
        print("now:", repr(res), "number", res.number)
    for f in fs:
        print("fails:", f)
    return not fs


MANIFEST = {
    "text": "Lean 4 theorems (Props/C18.lean) over an executable model of Color.downgrade, Color.get_ansi_codes, Color.get_truecolor and "
    "Palette.match, none of which enumerates colours: downgrade of any well-formed colour to any system never raises and lands in the "
    "system's gamut (downgrade_in_gamut); idempotence for every colour, palette and code variant (downgrade_idem); native colours and the "
    "default colour returned unchanged (downgrade_fixed_if_native, default_stays); 16-colour indices kept by the 16-colour targets "
    "(downgrade_fixed_if_representable, proved for the repaired variant, which /repo contains now; old_downgrade_standard_renumbers is the "
    "machine-checked witness that rich 9.10.0 as found, before fix 2cec9e1, turned WINDOWS colour 8 into STANDARD colour 7); Palette.match is the first argmin of the weighted-RGB metric for every "
    "palette (match_is_argmin, match_total, nearest_unique) and downgrade to standard/windows returns that argmin of the source triplet "
    "(downgrade_picks_nearest); truecolor->256 lands in 16..255, on the grey ramp / black / white when the saturation test says grey and for "
    "every r=g=b, else on the cube entry with coordinates (c+25)/51 (eight_bit_number_range, grey_on_ramp); SGR parameters are 39/49, "
    "30-37/90-97, 40-47/100-107, 38;5;n, 38;2;r;g;b (ansi_codes_standard, ansi_codes_16_ranges, ansi_codes_after_downgrade); get_truecolor is total on "
    "well-formed colours for every theme with 16 ANSI colours and returns the triplet / EIGHT_BIT_PALETTE[n] / theme.ansi_colors[n] / WINDOWS_PALETTE[n] / "
    "theme fg-bg (get_truecolor_spec, get_truecolor_sound, theme_init_spec), the colour a downgraded colour is displayed as is the palette entry at the "
    "matched index (downgrade_then_truecolor_is_palette_entry, downgrade_windows_shows_matched_entry, downgrade_eight_bit_then_truecolor); "
    "parse_rgb_hex inverts ColorTriplet.hex (parse_rgb_hex_roundtrip); blend_rgb with cross_fade k/2^n in [0,1] stays between its arguments "
    "(blend_rgb_in_range, blend_rgb_endpoints). Deepening 4 (49 theorems): the saturation test of the model equals the exact rational "
    "one for EVERY triplet except exactly at the nine listed (max,min) pairs, where it says grey and exact arithmetic says not grey (sat_decision_exact_except_listed, sat_exception_direction); "
    "blend_rgb modelled in IEEE-754 binary64 (blendChannelF: two roundings to 53 bits, truncation; inf/nan raise): stays between its arguments for every finite double cross_fade in [0,1] of any size "
    "(blend_rgb_float_in_range, from the sandwich lemma rounding_sandwich: round-to-nearest-even never crosses a 53-bit number), end points (blend_rgb_float_endpoints), raises iff cross_fade is not finite "
    "(blend_rgb_float_raises_iff_nonfinite), equals the exact-rational blend when nothing rounds (blend_rgb_float_exact_when_small; blend_dyadic_is_rational, blend_rgb_rational_in_range for any num/den), "
    "and a decide-witness that at 0.29 the double result (28) is one below the exact blend 29 (blend_float_differs_from_rational_at_integers: float semantics, documented, not a finding); parse_rgb_hex on "
    "any string, Unicode decimal digits / white space read as ASCII, other non-ASCII = ValueError (parse_rgb_hex_unicode_extends_ascii, parse_rgb_hex_unicode_length, table obligation decimal_runs_ok); "
    "is_system_defined / is_default (is_system_defined_spec, is_default_spec, downgrade16_is_system_defined). Palette side "
    "conditions (sizes 16/16/256, components <= 255) are re-proved by decide +kernel on the tables translated from rich/_palettes.py on every run. "
    "Tie: quick = all 32,896 (max,min) channel pairs (float facts directly and through Color.downgrade in every channel arrangement), all 256 "
    "channel values, all 256 numbers x 3 indexed types + default + ill-formed colours x 4 systems x fg/bg, 30k random RGB, ~85k colours at "
    "palette decision boundaries / exact ties, 120 seeded custom TerminalThemes x 38 probe colours x fg/bg, every two-character ASCII string in a "
    "component position of parse_rgb_hex, blend_rgb at cross_fade 1/2 on all 65,536 channel pairs + 8k dyadic cross-fades; deepening 4: color.satrat 32,896 (exact decision + is-exception flag "
    "against colorsys and Fractions), color.blendf ~18,000 (k/100, k/255 at every integral exact value, specials, random doubles), color.blendq 2,000, color.int16_block ~1,400 blocks x 512 int() calls, "
    "color.parse_hexu 4,000, color.rgbstr 1,200, color.props 1,287; ~842k compared cases "
    "(842,022 in the quick run of seed 3, 34 unmodelled) and about as many direct evaluations (incl. the documented 256-colour mapping, lib_color.doc256); thorough = additionally all 16,777,216 RGB x {standard, 256, windows} "
    "through the function behind Color.downgrade's lru_cache (getattr(f, '__wrapped__', f): no dependence on the attribute) in 16 processes, each also evaluated against an independent integer oracle.",
    "note": "Partial where the Python runtime carries the truth: c/255.0, colorsys.rgb_to_hls and round() are modelled by exact rational arithmetic "
    "plus a 9-entry exception list for the double-precision saturation test `s < 0.1` (all nine are exact ties, sat_exceptions_are_ties); the "
    "theorems hold for every exception list, the list itself and the rounding formulas are validated exhaustively on every run, not proved. "
    "Palette.match compares integers where the code compares math.sqrt of them: justified by dist2_le (radicand <= 649,740) and an exhaustive "
    "per-run check that sqrt is strictly increasing on 0..700,000. functools.lru_cache is assumed transparent (cached vs uncached function - getattr(f, '__wrapped__', f) - compared). "
    "get_truecolor is modelled for arbitrary TerminalTheme objects (TerminalTheme.__init__ included) and compared under random custom themes. blend_rgb in doubles is exact for every float with exponent in "
    "[-900, 900], 0, inf, nan (24 seeded requests with 1e300 / 1e-300 / 5e-324 answer `unmodelled`); for cross_fade = k/100, k/255 the relation to the exact rational blend is NOT a theorem (k/100 is not a double): "
    "the harness evaluates on real rich that the results differ only where the exact value is an integer, and then by exactly one downwards (20-30 such inputs per quick run). parse_rgb_hex on non-ASCII rests on the runtime "
    "tables of the running Python (validated per code point each run; a seeded tenth of the unassigned planes in quick); lone surrogates not covered. ColorTriplet.normalized is evaluated (nearest doubles of c/255), "
    "not modelled. The nine-pair list is still a validated constant: the new theorem says where the model deviates from exact arithmetic, the per-run check (all 32,896 pairs) says that real colorsys deviates at exactly those. "
    "Numbers/components are naturals: negative indices and components above 255 answer `unmodelled`. One genuine defect found in rich 9.10.0 as found: downgrade(STANDARD) renumbered 16-colour WINDOWS / EIGHT_BIT(<16) "
    "colours (8->7, 9->1, 10->2, 12->4); repaired in /repo by fix 2cec9e1 (= pending_fixes/C18-downgrade-standard-keeps-16-colour-index.diff), "
    "STD_VIA_PALETTE holds the repaired value 0; a regression would print VIOLATION at site downgrade:representable (slug "
    "downgrade-standard-renumbers-16-colour-index). known_findings.txt has no `known:` line for C18: no KNOWN-FINDING line is printed.",
    "design_ref": "DESIGN.md section 7, C18; section 5 (IEEE doubles in Color.downgrade)",
}
