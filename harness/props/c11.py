"""C11 — Console output is thread-safe under every interleaving.

Real threads run under the deterministic scheduler (harness/sched.py): one thread at a time, a yield point
before every lock operation, every `file.write`, every access to `console._render_hooks`, to the record
buffer and to the live display's `_shape` / renderable — and, in line mode, at every executed source line of
rich/{console,live,live_render,progress,file_proxy,segment,control,ansi}.py.  Threads also write whole lines, several lines and
partial lines through the redirected sys.stdout / sys.stderr (operation W; the pending-text list of each FileProxy is a traced
object: its reads, appends and `del` are yield points), and line probes preempt a writer at every executed line of rich/file_proxy.py.

Correspondence (trace inclusion): the sequence of shared accesses a real run performed (thread id + kind) is
replayed on the Lean transition system (Model/Conc.lean) by `drv_c11 conc_run`; the model must accept the
trace (the same thread must be able to perform the same kind of action next) and must produce the same
observables: hook seen, erase height, renderable read, shape written, the characters of every `file.write`,
every capture result, export_text(), final shape / hook depth / started flag.

Direct evaluation (3d) on real rich, with oracles independent of the model: every print reaches the file in
exactly one write call, contiguously, once; captures contain exactly their own block's output; the record has
the order of the file, and what the clearing exports returned (export_text / export_html raced with the prints)
plus the final record is exactly the file; start() / stop() raced by several threads take effect once (hook
stack depth <= 1, cursor hidden once, sys.stdout / sys.stderr wrapped once); every complete line written by ONE write() call on the
redirected sys.stdout / sys.stderr reaches the console contiguously, exactly once, in one console.print / one file.write of the writing
thread (`proxy_line_once`; oracle = the text of the call); no deadlock, no exception, every
write happens under the console lock; the file replayed on the terminal oracle (harness/term.py) shows the
printed lines (file order) followed by the frame of the last display write (outside constant-height sessions
this fails on real rich: five recorded known findings, printed as KNOWN-FINDING, see MANIFEST note).
"""
import multiprocessing
import os
import re

import lib_conc as LC
import sched as S
import term

PROPERTY = "C11"

# CODE VARIANT FLAGS — the value that matches the code in /repo as it is now (see `Cfg` in Model/Conc.lean).  STOP_TAIL_UNLOCKED = 1 is NOT
# a defect waiting for its fix: it is the recorded known finding progress-stop-tail-vs-start (known_findings.txt; no small safe repair), so 1
# stays the value that matches /repo.
STOP_TAIL_UNLOCKED = int(os.environ.get("VERIF_C11_STOP_TAIL_UNLOCKED", "1"))   # 1: Progress.stop() erases a transient display and resets _live_render._shape AFTER releasing its lock
# (Finding F22, the stale erase count, has no small repair and therefore no repaired variant in the model:
#  Props/C11.lean carries `live_screen_under_schedules_partial` and witnesses instead.)

NPROC = 16


# ------------------------------------------------------------------------------------------------ oracles
_POS = re.compile(r"^\r\x1b\[2K((?:\x1b\[1A\x1b\[2K)*)")


def plain_text(scn, lines, how):
    """What a console without a display writes for this print (rendered by real rich, no threads)."""
    return "".join(l + "\n" for l in scn.user_lines(lines, how))


def evaluate(scn, res):
    """Direct evaluation of the property on one real run.  -> list of (ok, site, what, finding)."""
    out = []

    def chk(ok, site, what, finding=None):
        out.append((bool(ok), site, what if not ok else "", None if ok else finding))
        return ok

    chk(res.deadlock is None, "no_deadlock", f"no runnable thread: {res.deadlock}")
    chk(not res.exc, "no_exception", "a thread raised " + ", ".join(f"{t}: {type(e).__name__}: {e}" for t, e in res.exc.items()),
        finding=classify_exc(scn, res.exc))
    chk(not res.unguarded, "write_under_console_lock", f"file.write without holding Console._lock: {res.unguarded[:2]}")
    chk(not res.lock_errors, "lock_mutual_exclusion", f"{res.lock_errors[:2]}")
    if res.deadlock is not None or res.exc:
        return out

    # ---- write_per_print: every top-level print = exactly one write call of its own thread, contiguous, once
    file_text = "".join(t for _, t in res.writes)
    all_chunks = {}
    for tid, prog in enumerate(scn.progs):
        for i, op in enumerate(prog):
            if op[0] == "P":
                all_chunks[(tid, i, 0)] = (plain_text(scn, op[1], op[2]), False)
            elif op[0] == "K":
                for j, (lines, how) in enumerate(op[1]):
                    all_chunks[(tid, i, j)] = (plain_text(scn, lines, how), True)
            elif op[0] == "N":
                for j, (lines, how) in enumerate(op[1:4]):
                    all_chunks[(tid, i, j)] = (plain_text(scn, lines, how), True)
            elif op[0] == "W":
                # what the proxy handed to the console in this run (one entry per console.print call it made)
                for j, lines in enumerate(res.proxy_prints.get((tid, i), [])):
                    c = plain_text(scn, lines, "str")
                    if c.strip():
                        all_chunks[(tid, i, j)] = (c, False)
    # ---- redirected sys.stdout / sys.stderr: every complete line written by ONE write() call reaches the console contiguously, once
    # (oracle: the text of the call itself; independent of the model and of the observed console.print calls)
    for tid, prog in enumerate(scn.progs):
        for i, op in enumerate(prog):
            if op[0] != "W":
                continue
            parts = op[2].split("\n")
            complete, rest = parts[:-1], parts[-1]
            if complete and all(complete):
                tail = "\n".join(complete) + "\n"
                hits = [k for k, (wt, text) in enumerate(res.writes) if tail in text]
                ok = len(hits) == 1 and file_text.count(tail) == 1 and res.writes[hits[0]][0] == tid
                chk(ok, "proxy_line_once", f"thread {tid} op {i}: sys.std{'out' if op[1] == 'o' else 'err'}.write({op[2]!r}): its complete lines {tail!r} "
                    f"found in file writes {hits} ({file_text.count(tail)} occurrences; writers {[res.writes[k][0] for k in hits]}); "
                    f"the proxy printed {res.proxy_prints.get((tid, i), [])}")
                for l in complete:
                    chk(file_text.count(l) == 1 and file_text.count(l + "\n") == 1, "proxy_line_once",
                        f"thread {tid} op {i}: line {l!r} of write({op[2]!r}) occurs {file_text.count(l)}x in the file, {file_text.count(l + chr(10))}x followed by its new line")
                n_pr = len(res.proxy_prints.get((tid, i), []))
                chk(n_pr == 1, "proxy_line_once", f"thread {tid} op {i}: write({op[2]!r}) made {n_pr} console.print calls")
            elif not complete:
                n_pr = len(res.proxy_prints.get((tid, i), []))
                chk(n_pr == 0, "proxy_line_once", f"thread {tid} op {i}: write({op[2]!r}) completes no line but made {n_pr} console.print calls")
            if rest:
                # observation only (outside the statement of C11): a partial line survives until some later write completes it
                n = file_text.count(rest) + sum(v.count(rest) for v in res.proxy_pending.values())
                out.append((True, "note:proxy-partial-" + ("kept" if n == 1 else "lost" if n == 0 else "duplicated"), "", None))
    for (tid, i, j), (chunk, captured) in all_chunks.items():
        hits = [k for k, (wt, text) in enumerate(res.writes) if chunk in text]
        total = file_text.count(chunk)
        if captured:
            chk(total == 0, "capture_withholds", f"output of the capture block of thread {tid} op {i} reached the file")
        else:
            ok = len(hits) == 1 and total == 1 and res.writes[hits[0]][0] == tid
            chk(ok, "write_per_print", f"print {i} of thread {tid}: rendering {chunk!r} found in writes {hits} (total occurrences {total}); "
                f"writers {[res.writes[k][0] for k in hits]}")
    for k, (wt, text) in enumerate(res.writes):
        foreign = [key for key, (chunk, _) in all_chunks.items() if key[0] != wt and chunk in text]
        chk(not foreign, "write_own_output_only", f"write {k} by thread {wt} contains output of {foreign}")
    if scn.kind == "none":
        for tid, prog in enumerate(scn.progs):
            n_w = sum(1 for wt, _ in res.writes if wt == tid)
            n_p = sum(1 for op in prog if op[0] == "P" and plain_text(scn, op[1], op[2]) != "")
            chk(n_w == n_p, "write_per_print", f"thread {tid} issued {n_w} write calls for {n_p} non-empty prints")

    # ---- capture_isolated
    for tid, prog in enumerate(scn.progs):
        blocks = []   # (op index, indices of the prints whose output the block must return, in order)
        for i, op in enumerate(prog):
            if op[0] == "K":
                blocks.append((i, list(range(len(op[1])))))
            elif op[0] == "N":
                blocks.append((i, [1]))       # the inner block returns first
                blocks.append((i, [0, 2]))    # the outer block: what was printed before and after the inner one
        got = res.captures[tid]
        chk(len(got) == len(blocks), "capture_isolated", f"thread {tid}: {len(got)} capture results for {len(blocks)} blocks")
        for (i, js), text in zip(blocks, got):
            own = [all_chunks[(tid, i, j)][0] for j in js]
            if scn.kind == "none":
                want = "".join(own)
                chk(text == want, "capture_isolated", f"thread {tid} op {i}: captured {text!r}, its block printed {want!r}")
            pos = 0
            for c in own:
                k = text.find(c, pos)
                if not chk(k >= 0, "capture_isolated", f"thread {tid} op {i}: own output {c!r} missing (or out of order) in capture {text!r}"):
                    break
                pos = k + len(c)
            foreign = [key for key, (chunk, _) in all_chunks.items() if (key[:2] != (tid, i) or key[2] not in js) and chunk and chunk in text]
            chk(not foreign, "capture_isolated", f"thread {tid} op {i}: capture contains output of {foreign}")

    # ---- record_order_eq_file_order / exports_partition_the_record
    if scn.record:
        exp = res.export
        if chk(isinstance(exp, str) and not exp.startswith("err:"), "record_order", f"export_text failed: {exp!r}"):
            stripped = re.sub(r"\x1b\[[0-9;?]*[A-Za-z]|\r", "", file_text)
            # walk the exports in the order of their critical sections (event `cr` = the export reads the record)
            nth = {}
            cleared = ""
            for tid, kind, _p in res.events:
                if kind != "cr":
                    continue
                k = nth.get(tid, 0)
                nth[tid] = k + 1
                if k >= len(res.exports[tid]):
                    continue
                clear, mode, text = res.exports[tid][k]
                if scn.kind == "none":
                    chk(stripped[len(cleared):].startswith(text), "exports_partition_the_record",
                        f"export {k} of thread {tid} returned {text!r}, which is not what the file holds after the {len(cleared)} characters "
                        f"already handed out by clearing exports: {stripped[len(cleared):]!r}")
                if clear:
                    cleared += text
            total = cleared + exp

            def order(text):
                found = [(text.find(c), key) for key, (c, cap) in all_chunks.items() if not cap and c and c in text]
                return [k for _, k in sorted(found)]
            chk(order(total) == order(file_text), "exports_partition_the_record",
                f"prints in the clearing exports + final record {order(total)} vs in the file {order(file_text)}")
            for key, (c, cap) in all_chunks.items():
                if not cap and c:
                    chk(total.count(c) == file_text.count(c), "exports_partition_the_record",
                        f"print {key} occurs {file_text.count(c)}x in the file but {total.count(c)}x in the clearing exports + final record")
            if scn.kind != "progress":
                chk(stripped == total, "exports_partition_the_record",
                    f"clearing exports + final record {total!r} differ from the file without its control sequences {stripped!r}")

    # ---- start / stop are idempotent under races: one hook per display, pushed once, popped once
    if scn.kind != "none":
        depth, worst, hides, shows = 0, 0, 0, 0
        for tid, kind, p in res.events:
            if kind == "h+":
                depth += 1
            elif kind == "h-":
                depth -= 1
            elif kind == "w":
                hides += p.count("\x1b[?25l")
                shows += p.count("\x1b[?25h")
            worst = max(worst, depth)
            chk(depth >= 0, "hook_stack", f"render hook popped more often than pushed (event of thread {tid})")
            # the cursor is hidden once per start that took effect, shown once per stop that took effect
            chk(0 <= hides - shows <= 1, "cursor_hidden_once", f"{hides} hide-cursor / {shows} show-cursor writes so far (thread {tid})")
        chk(worst <= 1, "hook_stack", f"{worst} render hooks installed at the same time for one display")
        chk(res.hooks == (1 if res.started else 0), "hook_stack", f"after all threads finished: started={res.started}, {res.hooks} hooks installed")
        want_depth = 1 if res.started else 0
        chk(res.stdout_depth == want_depth and res.stderr_depth == want_depth, "io_redirected_once",
            f"after all threads finished: started={res.started}, sys.stdout wrapped {res.stdout_depth}x, sys.stderr {res.stderr_depth}x")
        if not res.started:
            chk(res.after == "zzafter\n", "stopped_display_is_gone", f"a print after the display was stopped wrote {res.after!r}")
            chk(hides == shows, "cursor_visible_after_stop", f"{hides} hide-cursor but {shows} show-cursor writes")
        else:
            chk(isinstance(res.after, str) and res.after.count("zzafter\n") == 1, "running_display_prints", f"a print under the running display wrote {res.after!r}")

    # ---- live screen for the order in which the writes reached the file
    if scn.kind != "none":
        out.append(screen_check(scn, res, all_chunks))
    return out


def stop_tail_raced(events):
    """Narrow classifier: some thread T popped the hook (`stop()`), released the progress lock, and before T's trailing
    `restore_cursor()` / `_shape = None` another thread pushed the hook again or drew the display."""
    for i, (t, kind, _p) in enumerate(events):
        if kind != "h-":
            continue
        released = False
        for u, k2, p2 in events[i + 1:]:
            if u == t:
                if k2 == "relL":
                    released = True
                elif k2 == "ws" and p2 is None:
                    break            # end of T's stop()
            elif released and k2 in ("h+", "ws", "pos"):
                return True
    return False


def classify_exc(scn, excs):
    """Narrow classifier: `TypeError: cannot unpack … NoneType` raised inside rich/live_render.py under a Progress whose
    stop() (another thread) set `_live_render._shape = None` between the `is not None` test and the unpacking."""
    import traceback

    if scn.kind != "progress" or not excs:
        return None
    for e in excs.values():
        tb = traceback.extract_tb(e.__traceback__)
        if not (isinstance(e, TypeError) and "NoneType" in str(e) and tb and tb[-1].filename.endswith("live_render.py")):
            return None
    return "progress-shape-torn-read"


def screen_check(scn, res, all_chunks):
    """Replay the file; expected = printed lines in file order ++ frame of the last display write."""
    scr = term.Screen(height=scn.height)
    # per thread: what its current operation saw (hook, erase height) and rendered (frame height), from rich's own values
    view = {}
    disp_h = 0          # rows of the display currently on the screen (0: nothing / finished)
    finished = False    # a stop() has written its final line feed
    active = False      # the display has been drawn since the last stop()
    printed = []
    frame = []
    stale = None
    for tid, kind, p in res.events:
        v = view.setdefault(tid, {"hooked": False, "pos": None, "h": None})
        if kind == "hr":
            v["hooked"], v["pos"], v["h"] = bool(p), None, None
        elif kind == "pos":
            v["pos"] = p
        elif kind == "ws" and p is not None:
            v["h"] = p[1]
        elif kind == "h-":
            v["hooked"] = False
        elif kind == "w":
            text = p
            scr.write(text)
            m = _POS.match(text)
            body = text[m.end():] if m else text
            user = [c for key, (c, cap) in all_chunks.items() if not cap and key[0] == tid and c and c in body]
            rest = body
            for c in user:
                rest = rest.replace(c, "", 1)
            if v["hooked"] and v["h"] is not None and not (rest == "" if v["h"] == 0 else rest.count("\n") == v["h"] - 1):
                v["h"] = None   # the hooked flush of this thread rendered to nothing (no write call); this is a later, plain write
            if v["hooked"] and v["h"] is not None:
                erase = 0 if v["pos"] is None else v["pos"]   # rows erased (an empty frame still erases the row it is on)
                if erase != (max(disp_h, 1) if active else 0) and stale is None:
                    stale = ("taller" if erase < disp_h else ("stop" if finished else "shorter"), tid, erase, disp_h)
                for c in user:
                    printed += c[:-1].split("\n")
                    body = body.replace(c, "", 1)
                frame = body.split("\n")
                disp_h = v["h"]
                finished = False
                active = True
                v["h"] = None
            else:
                if user and disp_h > 0 and not finished and stale is None:
                    stale = ("start", tid, 0, disp_h)
                for c in user:
                    printed += c[:-1].split("\n")
                if text == "\n" and not user:          # Console.line() of stop(): the frame becomes finished output
                    printed += (frame if active and frame else [""])   # (an empty / never drawn frame: the blank row the cursor is on)
                    frame, disp_h, finished, active = [], 0, True, False
                elif "\x1b[1A" in text and not user:    # restore_cursor() of a transient stop
                    n = text.count("\x1b[1A")
                    printed = printed[: len(printed) - n] if n <= len(printed) else []
    want = [x.rstrip(" ") for x in printed + frame]
    while want and want[-1] == "":
        want.pop()
    got = scr.trimmed_rows()
    ok = got == want
    finding = None
    if not ok and scn.kind == "progress" and stop_tail_raced(res.events):
        finding = "progress-stop-tail-vs-start"
    elif not ok and stale is not None:
        finding = {"taller": "live-print-vs-taller-refresh", "shorter": "live-print-vs-shorter-refresh",
                   "stop": "live-print-vs-stop", "start": "live-print-vs-start"}[stale[0]]
    what = "" if ok else (f"screen rows {got} != printed lines (file order) + last frame {want}"
                          + (f"; thread {stale[1]} erased {stale[2]} rows while {stale[3]} rows of the display were on screen" if stale else ""))
    return (ok, "live_screen_under_schedules", what, finding)


# ------------------------------------------------------------------------------------------------ scenarios
def mk(tid, i, j=0):
    return f"t{tid}o{i}l{j}"


def fixed_scenarios():
    """Small scenarios explored exhaustively up to the preemption bound (name, scenario, stable?)."""
    P = lambda t, i, how="seg", n=1: ("P", [mk(t, i, j) for j in range(n)], how)
    out = []
    out.append(("plain-2x2", LC.Scn("none", 30, 6, True, False, "ellipsis", [], [[P(0, 0), P(0, 1, "log")], [P(1, 0, "str", 2), P(1, 1)]]), True))
    out.append(("plain-capture", LC.Scn("none", 30, 6, True, False, "ellipsis", [],
                                        [[("K", [([mk(0, 0)], "seg"), ([mk(0, 0, 1)], "log")]), P(0, 1)], [P(1, 0), ("K", [([mk(1, 1)], "str")])]]), True))
    out.append(("plain-nested", LC.Scn("none", 30, 6, True, False, "ellipsis", [],
                                       [[("N", ([mk(0, 0, 0)], "seg"), ([mk(0, 0, 1)], "str"), ([mk(0, 0, 2)], "log")), P(0, 1)],
                                        [("K", [([mk(1, 0)], "seg")]), ("N", ([mk(1, 1, 0)], "log"), ([mk(1, 1, 1)], "seg"), ([mk(1, 1, 2)], "seg"))]]), True))
    out.append(("plain-export", LC.Scn("none", 30, 6, True, False, "ellipsis", [],
                                       [[P(0, 0), P(0, 1, "log")], [("E", True, "t"), ("E", True, "h")], [P(2, 0, "str"), ("E", False, "s")]]), True))
    out.append(("plain-export-2", LC.Scn("none", 30, 6, True, False, "ellipsis", [],
                                         [[P(0, 0)], [("E", True, "h"), P(1, 1)], [("E", True, "t")]]), True))
    out.append(("plain-3", LC.Scn("none", 30, 6, False, False, "ellipsis", [], [[P(0, 0)], [P(1, 0, "log")], [("K", [([mk(2, 0)], "seg")]), P(2, 1)]]), True))
    # live, constant height, started and refreshed before the threads run, stopped after them
    out.append(("live-const", LC.Scn("live", 30, 8, True, False, "ellipsis", ["G1", "G2"],
                                     [[("S",), ("R",), ("J",), ("X",)], [("G", 2), P(1, 1), P(1, 2, "log")], [("G", 2), ("U", ["H1", "H2"], True), ("R",)]], npre=2), True))
    out.append(("live-const-3", LC.Scn("live", 30, 8, False, True, "crop", ["G1"],
                                       [[("S",), ("R",), P(0, 2), ("J",), ("X",)], [("G", 2), P(1, 1)], [("G", 2), ("R",), ("U", ["H1"], False), ("R",)]], npre=2), True))
    out.append(("progress-const", LC.Scn("progress", 30, 8, True, False, "visible", ["a", "b"],
                                         [[("S",), ("J",), ("X",)], [("G", 1), P(1, 1), ("V", 0, 1)], [("G", 1), ("V", 1, 2), ("R",), P(2, 3, "log")]], npre=1), True))
    # the F22 family: the frame height changes while another thread is inside print
    out.append(("live-taller", LC.Scn("live", 30, 8, False, False, "ellipsis", ["G1", "G2"],
                                      [[("S",), ("R",), ("J",), ("X",)], [("G", 2), P(1, 1)], [("G", 2), ("U", ["H1", "H2", "H3", "H4"], True)]], npre=2), False))
    out.append(("live-shorter", LC.Scn("live", 30, 8, True, False, "ellipsis", ["G1", "G2", "G3"],
                                       [[("S",), ("R",), P(0, 2), ("J",), ("X",)], [("G", 3), P(1, 1)], [("G", 3), ("U", ["H1"], True)]], npre=3), False))
    out.append(("live-start-stop", LC.Scn("live", 30, 8, False, False, "ellipsis", ["G1", "G2"],
                                          [[("S",), ("R",), ("X",)], [P(1, 0), P(1, 1)]]), False))
    # start() / stop() raced by several threads: exactly one of them takes effect
    out.append(("live-start-race", LC.Scn("live", 30, 8, False, False, "ellipsis", ["G1"],
                                          [[("S",), ("R",), ("J",), ("X",)], [("S",), ("R",)], [("S",)]]), False))
    out.append(("live-stop-race", LC.Scn("live", 30, 8, True, True, "ellipsis", ["G1", "G2"],
                                         [[("S",), ("R",), ("X",)], [("G", 2), ("X",), P(1, 2)], [("G", 2), ("X",)]], npre=2), False))
    out.append(("progress-start-race", LC.Scn("progress", 30, 8, False, False, "visible", ["a"],
                                              [[("S",), ("J",), ("X",)], [("S",), P(1, 1)], [("S",)]]), False))
    out.append(("progress-stop-vs-start", LC.Scn("progress", 30, 8, False, True, "visible", ["a"],
                                                 [[("S",), ("X",)], [("S",), P(1, 1)]]), False))
    out.append(("progress-stop-race", LC.Scn("progress", 30, 8, False, True, "visible", ["a", "b"],
                                             [[("S",), ("X",)], [("G", 1), ("X",), P(1, 2)], [("G", 1), ("X",), ("S",)]], npre=1), False))
    # redirected sys.stdout / sys.stderr under a running display: whole lines, several lines, partial lines from two threads
    W = lambda text, s="o": ("W", s, text)
    out.append(("live-proxy-lines", LC.Scn("live", 30, 8, True, False, "ellipsis", ["G1", "G2"],
                                           [[("S",), ("R",), ("J",), ("X",)], [("G", 2), W("t1a\n"), W("t1b\nt1c\n")],
                                            [("G", 2), W("t2a\nt2b\n")]], npre=2), True))
    out.append(("live-proxy-partial", LC.Scn("live", 30, 8, False, False, "ellipsis", ["G1"],
                                             [[("S",), ("R",), ("J",), ("X",)], [("G", 2), W("t1p"), W("t1q\n")],
                                              [("G", 2), W("t2a\nt2r"), W("t2s\n")]], npre=2), True))
    out.append(("progress-proxy-lines", LC.Scn("progress", 30, 8, True, False, "visible", ["a"],
                                               [[("S",), ("J",), ("X",)], [("G", 1), W("t1a\n", "e")],
                                                [("G", 1), W("t2p", "e"), W("t2a\n", "e")]], npre=1), True))
    return out


# share of the per-scenario run cap the proxy scenarios get (they were added to a full time budget)
CAP_SCALE = {"live-proxy-lines": 0.3, "live-proxy-partial": 0.3, "progress-proxy-lines": 0.3}


def random_proxy_scenario(rng):
    """A running display (started before, stopped after the concurrent phase); 2-3 threads write whole lines, several lines and
    partial lines to the redirected sys.stdout / sys.stderr and print.  Every thread ends each stream it used with a completed line,
    so nothing is pending when stop() flushes the proxies (the model's flushProxies prints nothing)."""
    kind = rng.choice(["live", "live", "progress"])
    n = rng.choice([3, 3, 4])
    record = rng.random() < 0.5
    init = ["G1", "G2"][: rng.randint(1, 2)] if kind == "live" else ["a", "b"][: rng.randint(1, 2)]
    npre = 2 if kind == "live" else 1
    progs = [([("S",), ("R",)] if kind == "live" else [("S",)]) + [("J",), ("X",)]]
    for t in range(1, n):
        prog = [("G", npre)]
        used = {}
        for i in range(1, rng.randint(2, 4)):
            tok = f"t{t}o{i}"
            r = rng.random()
            st = rng.choice("ooe")
            if r < 0.15:
                prog.append(("P", [tok + "x"], rng.choice(["seg", "str", "log"])))
                continue
            text = (tok + "a\n") if r < 0.5 else (tok + "p") if r < 0.7 else (tok + "a\n" + tok + "b\n") if r < 0.85 else (tok + "a\n" + tok + "r")
            prog.append(("W", st, text))
            used[st] = text.endswith("\n")
        for st, closed in sorted(used.items()):
            if not closed:
                prog.append(("W", st, f"t{t}z{st}\n"))
        progs.append(prog)
    return LC.Scn(kind, 40, rng.choice([5, 8]), record, rng.random() < 0.3, rng.choice(["crop", "ellipsis", "visible"]), init, progs, npre=npre), True


def random_scenario(rng, stable=None):
    kind = rng.choice(["none", "live", "live", "progress"])
    n = rng.choice([2, 2, 3, 3, 4])
    width = rng.choice([12, 20, 30])
    height = rng.choice([3, 5, 8])
    record = rng.random() < 0.6
    transient = rng.random() < 0.3
    hows = ["seg", "str", "log"]

    def P(t, i):
        return ("P", [mk(t, i, j) for j in range(rng.choice([1, 1, 2]))], rng.choice(hows))

    if stable is None:
        stable = rng.random() < 0.6
    if kind == "none":
        progs = []
        for t in range(n):
            prog = []
            for i in range(rng.randint(1, 3)):
                r = rng.random()
                if record and rng.random() < 0.2:
                    prog.append(("E", rng.random() < 0.7, rng.choice("tsh")))
                elif r < 0.12:
                    prog.append(("N",) + tuple(([mk(t, i, j)], rng.choice(hows)) for j in range(3)))
                elif r < 0.35:
                    prog.append(("K", [([mk(t, i, j)], rng.choice(hows)) for j in range(rng.randint(0, 2))]))
                else:
                    prog.append(P(t, i))
            progs.append(prog)
        return LC.Scn(kind, width, height, record, transient, "ellipsis", [], progs), True
    if kind == "progress" and not stable:
        # threads start / stop the progress display themselves
        init = ["a", "b"][: rng.randint(1, 2)]
        progs = []
        for t in range(n):
            prog = []
            for i in range(rng.randint(1, 3)):
                r = rng.random()
                prog.append(P(t, i) if r < 0.3 else (("R",) if r < 0.4 else (("V", rng.randrange(len(init)), 1) if r < 0.5 else
                                                                          (("S",) if r < 0.8 else ("X",)))))
            progs.append(prog)
        return LC.Scn(kind, width, height, record, transient, "visible", init, progs), False
    if kind == "progress":
        init = ["a", "b"][: rng.randint(1, 2)]
        progs = [[("S",), ("J",), ("X",)]]
        for t in range(1, n):
            prog = [("G", 1)]
            for i in range(1, rng.randint(2, 4)):
                r = rng.random()
                prog.append(P(t, i) if r < 0.5 else (("V", rng.randrange(len(init)), 1) if r < 0.8 else ("R",)))
            progs.append(prog)
        return LC.Scn(kind, width, height, record, transient, "visible", init, progs, npre=1), True
    # live
    h0 = rng.randint(1, min(3, height - 1))
    init = [f"G{k}" for k in range(h0)]
    overflow = rng.choice(["crop", "ellipsis", "visible"])

    def frame(tag):
        h = h0 if stable else rng.randint(0, min(4, height - 1))
        return [f"{tag}{k}" for k in range(h)]

    if stable or rng.random() < 0.5:
        pre = [("S",), ("R",)]
        progs = [pre + ([P(0, 2)] if rng.random() < 0.3 else []) + [("J",), ("X",)]]
        npre = 2
        for t in range(1, n):
            prog = [("G", npre)]
            for i in range(1, rng.randint(2, 4)):
                r = rng.random()
                prog.append(P(t, i) if r < 0.5 else (("U", frame(f"F{t}{i}"), rng.random() < 0.7) if r < 0.8 else ("R",)))
            progs.append(prog)
        return LC.Scn(kind, width, height, record, transient, overflow, init, progs, npre=npre), stable
    # unrestricted: threads start / stop the display themselves
    progs = []
    for t in range(n):
        prog = []
        for i in range(rng.randint(1, 3)):
            r = rng.random()
            prog.append(P(t, i) if r < 0.4 else (("U", frame(f"F{t}{i}"), rng.random() < 0.7) if r < 0.55 else
                                                  (("R",) if r < 0.65 else (("S",) if r < 0.85 else ("X",)))))
        progs.append(prog)
    return LC.Scn(kind, width, height, record, transient, overflow, init, progs), False


# ------------------------------------------------------------------------------------------------ workers
def _record(scn, res, stable, label):
    req = ["conc_run", scn.enc_cfg(STOP_TAIL_UNLOCKED), scn.enc_init(), scn.enc_progs(res.proxy_prints), LC.enc_events(res.events)]
    if res.deadlock is not None or res.exc:
        exp = None
    else:
        exp = "ok#" + LC.enc_obs(scn, res.events) + "#" + LC.enc_final(scn, res)
    checks = evaluate(scn, res)
    notes = [site[5:] for ok, site, _, _ in checks if site.startswith("note:")]
    checks = [c for c in checks if not c[1].startswith("note:")]
    if any(op[0] == "W" for p in scn.progs for op in p):
        notes.append("proxy-buffer-traced" if res.proxy_traced else "proxy-buffer-not-traced")
        notes += ["proxy-events:%d" % min(sum(1 for e in res.events if e[1] in LC.PROXY_KINDS), 12)]
    fails = [(site, what, finding) for ok, site, what, finding in checks if not ok]
    counts = {}
    for ok, site, _, _ in checks:
        counts[site] = counts.get(site, 0) + 1
    if stable:
        # inside the domain of the `_partial` theorem nothing may fail: drop the F22 classification
        fails = [(s, w, None if s == "live_screen_under_schedules" else f) for s, w, f in fails]
    pre = sum(1 for i in range(1, len(res.choices)) if res.choices[i] != res.choices[i - 1] and res.choices[i - 1] in res.sched.runnable_log[i])
    return {"req": req, "exp": exp, "fails": fails, "counts": counts, "inp": (repr(scn), list(res.choices)), "label": label,
            "n_events": len(res.events), "preempt": pre, "nthreads": len(scn.progs), "notes": notes}


class _R:  # adapter: explore() wants .choices / .runnable_log
    def __init__(self, res):
        self.res = res
        self.choices, self.runnable_log = res.sched.choices, res.sched.runnable_log


def _root_task(args):
    """Root run of one fixed scenario + the nodes below it (work units for `_subtree_task`)."""
    idx, bound = args
    name, scn, stable = fixed_scenarios()[idx]
    res = LC.run_real(scn, S.Replay(()))
    kids = S.children(res.sched.choices, res.sched.runnable_log, 0, 0, bound)
    return [_record(scn, res, stable, "explore:" + name)], kids


def _subtree_task(args):
    idx, bound, max_runs, start = args
    name, scn, stable = fixed_scenarios()[idx]
    out = []
    for _prefix, r in S.explore(lambda ch: _R(LC.run_real(scn, ch)), bound, max_runs=max_runs, start=start):
        out.append(_record(scn, r.res, stable, "explore:" + name))
    return out


def probe_scenarios():
    """(name, scenario, thread to preempt, file): line-granularity probes — the thread is preempted at EVERY executed line of
    the file in turn, the other threads then run as far as they can, then it finishes (complete for one such preemption)."""
    P = lambda t, i: ("P", [mk(t, i)], "seg")
    W = lambda text, s="o": ("W", s, text)
    return [
        ("progress-print-vs-stop", LC.Scn("progress", 30, 8, False, False, "visible", ["a"],
                                          [[("S",)], [("G", 1), P(1, 1)], [("G", 1), ("X",)]], npre=1), 1, "rich/live_render.py"),
        ("progress-refresh-vs-stop", LC.Scn("progress", 30, 8, False, True, "visible", ["a", "b"],
                                            [[("S",)], [("G", 1), ("R",)], [("G", 1), ("X",)]], npre=1), 1, "rich/live_render.py"),
        ("live-print-vs-stop", LC.Scn("live", 30, 8, False, False, "ellipsis", ["G1", "G2"],
                                      [[("S",), ("R",)], [("G", 2), P(1, 1)], [("G", 2), ("X",)]], npre=2), 1, "rich/live_render.py"),
        ("live-print-vs-update", LC.Scn("live", 30, 8, False, False, "ellipsis", ["G1", "G2"],
                                        [[("S",), ("R",), ("J",), ("X",)], [("G", 2), P(1, 1)], [("G", 2), ("U", ["H1", "H2"], True)]], npre=2), 1, "rich/live.py"),
        # a thread inside FileProxy.write is preempted at every executed line of rich/file_proxy.py while the other writes through the same proxy
        ("proxy-line-vs-line", LC.Scn("live", 30, 8, False, False, "ellipsis", ["G1"],
                                      [[("S",), ("R",)], [("G", 2), W("t1a\n")], [("G", 2), W("t2a\n")]], npre=2), 1, "rich/file_proxy.py"),
        ("proxy-lines-vs-lines", LC.Scn("live", 30, 8, True, False, "ellipsis", ["G1", "G2"],
                                        [[("S",), ("R",)], [("G", 2), W("t1a\nt1b\n"), W("t1c\n")], [("G", 2), W("t2a\n"), W("t2b\nt2c\n")]], npre=2), 2, "rich/file_proxy.py"),
        ("proxy-partial-vs-line", LC.Scn("live", 30, 8, False, False, "ellipsis", ["G1"],
                                         [[("S",), ("R",)], [("G", 2), W("t1p"), W("t1q\n")], [("G", 2), W("t2a\n")]], npre=2), 1, "rich/file_proxy.py"),
        ("proxy-line-vs-partial", LC.Scn("progress", 30, 8, False, False, "visible", ["a"],
                                         [[("S",)], [("G", 1), W("t1a\n", "e")], [("G", 1), W("t2p", "e"), W("t2q\nt2r", "e"), W("t2s\n", "e")]], npre=1), 1, "rich/file_proxy.py"),
    ]


def _probe_task(idx):
    name, scn, tid, suffix = probe_scenarios()[idx]
    out = []
    for k in range(200):
        ch = S.PreemptAt(tid, suffix, k)
        res = LC.run_real(scn, ch, line_mode=True)
        if not ch.fired:
            break
        out.append(_record(scn, res, False, "probe:" + name))
    return out


def _random_task(args):
    import random

    seed, n_runs, line_mode = args[:3]
    proxy = len(args) > 3 and args[3]
    rng = random.Random(seed)
    out = []
    for _ in range(n_runs):
        scn, stable = random_proxy_scenario(rng) if proxy else random_scenario(rng)
        n = len(scn.progs)
        r = rng.random()
        if line_mode:
            chooser = S.RandomWalk(rng, rng.choice([0.003, 0.01, 0.03]))
        elif r < 0.5:
            chooser = S.RandomWalk(rng, rng.choice([0.05, 0.15, 0.4]))
        else:
            chooser = S.PCT(rng, range(n), rng.choice([2, 3, 4]), 60 * n)
        res = LC.run_real(scn, chooser, line_mode=line_mode)
        out.append(_record(scn, res, stable, ("line:" if line_mode else "random:") + scn.kind + (":proxy" if proxy else ":stable" if stable else ":free")))
    return out


# ------------------------------------------------------------------------------------------------ run
def _absorb(ctx, rec):
    ctx.note("label:" + rec["label"])
    ctx.note(f"threads:{rec['nthreads']}")
    ctx.note(f"preemptions:{min(rec['preempt'], 6)}")
    ctx.note(f"events:{min(rec['n_events'] // 25 * 25, 200)}+")
    for k in rec.get("notes", ()):
        ctx.note(k)
    for site, n in rec["counts"].items():
        ctx.dist["prop:" + site] += n
    for site, what, finding in rec["fails"]:
        ctx.dist["prop:" + site] -= 1  # ctx.check counts it again
        ctx.check(False, site, rec["inp"], what, finding=finding)
    if rec["exp"] is not None:
        ctx.case(rec["req"][0], rec["req"][1:], rec["exp"], shape=rec["label"],
                 sample=f"{rec['inp'][0]} schedule={rec['inp'][1][:40]}…")
    else:
        ctx.note("not-compared:deadlock-or-exception")


def run(ctx):
    quick = ctx.quick
    fixed = fixed_scenarios()
    bound = 2 if quick else 3   # quick: <= 1 complete, <= 2 capped; thorough: <= 2 complete, <= 3 capped
    per_scn = 850 if quick else 18000   # cap on the runs per fixed scenario (spread over the first-level subtrees)
    n_rand_tasks = 24 if quick else 256
    rand = [(ctx.rng.getrandbits(48), 30 if quick else 150, False) for _ in range(n_rand_tasks)]
    line = [(ctx.rng.getrandbits(48), 3 if quick else 15, True) for _ in range(16 if quick else 96)]
    prox = ([(ctx.rng.getrandbits(48), 12 if quick else 100, False, True) for _ in range(8 if quick else 64)]
            + [(ctx.rng.getrandbits(48), 2 if quick else 10, True, True) for _ in range(8 if quick else 32)])
    ctx.assumptions += [
        "threads switch only at the yield points of harness/sched.py (sync points always — lock operations, file.write, hooks / record / shape / "
        "renderable, and the pending-text list of the FileProxy objects; every source line of rich/{console,live,live_render,progress,file_proxy,"
        "segment,control,ansi}.py in line mode); preemption inside a source line and C-level reentrancy of file.write are not exhibited",
        "the model's atomic actions are the statement sequences between two shared accesses; thread-local statements commute with "
        "every action of another thread (ConsoleThreadLocals is threading.local)",
        "what a print renders to (its lines) is a parameter of the model, measured on a console without a display",
        "redirect_stdout / redirect_stderr are on; threads write whole, multiple and partial lines through the installed FileProxy objects "
        "(operation W); which lines a write() hands to the console (the completed lines, the first prefixed by what was pending) is observed on "
        "real rich and given to the model (Op.proxyPrint); every scenario completes its partial lines before stop(), so the model's "
        "flushProxies action prints nothing; auto_refresh=False (the refresh thread is one more thread calling refresh())",
    ]
    with multiprocessing.get_context("fork").Pool(NPROC) as pool:
        # phase A: every schedule with at most 1 preemption, complete; phase B: `bound` preemptions, capped per scenario
        phases = [(1, None), (2, per_scn)] if quick else [(1, None), (2, None), (3, per_scn)]
        for phase, (b, budget) in enumerate(phases):
            roots = pool.map(_root_task, [(i, b) for i in range(len(fixed))])
            tasks = []
            for i, (recs, kids) in enumerate(roots):
                if phase == 0:
                    for rec in recs:
                        _absorb(ctx, rec)
                cap = None if budget is None else max(int(budget * CAP_SCALE.get(fixed[i][0], 1)) // max(len(kids), 1), 2)
                tasks += [(i, b, cap, k) for k in kids]
            n_capped = 0
            for (i, _b, cap, _k), recs in zip(tasks, pool.imap(_subtree_task, tasks, chunksize=4)):
                n_capped += cap is not None and len(recs) >= cap
                ctx.note(f"explore-bound{b}-runs:{fixed[i][0]}", len(recs))
                for rec in recs:
                    _absorb(ctx, rec)
            ctx.note(f"explore-bound{b}-subtrees-cut-by-cap", n_capped)
            ctx.note(f"explore-bound{b}-subtrees-complete", len(tasks) - n_capped)
            ctx.flush()
        for recs in pool.imap(_probe_task, range(len(probe_scenarios())), chunksize=1):
            for rec in recs:
                _absorb(ctx, rec)
        for recs in pool.imap(_random_task, rand + line + prox, chunksize=1):
            for rec in recs:
                _absorb(ctx, rec)
    ctx.flush()
    ctx.rule = (
        "a case = one scheduled run of real threads on one console: (scenario, schedule) -> recorded trace of shared accesses, replayed "
        "on the Lean model (trace inclusion + equal observables).  Exhaustive: every schedule with <= 1 preemption (complete), then <= %d "
        "preemptions (depth-first below every first-level node, capped at about %d runs per scenario; the evidence counts the subtrees cut "
        "by the cap) at sync granularity, of %d fixed 2-3 thread scenarios; beyond: seeded random scenarios (2-4 threads, programs <= 3 "
        "ops over print/log/capture/export/update/refresh/advance/start/stop) under random-walk and PCT schedulers, line-granularity runs, "
        "and line probes (one thread preempted at every executed line of live_render.py / live.py / file_proxy.py in turn); three of the fixed "
        "scenarios, four of the probes and a separate random stream have threads writing whole / several / partial lines through the redirected "
        "sys.stdout / sys.stderr; "
        "distinct = distinct (scenario, event trace) requests" % (bound, per_scn, len(fixed))
    )


def replay(ctx, case):
    print("site:", case.get("site"))
    print("input (scenario, schedule):", case.get("input"))
    print("what:", case.get("what"))
    return False


MANIFEST = {
    "text": "Lean 4 theorems (Props/C11.lean) about a labelled transition system of rich/console.py + live.py + live_render.py + "
    "progress.py (Model/Conc.lean: any number of threads, any programs over print/log/capture/export/update/refresh/start/stop/advance, a "
    "schedule is any list of thread ids, one step = one lock operation / one shared access / one file.write / one thread-local "
    "statement), all quantified over EVERY schedule: lock_order_acyclic (live < console < record) and no_deadlock; no internal "
    "error; write_mutual_exclusion; write_own_output_only (a write call = pieces of one thread, one operation); output_exactly_once "
    "(every piece a thread produced is in exactly one place once: one write of that thread, one of its capture results, or its "
    "buffer) + finished_thread_flushed, combined in write_per_print (finished thread: every piece exactly once in its writes / "
    "captures, and the write holding it is that thread's, one operation's); write_calls_per_operation + at_most_one_write_call_per_print "
    "(round 4: the number of file.write CALLS a thread issues during an operation never exceeds the number of write statements in the "
    "operation's code; a print / log has exactly one, under any display, any schedule); capture_isolated; record_order_eq_file_order; live_screen_under_schedules_partial (sessions "
    "whose frames all have one height: replaying the file in file order shows the printed lines then the frame of the last write, "
    "via C10's run_hooked); old_print_vs_taller_refresh_breaks_screen = machine-checked witness schedule for the general screen "
    "statement (finding F22).  20 theorems in all: these, the invariants reach_inv / reach_out, and exports_partition_the_record, "
    "export_reads_a_stable_record, record_eq_file_when_quiet, old_progress_stop_tail_races_start (see note).  Tie: real threads under a deterministic scheduler (harness/sched.py; yield points: every lock "
    "operation, file.write, access to _render_hooks / record buffer / _live_render._shape / renderable, and in line mode every source "
    "line of the five modules); every recorded trace of shared accesses is replayed on the model (trace inclusion) with equal "
    "observables (hook seen, erase height, shape, renderable, bytes of every write, captures, export_text); schedules: all with <= 1 "
    "preemption, then <= 2 (quick: capped; thorough: complete) and <= 3 (thorough, capped at 18000 runs per scenario) of 17 fixed scenarios, plus seeded random scenarios (2-4 threads; quick 960, thorough 38400) "
    "under random-walk / PCT schedulers, line-granularity runs (quick 48, thorough 1440) and line probes; the theorems' executable statements are evaluated on the real "
    "output of every run (one write call per print, capture contents, export order, lock held at every write, no deadlock / "
    "exception, terminal replay of the file).",
    "note": "Redirected sys.stdout / sys.stderr (round 4): the program type has Op.proxyPrint lines = a write() through the FileProxy of a "
    "running display that completes lines (file_proxy.py: `with console: console.print(lines)`, i.e. a print inside one more buffering "
    "level); every theorem covers it (StableOp too, so the constant-height screen theorem covers threads writing through the proxy).  Harness: "
    "operation ('W', stream, text) = one write() call; fixed scenarios live-proxy-lines / live-proxy-partial / progress-proxy-lines (explored like "
    "the others, at 30 % of the run cap), line probes proxy-* (writer preempted at every executed line of rich/file_proxy.py), random proxy "
    "scenarios (quick 96 sync + 16 line-mode runs); the FileProxy's pending-text list is swapped for a traced object (found by type, any "
    "attribute ending in 'buffer'; if absent only line mode sees inside), its accesses are yield points but not events of the model; which "
    "lines each write() handed to console.print is OBSERVED (a spy on console.print) and given to the model, so the assembly of a line "
    "from the shared pending text is NOT modelled (no Model/ConcProxy): the tie for it is the direct evaluation proxy_line_once only.  "
    "Observation outside C11's statement: a PARTIAL line (no newline in its write() call) can be lost or duplicated when another thread is "
    "preempted between `''.join(buffer)` and `del buffer[:]` in FileProxy.write (counted in the evidence as proxy-partial-lost / "
    "-duplicated; complete lines of a single write() call never pass through the shared list and are always intact).  Exports: threads may call export_text / export_html (clear or not) at any time; model: read and clear inside one "
    "critical section of the record lock; theorems exports_partition_the_record (clearing exports in critical-section order + final "
    "record = file, in file order, for every schedule) and export_reads_a_stable_record; direct evaluation walks the real exports in the "
    "order of their record reads and checks the partition against the file (yield points at the record-lock operations, at the read "
    "loop and at the `del`).  Start/stop races: several threads may call start()/stop() of a Live or Progress at once (fixed + random scenarios); direct "
    "evaluation: hook stack depth <= 1 at all times, cursor hidden once, sys.stdout/stderr wrapped once, after stop depth 0 / cursor "
    "visible / a print draws no frame.  Line probes preempt a printing thread at every line of live_render.py / live.py.  Variant flag "
    "STOP_TAIL_UNLOCKED = 1 (model: Cfg.stopTailUnlocked = true; 1 = what /repo does, as in rich 9.10.0 as found): Progress.stop erases / resets _shape after releasing its lock "
    "(witness old_progress_stop_tail_races_start); this is the recorded known finding progress-stop-tail-vs-start (KNOWN-FINDING on every "
    "run): pending_fixes/C11-progress-stop-tail-outside-lock.diff is a proposal that is only safe together with a done-check under the lock "
    "in _RefreshThread.run, so it was not applied.  The torn read of _shape in LiveRender (TypeError under a concurrent Progress.stop) IS "
    "repaired in /repo: fix 5e34007 (= pending_fixes/C11-progress-shape-torn-read.diff).  "
    "PARTIAL: (1) the screen theorem is proved for constant-height sessions only; the code in /repo (as rich 9.10.0 as found) breaks the general statement "
    "(known findings live-print-vs-taller-refresh, live-print-vs-shorter-refresh, live-print-vs-stop, live-print-vs-start, printed as "
    "KNOWN-FINDING like progress-stop-tail-vs-start; one root cause: Console.print reads the display "
    "state in process_renderables and writes later outside the live lock; no small repair).  (2) Preemption inside one source line and "
    "C-level reentrancy are not exhibited; the model's atomic actions are the statement sequences between two shared accesses, and the "
    "unlocked read-modify-write of LiveRender._shape (Progress) is one action in the model.  (3) What a print renders to is a "
    "parameter (its lines); styles, text pending in the sys.stdout / sys.stderr proxies, Jupyter, the auto-refresh thread (modelled as one more thread calling "
    "refresh) are outside the model; capture blocks are not combined with a running display; in the constant-height scenarios start/stop run "
    "before/after the concurrent phase.  (4) the count of write calls per print is now proved as an upper bound (at_most_one_write_call_per_print) and 'exactly once' through "
    "pieces (write_per_print); for Op.proxyPrint the static bound is 2 (its code has two _check_buffer calls; the inner one cannot write "
    "because the buffer depth is 1 — not proved as a count); start/stop idempotence (hook stack depth <= 1, cursor hidden once, io redirected "
    "once) is still checked on real rich and by trace inclusion, not a theorem.  Trusted: Lean kernel, the scheduler and "
    "the event instrumentation (lock proxies, traced list / live_render subclass), harness/term.py.",
    "design_ref": "DESIGN.md section 7, C11",
}
