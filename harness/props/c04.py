"""C04 — markup styles exactly the tagged regions, and escape() neutralises any text.

Correspondence: Lean model (Model/Markup.lean) vs rich.markup.escape / _parse / render,
Text.from_markup and _emoji_replace, in-process.  `Style.normalize` is a parameter of the model: the
(argument -> result) pairs the real `render` used are recorded and handed to the model, which
answers a NUL-marked string for any name the real code did not normalize (so a tokenizer
disagreement can never hide behind the table).  The emoji table is data: the harness hands the
model the `:name:` candidates of the input that rich/_emoji_codes.py knows.  The console glue
(Console.render_str and Console.print of strings: which of markup / emoji is interpreted for every
combination of console defaults and arguments; with a highlighter: whether it is applied, on which
text, and that its spans come in front of the markup's) is compared the same way (driver entries
mk_render_str, mk_print, mk_render_str_h, mk_print_h; mk_emoji for _emoji_replace itself).

Direct evaluation (3d): an independent reference interpreter of the markup semantics
(lib_markup.o_render: hand scanner, open-tag list, vocabulary-based normalize) is compared with
rich's own output on every generated input: plain text, per-character styles in opening order,
MarkupError exactly when a closing tag has nothing to close, render(escape(s)) == s, and the
embedded form.
"""
import multiprocessing
import os
import re

import lib_markup as L
from core import enc_str

PROPERTY = "C04"

# CODE VARIANT FLAGS — the values that match the code in /repo as it is now
# SORT_SPANS = 1: rich 9.10.0 as found: markup.render ends with `text.spans = sorted(spans)` (pre-finding F8);
# SORT_SPANS = 0: repaired code (fix 623ba68, in /repo now), spans kept in the order their tags were opened.
SORT_SPANS = int(os.environ.get("VERIF_C04_SORT_SPANS", "0"))  # 1 = rich 9.10.0 as found (before fix 623ba68)


# ------------------------------------------------------------------------------------------------
# tag-grammar documents
# ------------------------------------------------------------------------------------------------
# (canonical normalized name, spellings usable in an opening tag, spellings usable after '/')
# every attribute name and alias Style.parse accepts (rich/style.py style_attributes)
ATTR13 = [("bold", "b"), ("dim", "d"), ("italic", "i"), ("underline", "u"), ("blink", None), ("blink2", None),
          ("reverse", "r"), ("conceal", "c"), ("strike", "s"), ("underline2", "uu"), ("frame", None),
          ("encircle", None), ("overline", "o")]


def _case(w):
    return w[0] + w[1:].upper() if len(w) > 1 else w  # opening tags must start lower-case ([a-z#/])


def build_vocab():
    """(canonical normalized name, spellings for an opening tag, spellings after '/').  The canonical
    name is written down here (attribute order of Style.__str__, then colour, then `on` colour),
    not asked of rich."""
    v = [
        ("red", ["red", "rED"], ["red", "RED", " red"]),
        ("blue", ["blue"], ["blue"]),
        ("bold red", ["bold red", "red bold", "b red", "red  b", "bold rED"], ["bold red", "red bold", "RED b"]),
        ("on blue", ["on blue", "on  blue"], ["on blue", "ON BLUE"]),
        ("#ff0000", ["#ff0000", "#FF0000"], ["#ff0000", "#Ff0000"]),
        ("red on blue", ["red on blue", "on blue red"], ["red on blue", "on blue red"]),
        ("overline green", ["o green", "green overline"], ["overline green", "green o"]),
        ("not frame on yellow", ["not frame on yellow", "on yellow not frame"], ["not frame on yellow"]),
        ("none", ["none"], ["none", "NONE", " none "]),
        ("foo", ["foo", "fOO", "foo "], ["foo", " FOO ", "Foo"]),
        ("a", ["a"], ["a", "A"]),
        ("b1", ["b1"], ["b1", "B1"]),
        ("x/y", ["x/y"], ["x/y", "X/Y"]),
        ("link", ["link"], ["link", "LINK"]),
    ]
    for name, alias in ATTR13:
        sp = [name, _case(name)] + ([alias, alias + " "] if alias else [name + " "])
        v.append((name, sp, [name, name.upper(), " " + (alias or name) + " "]))
        neg = ["not " + name] + (["not " + alias, "not  " + alias] if alias else ["not  " + name])
        v.append(("not " + name, neg, ["not " + name, "NOT " + (alias or name)]))
    for i, (n1, a1) in enumerate(ATTR13):
        for n2, a2 in ATTR13[i + 1:]:
            s1, s2 = a1 or n1, a2 or n2
            v.append((n1 + " " + n2, [n1 + " " + n2, s2 + " " + s1, s1 + "  " + n2], [n1 + " " + n2, s2 + " " + n1]))
    # mixed: one attribute set, a neighbour cleared (canonical order = attribute order)
    for i in range(len(ATTR13)):
        n1, a1 = ATTR13[i]
        n2, a2 = ATTR13[(i + 5) % len(ATTR13)]
        first, second = (n1, "not " + n2) if i < (i + 5) % len(ATTR13) else ("not " + n2, n1)
        v.append((first + " " + second, ["not " + (a2 or n2) + " " + (a1 or n1), n1 + " not " + n2], [first + " " + second]))
    return v


URLS = ["http://x.org/", "https://e.com/a?b"]


def build_link_vocab():
    """tags that carry a link TOGETHER with attribute words (also negated), colours and `on colour`:
    (canonical normalized name, opening spellings, closing spellings, parameters or None).
    `[not bold link=URL]`: the name `not bold link` is not a style definition, so it normalizes to its
    own stripped lower-case text and the span style is `not bold link URL`;
    `[not bold link URL]`: a style definition, normalized to attribute order, colour, `on` colour, link."""
    v = []
    for i, (name, alias) in enumerate(ATTR13):
        a = alias or name
        u = URLS[i % 2]
        for neg in ("not ", ""):
            for extra, cextra in (("", ""), (" red", " red"), (" on blue", " on blue"), (" #00ff00 on yellow", " #00ff00 on yellow")):
                for w in {name, a}:
                    sp = neg + w + extra + " link"
                    v.append((sp, [sp, sp + " "], [sp, sp.upper(), " " + sp], URLS))
                canon = neg + name + cextra + " link " + u
                sps = [neg + name + extra + " link " + u, "link " + u + " " + neg + a + extra]
                v.append((canon, sps, sps, None))
    return v


VOCAB = build_vocab()
# the attribute tags are drawn more often than their share of the vocabulary
VOCAB_ATTR = [x for x in VOCAB if x[0].split()[-1] in {n for n, _ in ATTR13}]
VOCAB_LINK = build_link_vocab()
VOCAB_ALL = VOCAB + VOCAB_LINK
PARAMS = [None, None, None, "1", "", "http://x.y/z", "a=b", "b c", "[q"]
LEAF_ALPHA = L.ALPHA + ["x", "y", "é", "あ", "\r", "\x08", "A", "smile", "]", "[", "\\", "a", ":", " "]


def gen_leaf(rng, maxlen=6):
    s = "".join(rng.choice(LEAF_ALPHA) for _ in range(rng.randint(0, maxlen)))
    while s.endswith("\\"):
        s = s[:-1] if rng.random() < 0.5 else s + rng.choice("xy ]")
    if not L.admissible(s):
        s += rng.choice(["]", "x]", "\n]"])
    assert L.admissible(s)
    return s


def gen_doc(rng, malformed=False):
    """-> (markup, tokens) with tokens = ('text', leaf) | ('open', canon, params) | ('close', canon) |
    ('closetop',) | ('bad', kind, markup_of_tag)"""
    from rich.markup import escape

    # each document draws from a small sub-vocabulary, so the same name is often open twice
    VOCAB = rng.sample(globals()["VOCAB"], rng.choice([1, 2, 3, 3, 5, 15]))
    if rng.random() < 0.6:
        # a style attribute, and often its negation or a pair containing it (a later tag must override)
        base = rng.choice(ATTR13)[0]
        VOCAB += rng.sample([x for x in VOCAB_ATTR if base in x[0].split()], 3)
        if rng.random() < 0.5:
            # ... and tags that set or clear it together with a link (Console.get_style copies those)
            VOCAB += rng.sample([x for x in VOCAB_LINK if base in x[0].split()], 2)
    toks = []
    parts = []
    open_ = []  # canonical names, in opening order
    n = rng.randint(1, 9)
    bad_at = rng.randrange(n) if malformed else -1
    for i in range(n):
        if i == bad_at:
            if not open_ or rng.random() < 0.5:
                # explicit close of something that is not open
                cands = [v for v in globals()["VOCAB"] if v[0] not in open_]  # (link tags are never the failing close)
                v = rng.choice(cands)
                sp = rng.choice(v[2])
                p = rng.choice([None, None, "z"])
                mk = "[/" + sp + ("]" if p is None else "=" + p + "]")
                toks.append(("bad", "nomatch", mk))
                parts.append(mk)
            else:
                # [/] with nothing open: close everything first
                while open_:
                    open_.pop()
                    toks.append(("closetop",))
                    parts.append("[/]")
                mk = rng.choice(["[/]", "[/ ]", "[/=x]"])
                toks.append(("bad", "nothing", mk))
                parts.append(mk)
            continue
        r = rng.random()
        if r < 0.38:
            leaf = gen_leaf(rng)
            toks.append(("text", leaf))
            parts.append(escape(leaf))
        elif r < 0.72 or not open_:
            v = rng.choice(VOCAB)
            sp = rng.choice(v[1])
            p = rng.choice(PARAMS)
            if len(v) > 3 and v[3] is not None and rng.random() < 0.85:
                p = rng.choice(v[3])
            elif len(v) > 3 and v[3] is None:
                p = None
            toks.append(("open", v[0], p, sp))
            parts.append("[" + sp + ("]" if p is None else "=" + p + "]"))
            open_.append(v[0])
        elif r < 0.9:
            # close by name: mostly the innermost (nesting), sometimes an outer one (overlap)
            q = len(open_) - 1 if rng.random() < 0.6 else rng.randrange(len(open_))
            canon = open_[q]
            v = [x for x in VOCAB_ALL if x[0] == canon][0]
            sp = rng.choice(v[2])
            p = rng.choice([None, None, None, "ignored"])
            # the most recent tag of that name is the one that closes
            idx = max(j for j, c in enumerate(open_) if c == canon)
            open_.pop(idx)
            toks.append(("close", canon))
            parts.append("[/" + sp + ("]" if p is None else "=" + p + "]"))
        else:
            open_.pop()
            toks.append(("closetop",))
            parts.append(rng.choice(["[/]", "[/ ]", "[/=q]", "[/\t]"]))
    return "".join(parts), toks


# ------------------------------------------------------------------------------------------------
# structured strings: arbitrary tag bodies, runs of backslashes, failing closes far from the start
# ------------------------------------------------------------------------------------------------
BODY_ALPHA = ["a", "b", "z", "#", "/", "[", "]", "\\", "=", " ", "\n", "A", "1", ":", "x", "\t", "é", "\r"]
BODY_HEAD = ["a", "b", "z", "#", "/", "/", "A", "1", "[", " ", "=", "`", "{"]


def gen_body(rng, maxlen=12):
    n = rng.randint(0, maxlen)
    if n == 0:
        return ""
    return rng.choice(BODY_HEAD) + "".join(rng.choice(BODY_ALPHA) for _ in range(n - 1))


def gen_body_doc(rng):
    """two or more bracketed bodies over the full alphabet of the tag class and its neighbours (line
    feeds, brackets, backslashes, `=`, blanks inside the body), with 0..7 backslashes in front,
    between plain text, closes of earlier names, `[/]` and escaped leaves"""
    from rich.markup import escape

    parts = []
    names = []
    for _ in range(rng.randint(2, 7)):
        r = rng.random()
        if r < 0.5:
            body = gen_body(rng)
            parts.append("\\" * rng.choice([0, 0, 0, 0, 1, 2, 3, 4, 5, 6, 7]) + "[" + body + "]")
            nm = body.partition("=")[0]
            if nm and "]" not in nm and "\n" not in nm:
                names.append(nm)
        elif r < 0.65 and names:
            parts.append("\\" * rng.choice([0, 0, 0, 2, 4]) + "[/" + rng.choice(names) + rng.choice(["", " ", "=p"]) + "]")
        elif r < 0.72:
            parts.append("[/]")
        elif r < 0.80:
            parts.append("".join(rng.choice(BODY_ALPHA) for _ in range(rng.randint(0, 5))))
        elif r < 0.88:
            # halves of emoji codes on both sides of a tag: replaced only when they fall in one chunk
            parts.append(rng.choice([":", "a:", ":a", ":a:", ":smile:", ":smile", "smile:", "b:", ":A:", ":b"]))
        else:
            parts.append(escape(gen_leaf(rng)))
    return "".join(parts)


def gen_far_error(rng):
    """a closing tag with nothing to close behind k >= 2 backslashes, after some well-formed prefix:
    the reported position must skip the literal backslashes (`start += backslashes * 2`)"""
    from rich.markup import escape

    pre = "".join(rng.choice(["x", "[b]", "[/]" if False else "y ", "[a=1]", escape(gen_leaf(rng, 4)), "\\\\[i]", "\\[u]", "\n"]) for _ in range(rng.randint(0, 5)))
    k = rng.choice([2, 3, 4, 5, 6, 7, 8, 9])
    tag = rng.choice(["[/q]", "[/ q ]", "[/q=1]", "[/Q]"])
    post = rng.choice(["", "z", "[b]"])
    return pre + "\\" * k + tag + post


def corner_docs():
    """bounded-exhaustive corner class: every attribute x both polarities of the enclosing region x
    an inner tag that sets the OPPOSITE polarity, alone or with a colour / `on` colour / both, and
    with no link / `link=URL` (parameter form) / `link URL` (inside the name), the inner region
    closed by `[/]` (nested) or the outer one closed first by name (overlapping).
    -> (markup, tokens, style definition of the inner tag as written)"""
    n = 0
    for name, alias in ATTR13:
        for outer_on in (True, False):
            outer = name if outer_on else "not " + name
            opp = ("not " if outer_on else "") + name
            for extra in ("", " red", " on blue", " #00ff00 on yellow"):
                for link in (0, 1, 2):
                    n += 1
                    w = (alias or name) if n % 2 else name
                    u = URLS[n % 2]
                    inner = ("not " if outer_on else "") + w + extra
                    osp = outer if n % 3 else (("not " if not outer_on else "") + (alias or name))
                    if link == 0:
                        canon, sp, par = opp + extra, inner, None
                    elif link == 1:
                        canon, sp, par = inner + " link", inner + " link", u
                    else:
                        canon, sp, par = opp + extra + " link " + u, (inner + " link " + u if n % 4 < 2 else "link " + u + " " + inner), None
                    tag = "[" + sp + ("]" if par is None else "=" + par + "]")
                    written = sp if par is None else sp + " " + par
                    nested = ("[%s]a%sb[/]c[/]d" % (osp, tag),
                              [("open", outer, None, osp), ("text", "a"), ("open", canon, par, sp), ("text", "b"), ("closetop",), ("text", "c"), ("closetop",), ("text", "d")])
                    overlap = ("[%s]a%sb[/%s]c" % (osp, tag, outer),
                               [("open", outer, None, osp), ("text", "a"), ("open", canon, par, sp), ("text", "b"), ("close", outer), ("text", "c")])
                    yield nested[0], nested[1], written
                    yield overlap[0], overlap[1], written


def expect_doc(toks):
    """token-level meaning of a document: ('ok', plain, ann, spans) | ('err', kind, position, tagmarkup)"""
    from rich.markup import escape

    plain = ""
    ann = []
    ann_w = []  # per character: the style definitions of the open tags AS WRITTEN (name [+ " " + parameters])
    open_ = []  # [idx, start, canon, stylestr, as written]
    spans = {}
    nopen = 0
    for t in toks:
        if t[0] == "text":
            s = L.strip_ctl(t[1])
            plain += s
            ann.extend([tuple(o[3] for o in open_)] * len(s))
            ann_w.extend([tuple(o[4] for o in open_)] * len(s))
        elif t[0] == "open":
            st = t[1] if t[2] is None else t[1] + " " + t[2]
            open_.append([nopen, len(plain), t[1], st, t[3] if t[2] is None else t[3] + " " + t[2]])
            nopen += 1
        elif t[0] == "close":
            idx = max(j for j, o in enumerate(open_) if o[2] == t[1])
            o = open_.pop(idx)
            spans[o[0]] = (o[1], len(plain), o[3])
        elif t[0] == "closetop":
            o = open_.pop()
            spans[o[0]] = (o[1], len(plain), o[3])
        else:
            return ("err", t[1], t[2])
    for o in open_:
        spans[o[0]] = (o[1], len(plain), o[3])
    return ("ok", plain, ann, [spans[i] for i in range(nopen)], ann_w)


def show_style(st):
    """a Style by its fields (not through Style.__str__, which is one of the things under test)"""
    d = {n: getattr(st, n) for n, _ in ATTR13 if getattr(st, n) is not None}
    for k in ("color", "bgcolor", "link"):
        if getattr(st, k) is not None:
            d[k] = getattr(st, k).name if k != "link" else st.link
    return d


def char_styles(text, console):
    """per-character Style of a Text as real Text.render yields it"""
    out = []
    for seg in text.render(console):
        out.extend([seg.style] * len(seg.text))
    return out


# ------------------------------------------------------------------------------------------------
def merge(ctx, res):
    """fold one worker result into the Ctx (counts, failures, worker-side model diff)"""
    for k, n in res["notes"].items():
        ctx.note(k, n)
    fc = res["failcount"]
    for site, n in res["nprop"].items():
        nf = sum(c for (s, _f), c in fc.items() if s == site)
        ctx.dist["prop:" + site] += n - nf
    for site, inp, what, finding in res["fails"]:
        ctx.check(False, site, inp, what, finding=finding)
        extra = fc[(site, finding)] - 1
        if extra:
            ctx.dist["prop:" + site] += extra
            ctx.dist["PROPFAIL:" + site + (":" + finding if finding else "")] += extra
    if "cases" in res:
        for fn, args, ans, shape, sample in res["cases"]:
            ctx.case(fn, args, ans, shape=shape, sample=sample)
    elif "diff" in res:
        compared, agreed, unm, mism, byfn = res["diff"]
        ctx.evaluations += res["ncases"]
        ctx.compared += compared
        ctx.agreed += agreed
        ctx.unmodelled += unm
        for m in mism:
            if len(ctx.mismatches) < 50:
                ctx.mismatches.append(m)
        for k, n in byfn.items():
            ctx.dist[("" if k.startswith("MISMATCH:") else "fn:") + k] += n
        return res["ncases"]
    return 0


def merge_out(ctx, out):
    """fold an in-process lib_markup.Out into the Ctx"""
    res = {"notes": out.notes, "nprop": out.nprop, "fails": [], "failcount": {}, "cases": out.cases}
    best = {}
    for f in out.fails:
        k = (f[0], f[3])
        res["failcount"][k] = res["failcount"].get(k, 0) + 1
        if k not in best or len(repr(f[1])) < len(repr(best[k][1])):
            best[k] = f
    res["fails"] = list(best.values())
    merge(ctx, res)


def run(ctx):
    import rich.markup as markup
    from rich.console import Console
    from rich.errors import MarkupError
    from rich.style import Style
    from rich.text import Text

    rng = ctx.rng
    L.install_recorder()
    L.CLASSIFY_F8 = bool(SORT_SPANS)
    ctx.assumptions += [
        "Style.normalize is a parameter of the model: the pairs the real render() used are recorded per call and replayed by the model (a name the real code never normalized answers a NUL-marked string, i.e. a mismatch); "
        "its contract (equal styles -> equal strings, non-styles -> strip().lower()) is checked by the oracle on a fixed tag vocabulary",
        "emoji lookup EMOJI.get(name.lower()) is data handed to the model per request; the `:name:` scanner is modelled",
        "str.isspace / regex \\s of the running CPython = Model.pyIsSpace (compared on code points every run)",
        "regex leftmost-first semantics with greedy \\\\* and lazy .*? for RE_TAGS, escape's pattern and the emoji pattern: modelled by hand scanners, tied by the exhaustive correspondence",
        "Text._length of the early-exit path `Text(markup)` (pre-finding F1, property C05) is not observed here: only plain and spans are",
    ]
    sharded_distinct = 0

    # ---- 0. white space classes (str.strip in closing tags, \S in emoji codes)
    cps = [cp for cp in range(0x110000) if not (0xD800 <= cp <= 0xDFFF) and (cp < 0x3100 or not ctx.quick or cp % 97 == 0)]
    ws = re.compile(r"\s")
    bad = None
    for cp in cps:
        ch = chr(cp)
        sp = ch.isspace()
        if (ws.fullmatch(ch) is not None) != sp and bad is None:
            bad = cp
        ctx.case("mk_isspace", [cp], "1" if sp else "0")
    ctx.check(bad is None, "python:\\s==isspace", bad, "regex \\s and str.isspace differ (assumption of the model)")
    ctx.flush()

    # ---- 1. exhaustive strings over the 12-symbol alphabet, sharded by 2-symbol prefix
    maxlen = 5 if ctx.quick else 7
    full_upto = 5 if ctx.quick else 5
    jobs = [(p, m, 2, SORT_SPANS, ctx.driver_ok, full_upto) for p, m in L.shards(maxlen, 2)]
    maxlen2 = 4 if ctx.quick else 5
    jobs += [(p, m, 2, SORT_SPANS, ctx.driver_ok, maxlen2, 2) for p, m in L.shards(maxlen2, 2, L.ALPHA2)]
    nproc = min(16, os.cpu_count() or 1)
    mp = multiprocessing.get_context("fork")
    nstr = 0
    with mp.Pool(nproc) as pool:
        for res in pool.imap(L.work_shard, jobs, chunksize=1):
            nstr += res["n"]
            sharded_distinct += merge(ctx, res)
    ctx.note("exhaustive:strings", nstr)
    ctx.exhaustive = True
    # the same strings up to length 3 once more through the standard queue (samples, replay of the plain path)
    out = L.Out()
    for s in L.shard_strings("", 3):
        L.check_string(out, s, SORT_SPANS, level=2)
    merge(ctx, {"notes": {}, "failcount": {}, "nprop": {}, "fails": [], "cases": out.cases})
    ctx.flush()

    # ---- 2. longer random strings: the alphabet plus classes the code branches on elsewhere
    extra = L.ALPHA + ["[", "]", "\\", "[", "]", "z", "A", "\r", "\x0b", "\t", "é", "あ", ":", "a", "b", "/", " ", "x"]
    n_rand = 6000 if ctx.quick else 30000
    out = L.Out()
    for _ in range(n_rand):
        s = "".join(rng.choice(extra) for _ in range(rng.randint(6, 24)))
        L.check_string(out, s, SORT_SPANS, level=2)
        ctx.note("random:len%d" % (len(s) // 6 * 6))
    res = {"notes": out.notes, "nprop": out.nprop, "fails": [], "failcount": {}, "cases": out.cases}
    best = {}
    for f in out.fails:
        k = (f[0], f[3])
        res["failcount"][k] = res["failcount"].get(k, 0) + 1
        if k not in best or len(repr(f[1])) < len(repr(best[k][1])):
            best[k] = f
    res["fails"] = list(best.values())
    merge(ctx, res)
    ctx.flush()

    # ---- 3. documents from the tag grammar (nested and overlapping tags, escaped leaves)
    console = Console(width=80, color_system="truecolor", force_terminal=True, legacy_windows=False)
    null = Style.null()
    n_docs = 7000 if ctx.quick else 40000
    corner = list(corner_docs())
    ctx.note("doc:corner-link-negation", len(corner))
    for i in range(n_docs + len(corner)):
        base = None
        if i < len(corner):
            # bounded-exhaustive corner class first; every third one also with the inner tag's style as
            # the BASE style of the Text (Text.from_markup(style=...)), observed through Text.render and get_style_at_offset
            malformed = False
            mk, toks, written = corner[i]
            if i % 3 == 0:
                base = written
        else:
            malformed = rng.random() < 0.2
            mk, toks = gen_doc(rng, malformed)
        exp = expect_doc(toks)
        ans, tbl, res = L.real_render(mk, False)
        ctx.note("doc:" + ("malformed" if malformed else "wellformed") + ":tokens%d" % min(len(toks), 9))
        shape = "err" if exp[0] == "err" else "spans%d" % min(len(exp[3]), 4)
        ctx.case("mk_render", [enc_str(mk), 0, SORT_SPANS, L.enc_table(tbl), "0:"], ans, shape=shape, sample=f"render({mk!r}, emoji=False)")
        ctx.case("mk_parse", [enc_str(mk)], L.real_parse(mk))
        if i % 4 == 0:
            ans_m, tbl_m, _ = L.real_render(mk, True, via_text=True)
            ctx.case("mk_render", [enc_str(mk), 1, SORT_SPANS, L.enc_table(tbl_m), L.enc_table(L.emoji_table(mk))], ans_m, shape="emoji")
        if exp[0] == "err":
            ok = isinstance(res, MarkupError)
            ctx.check(ok, "doc:error_iff_nothing_to_close", mk, f"closing tag {exp[2]!r} has nothing to close but render returned {ans[:80]}")
            if ok:
                pos = mk.index(exp[2]) if mk.count(exp[2]) == 1 else None
                want = (f"closing tag '{exp[2]}' at position" if exp[1] == "nomatch" else "closing tag '[/]' at position")
                tail = " doesn't match any open tag" if exp[1] == "nomatch" else " has nothing to close"
                okm = str(res).startswith(want) and str(res).endswith(tail) and (pos is None or f" at position {pos} " in str(res))
                ctx.check(okm, "doc:error-message", mk, f"message {str(res)!r}")
            continue
        _, plain, ann, want_spans, ann_w = exp
        if not ctx.check(not isinstance(res, Exception), "doc:error_iff_nothing_to_close", mk, f"every closing tag has something to close but render raised {res!r}"):
            continue
        ctx.check(res.plain == plain, "doc:plain", mk, f"plain {res.plain!r}, expected the leaves {plain!r}")
        got = L.spans_of(res)
        okc = L.cover(got, len(plain)) == ann and len(got) == len(want_spans)
        is_f8 = (not okc) and res.plain == plain and L.f8_shape(got, want_spans)
        ctx.check(okc, "doc:tags_style_exactly", mk, f"spans {got!r}; expected (opening order, later wins) {want_spans!r}", finding=L.F8_SLUG if (is_f8 and L.CLASSIFY_F8) else None)
        # the same statement observed through real Text.render: the Style each character is drawn with
        if res.plain == plain:
            try:
                real = char_styles(res, console)
            except Exception as exc:  # spans Text.render cannot digest: a failure of the property, not of the harness
                ctx.check(False, "doc:Text.render-effective-style", mk, f"Text.render raised {exc!r} on the spans {got!r}")
                continue
            want = [Style.combine([console.get_style(st, default=null) for st in a]) if a else null for a in ann]
            ok = len(real) == len(want) and all(r == w for r, w in zip(real, want))
            ctx.check(ok, "doc:Text.render-effective-style", mk, "the style a character is drawn with is not the combination of the tags open there, later-opened winning",
                      finding=L.F8_SLUG if (L.CLASSIFY_F8 and (not ok) and L.f8_shape(got, want_spans)) else None)
            # the EFFECTIVE style, judged from the tag texts as written: independent of Style.normalize,
            # Style.__str__ and Style.parse (own word parser + Style's keyword constructor)
            memo = {}
            want_w = []
            undecided = False
            for a in ann_w:
                if a not in memo:
                    sts = [L.o_style(w) for w in a]
                    memo[a] = None if any(x is None for x in sts) else (Style.combine(sts) if sts else null)
                undecided = undecided or memo[a] is None
                want_w.append(memo[a])
            if undecided:
                ctx.note("oracle:style-undecided")
            else:
                bad_at = next((i for i, (r, w) in enumerate(zip(real, want_w)) if r != w), None)
                ctx.check(len(real) == len(want_w) and bad_at is None, "doc:effective-style-as-written", mk,
                          "character %r is drawn with style %r; the tags open there, as written %r, combine to %r"
                          % ((bad_at, show_style(real[bad_at]), ann_w[bad_at], show_style(want_w[bad_at])) if bad_at is not None else (None, None, None, None)))
            # the same, FIELD BY FIELD and without any Style object in the expectation: every tag overrides
            # exactly the settings it speaks about (tri-state attributes, colour, background, link), composed
            # by the harness from the tag texts as written; observed through Text.render and through
            # Text.get_style_at_offset (both resolve span styles with Console.get_style, which copies a
            # style that has a link), also under a base style of the Text
            try:
                tb = res if base is None else Text.from_markup(mk, style=base)
                real_b = real if base is None else char_styles(tb, console)
            except BaseException as exc:  # noqa: BLE001
                ctx.check(False, "doc:effective-style-fields", (mk, base), f"Text.from_markup(style={base!r}) / Text.render raised {exc!r}")
                continue
            pre_w = () if base is None else (base,)
            fmemo = {}
            if not ctx.check(len(real_b) == len(ann_w), "doc:effective-style-fields", (mk, base) if base else mk, "Text.render yields %d characters, expected %d" % (len(real_b), len(ann_w))):
                continue
            for p in range(len(real_b)):
                a = pre_w + ann_w[p]
                first = a not in fmemo
                if first:
                    fmemo[a] = L.o_compose(a)
                wantf, allstyle = fmemo[a]
                if wantf is None:
                    ctx.note("oracle:style-undecided")
                    continue
                gotf = show_style(real_b[p])
                ctx.check(gotf == wantf, "doc:effective-style-fields", (mk, base) if base else mk,
                          "character %d is drawn with %r; the tags open there, as written %r, compose to %r" % (p, gotf, a, wantf))
                if allstyle and first:
                    try:
                        at = show_style(tb.get_style_at_offset(console, p))
                    except BaseException as exc:  # noqa: BLE001
                        at = "raised %r" % (exc,)
                    ctx.check(at == wantf, "doc:get_style_at_offset", (mk, base) if base else mk,
                              "get_style_at_offset(%d) = %r; the tags open there, as written %r, compose to %r" % (p, at, a, wantf))
                    if any("link" in w.split() for w in a):
                        ctx.note("doc:fields:link+" + ("negation" if any("not" in w.split() for w in a) else "positive"))
            # and Text.render itself means "covering spans in list order, later wins"
            fold = [Style.combine([console.get_style(st, default=null) for st in c]) if c else null for c in L.cover(got, len(plain))]
            ctx.check(len(real) == len(fold) and all(r == w for r, w in zip(real, fold)), "Text.render-vs-span-fold", mk, "Text.render disagrees with the fold of the covering spans in list order")
    ctx.flush()

    # ---- 4. glue: Text.from_markup / render pass style, justify, overflow and the emoji flag through
    for mk in ["", "plain", "a[b]c[/b]", "[", ":a:", "[b]:a:[/b]", "\\[b]"]:
        for emoji in (True, False):
            t = Text.from_markup(mk, style="red", emoji=emoji, justify="center", overflow="fold")
            r = markup.render(mk, "red", emoji)
            r0 = markup.render(mk, emoji=emoji)
            ok = t.style == "red" and t.justify == "center" and t.overflow == "fold" and t.plain == r.plain and t.spans == r.spans and r.style == "red" and r0.style == "" and r0.plain == r.plain
            ctx.check(ok, "from_markup:glue", (mk, emoji), "from_markup / render lost style, justify, overflow or changed the text")
        d1, d2 = Text.from_markup(mk), markup.render(mk)
        dt = markup.render(mk, emoji=True)
        ctx.check(d1.plain == dt.plain and d2.plain == dt.plain, "from_markup:glue", mk, "the default of `emoji` is not True")
    ctx.flush()


    # ---- 5. glue: Console.render_str / Console.print of strings decide whether markup and emoji are interpreted
    combos = [(ce, cm, e, m) for ce in (True, False) for cm in (True, False) for e in (None, True, False) for m in (None, True, False)]
    out = L.Out()
    glue_strings = list(L.shard_strings("", 3))
    if not ctx.quick:
        glue_strings += [s for s in L.shard_strings("", 4) if len(s) == 4 and L.interesting(s)]
    for s in glue_strings:
        for ce, cm, e, m in combos if len(s) <= 2 else rng.sample(combos, 6):
            L.check_glue(out, [s], " ", ce, cm, e, m, full=len(s) <= 2 or rng.random() < 0.3)
    n_glue = 2500 if ctx.quick else 12000
    seps = [" ", "", ", ", "\n", ":", "[", "\r"]
    for i in range(n_glue):
        k = rng.choice([1, 1, 2, 3])
        strs = []
        for _ in range(k):
            r = rng.random()
            if r < 0.4:
                strs.append(gen_doc(rng, rng.random() < 0.15)[0])
            elif r < 0.6:
                strs.append(gen_body_doc(rng))
            elif r < 0.8:
                strs.append("".join(rng.choice(extra) for _ in range(rng.randint(0, 10))))
            else:
                strs.append(markup.escape(gen_leaf(rng)))
        ce, cm, e, m = rng.choice(combos)
        L.check_glue(out, strs, rng.choice(seps), ce, cm, e, m)
        ctx.note("glue:n%d" % k)
    merge_out(ctx, out)
    ctx.flush()

    # ---- 5b. the same glue with a highlighter: Console(highlight=), render_str(highlight=, highlighter=), print(highlight=)
    hcombos = [(ce, cm, ch, e, m, h, ua) for ce in (True, False) for cm in (True, False) for ch in (True, False)
               for e in (None, True, False) for m in (None, True, False) for h in (None, True, False) for ua in (False, True)]
    out = L.Out()
    focus = ["1", "[b]1[/b]1", "a[b]1 2[/b]:a:", "[red]None[/red]x", "[b]'s'[/]", "\\[b]1", "1[/]", "[i]a[b]True[/i]aa[/b]", ":1:[u]:[/u]1:", "[b]\r1[/b]"]
    for s in focus:
        for c in hcombos:
            L.check_glue_h(out, [s], " ", *c)
    for s in L.shard_strings("", 2):
        for c in rng.sample(hcombos, 8):
            L.check_glue_h(out, [s], " ", *c)
    n_hl = 1200 if ctx.quick else 8000
    for i in range(n_hl):
        strs = []
        for _ in range(rng.choice([1, 1, 2, 3])):
            r = rng.random()
            if r < 0.5:
                strs.append(gen_doc(rng, rng.random() < 0.1)[0])
            elif r < 0.8:
                strs.append("".join(rng.choice(extra + ["1", "2", "'", "True", "="]) for _ in range(rng.randint(0, 10))))
            else:
                strs.append(markup.escape(gen_leaf(rng)))
        c = rng.choice(hcombos)
        if rng.random() < 0.5:
            c = (c[0], True, True) + c[3:]  # markup and highlighting on by default: the case where both style a character
        L.check_glue_h(out, strs, rng.choice(seps), *c)
    merge_out(ctx, out)
    ctx.flush()

    # ---- 5c. _emoji_replace itself (driver entry mk_emoji): every string <= 4 over 10 symbols that spell short
    # codes of the real table (:a: :b: :o: :ok: :ab: :100: :1234: :-1: ...), white space inside a code, upper case
    from rich._emoji_replace import _emoji_replace
    import itertools as _it

    EA = [":", "a", "b", "o", "k", "1", "-", "A", " ", "\n"]
    nem = 0
    for n in range(0, 5):
        for t in _it.product(EA, repeat=n):
            s = "".join(t)
            if n == 4 and s.count(":") < 2:
                continue
            try:
                got = _emoji_replace(s)
            except BaseException as exc:  # noqa: BLE001
                ctx.check(False, "emoji_replace:exception", s, f"_emoji_replace raised {exc!r}")
                continue
            nem += 1
            ctx.case("mk_emoji", [enc_str(s), L.enc_table(L.emoji_table(s))], enc_str(got), shape="changed" if got != s else "same")
            ctx.check(got == L.o_emoji(s), "emoji_replace:leftmost-lazy-no-space", s, f"_emoji_replace -> {got!r}, expected {L.o_emoji(s)!r}")
    ctx.note("emoji_replace:strings", nem)
    for _ in range(1500 if ctx.quick else 10000):
        s = "".join(rng.choice(EA + [":", ":", "smile", "+", "0", "é", "\t", "x", "thumbs_up", "_"]) for _ in range(rng.randint(5, 14)))
        got = _emoji_replace(s)
        ctx.case("mk_emoji", [enc_str(s), L.enc_table(L.emoji_table(s))], enc_str(got), shape="changed" if got != s else "same")
        ctx.check(got == L.o_emoji(s), "emoji_replace:leftmost-lazy-no-space", s, f"_emoji_replace -> {got!r}, expected {L.o_emoji(s)!r}")
    ctx.flush()

    # ---- 6. structured strings: arbitrary tag bodies up to 12 characters, backslash runs, far error positions
    out = L.Out()
    n_body = 4000 if ctx.quick else 30000
    for _ in range(n_body):
        s = gen_body_doc(rng)
        L.check_string(out, s, SORT_SPANS, level=2)
        ctx.note("bodydoc:len%d" % min(len(s) // 10 * 10, 60))
    for _ in range(n_body // 3):
        s = gen_far_error(rng)
        L.check_string(out, s, SORT_SPANS, level=1)
        ctx.note("farerror")
    merge_out(ctx, out)
    ctx.flush()

    ctx.extra_cov["distinct_nontrivial"] = len(ctx.distinct) + sharded_distinct
    ctx.rule = (
        "every string of length <= %d over the 12 symbols %r and every string of length <= %d over the 16 boundary symbols %r (%d strings in all; each gives one request per modelled function: "
        "escape, _parse, render(emoji=False), render(escape(s)), Text.from_markup(emoji=True); beyond length %d only strings in "
        "which RE_TAGS can match go to the model, all go through the direct evaluation) + %d seeded random strings of length 6..24 "
        "+ %d seeded tag-grammar documents (nested/overlapping/implicit closes, ~130 tag names x spellings x parameters: every attribute of Style and its alias alone, negated and in pairs, colours, links, non-styles, escaped leaves, 20%% malformed) "
        "+ structured strings (2-7 bracketed bodies of length <= 12 over the tag class, its neighbours, line feed, brackets, backslash, '=', blanks; "
        "0-7 backslashes in front; failing closes behind 2-9 backslashes) + Console.render_str / Console.print on all strings <= 3 over the 12 symbols (all 36 flag combinations up to length 2, 6 seeded ones of the 36 at length 3) and seeded lists of 1-3 strings; "
        "+ link-bearing tags (280 names: every attribute, plain and negated, alone / with colour / `on` colour / both, with `link=URL` as parameter or `link URL` inside the name) drawn into the documents together with tags that set the opposite, "
        "and the bounded-exhaustive corner class of 624 documents (13 attributes x polarity of the enclosing region x 4 colour forms x 3 link forms x nested/overlapping; every third also under a base style of the Text), "
        "the effective style compared field by field (tri-state attributes, colour, background, link) through Text.render and Text.get_style_at_offset; "
        "+ the glue with a highlighter: 10 focus strings x all 432 combinations of Console(emoji, markup, highlight) x render_str/print arguments (emoji, markup, highlight: None/True/False) x highlighter argument given or not, "
        "every string <= 2 over the 12 symbols x 8 seeded combinations, %d seeded lists of 1-3 strings; + _emoji_replace on every string <= 3 (and every string of length 4 with two colons) over 10 symbols spelling short codes of the real table, 1500 seeded longer ones; "
        "distinct = distinct canonical request lines (exhaustive shards enumerate distinct strings by construction)"
        % (maxlen, L.ALPHA, maxlen2, L.ALPHA2, nstr, full_upto, n_rand, n_docs, n_hl)
    )


def replay(ctx, case):
    """re-evaluate one recorded failing input on the real code"""
    L.install_recorder()
    inp = case.get("input")
    out = L.Out()
    if isinstance(inp, (list, tuple)) and len(inp) == 3:
        inp = inp[1]
    if not isinstance(inp, str):
        print("cannot replay input", inp)
        return False
    L.check_string(out, inp, SORT_SPANS, level=0)
    for f in out.fails:
        print("FAILS:", f[0], repr(f[1]), f[2])
    return not out.fails


MANIFEST = {
    "text": "Lean 4 theorems (Props/C04.lean; no bound on string length, number of tags or nesting; `Style.normalize`, the emoji "
    "table and the white-space class arbitrary): scan_partition and scan_bump for the hand-written scanner of RE_TAGS (escape turns k "
    "backslashes into 2k+1 and the scanner then sees exactly the bumped items); a refinement proof that the render loop (offset stack "
    "+ span slots) computes a reference semantics over the chunks `_parse` yields, each chunk going through _emoji_replace and "
    "strip_control_codes on its own: tags_style_exactly for EVERY markup string with emoji on or off (fails exactly when a closing tag "
    "has nothing to close, else at every character of the replaced text the covering spans in list order are the tags open there in "
    "opening order), tags_style_exactly_doc for documents of the tag grammar, render_escape_embedded under the statement's side "
    "condition (selfContained_iff states it in the statement's words), error_iff_nothing_to_close for any emoji setting and either "
    "span order; render_escape for EVERY string: with emoji off, or with emoji on when the string has no `:name:` of the table, "
    "render(escape(s)) = (s minus the four control codes Text strips, no spans), never raising; render_escape_emoji_exact gives the "
    "result for every string and table, render_escape_emoji_witness shows `:a:` is not protected by escape(). Glue: render_str with "
    "markup disabled never interprets the text (render_str_markup_off), with markup enabled it is markup.render with the emoji flag "
    "resolved `arg or (arg is None and default)` (render_str_markup_on, triFlag_spec), print_escape through Console.print. "
    "Highlighter glue (Model/MarkupHL.lean; a highlighter is an arbitrary span source): render_str_highlight (render_str with highlighting = same failure, "
    "same plain text, the highlighter's spans on the final plain text IN FRONT of the markup's spans), markup_wins_over_highlight (every markup string, any "
    "highlighter, any emoji setting: at every character the covering spans are the highlighter's styles first, then exactly the tags open there in opening "
    "order - a tag always overrides the highlighter), render_str_highlight_off, print_highlight_decision / print_highlight_on (Console.print highlights its "
    "strings exactly when the console default is on and the argument is not False: the argument True is not passed on to render_str - the code as it is, "
    "outside the statement of C04). "
    "old_tags_style_exactly* keep the `decide` witnesses that rich 9.10.0's `sorted(spans)` broke the precedence (F8, fixed by 623ba68). "
    "Tie: ~1.5M model-vs-rich comparisons per quick run (every string <= 5 over the 12-symbol alphabet and <= 4 over 16 class-boundary "
    "symbols through escape, _parse, render, Text.from_markup with emoji on; random strings; 7000 tag-grammar documents; 5000 structured "
    "strings with arbitrary tag bodies up to 12 characters, backslash runs up to 7 and failing closes behind up to 9 backslashes; "
    "Console.render_str / Console.print over all 36 flag combinations; the same with a recorded ReprHighlighter on the console and a second, regex highlighter as argument over all 432 combinations of "
    "console defaults and arguments, ~13.5k requests; _emoji_replace itself on ~3.1k strings), and the theorems' executable statements evaluated on rich's own "
    "output against an independent reference interpreter, on real Text.render for the documents, and on the characters Console.print writes.",
    "note": "Trusted: Lean kernel; axioms propext/Classical.choice/Quot.sound; the correspondence harness; regex leftmost/greedy/lazy "
    "semantics for three patterns is modelled by hand scanners and tied only by the (exhaustive-to-length-5/7) correspondence. "
    "Parameters, not verified: Style.normalize (recorded from the real call and replayed by the model; its contract is checked by the "
    "oracle on a ~130-name vocabulary covering all 13 Style attributes and aliases alone, negated and in pairs; the style each character is drawn with is judged against Style objects built from the tag texts as written by the harness's own word parser, not through Style.parse/normalize/__str__; since round 4 also FIELD BY FIELD against plain dicts composed by the harness (no Style object in the expectation, so Style.copy / __add__ / combine cannot hide a lost setting), "
    "through Text.render and Text.get_style_at_offset, on documents whose tags combine attribute words incl. `not X`, colours, `on colour` and both link forms, nested in regions that set the opposite (624 bounded-exhaustive corner documents + random), also under a Text base style), "
    "the highlighter (an arbitrary function in the theorems; in the tie the spans the real highlighter produced for each plain text are recorded and replayed, an unseen text answers a NUL-styled span), the EMOJI table (data handed to the model per request), str.isspace (compared on code points). "
    "Console glue is modelled with and without a highlighter, with no console-level style (Console(style=) wraps the Text in Styled, outside this model) and justify=None; style/justify/overflow pass-through is "
    "checked directly, not modelled (with a highlighter render_str returns a fresh Text and DROPS style/justify/overflow - code as it is, not asserted). The emoji table is still data per request, not a generated Lean table. Code variant flag: SORT_SPANS = 0 (the repaired span order of fix 623ba68, what /repo contains; "
    "1 = rich 9.10.0 as found, `text.spans = sorted(spans)`, env VERIF_C04_SORT_SPANS). No known finding is open for this property: "
    "with SORT_SPANS = 0 no failure is ever classified as a known finding and no KNOWN-FINDING line is printed (only with "
    "SORT_SPANS = 1 are span-order failures classified as `markup-same-start-precedence`, F8).",
    "design_ref": "DESIGN.md section 7, C04; section 8, F8",
}
