"""C20 — named styles resolve through a well-behaved theme stack.

Correspondence: Lean model (Model/Theme, Model/ThemeThreads, Model/ConfigParser) vs rich.theme / rich.console, in-process
(threads: real threads handed one atomic step at a time).
Direct evaluation (3d): the executable statements of the theorems in Props/C20.lean on the real outputs,
with an oracle written from the property statement (a list of (theme, inherit) frames over a base),
independent of the Lean model.
"""
import configparser
import io
import itertools
import os
import queue
import tempfile
import threading

from core import enc_bool, enc_str, enc_str_list

PROPERTY = "C20"

# CODE VARIANT FLAGS  (the value that matches the code in /repo as it is now; 1 = rich 9.10.0 as found; see Model/Theme.lean,
# Model/ConfigParser.lean).  F14 and F15 are repaired in /repo (0); CFG_LOWER stays 1: it is the known finding config-name-case.
CTX_IGNORES_INHERIT = 0  # F14: ThemeContext.__enter__ calls push_theme(self.theme) without inherit=self.inherit (0: repaired, fix 2ea71d3)
CFG_LOWER = 1  # Theme.from_file uses ConfigParser() with optionxform = str.lower (known finding config-name-case: not repaired, 1 matches /repo)
STACK_SHARED = 1  # documentation of the code, not a defect: ConsoleThreadLocals(theme_stack=ThemeStack(...)) - threading.local re-runs __init__ with the same ThemeStack object, so all threads share one stack (model variant compared in the correspondence)
CFG_INTERP = 0  # F15: Theme.from_file uses ConfigParser() with BasicInterpolation ('%' is special) (0: repaired, fix 1124f7d)


class UserErr(Exception):
    """the exception a `raise` statement of a generated history raises inside a use_theme block"""


# ------------------------------------------------------------------ encoding
ATTRS = ["bold", "dim", "italic", "underline", "blink", "blink2", "reverse", "conceal", "strike", "underline2", "frame", "encircle", "overline"]


def _ckey(c):
    if c is None:
        return None
    try:
        return (c.name, int(c.type), c.number, None if c.triplet is None else tuple(c.triplet))
    except Exception:
        return ("?", repr(c))


def skey(st):
    """A style field by field through its public accessors: colours, every attribute as a tri-state (True / False
    = "not X" / None = unset - this is the attribute bits AND the set mask), the link, truthiness, and the derived
    str() and hash().  Deliberately NOT Style.__eq__ / __hash__ / __str__ alone: a copy that carries the cached hash and
    definition of its original but lost a field still compares unequal here."""
    try:
        return (_ckey(st.color), _ckey(st.bgcolor), tuple(getattr(st, a) for a in ATTRS), st.link, bool(st), str(st), hash(st))
    except Exception as e:  # a broken style object is a value to compare (never equal to a sound one), not a harness crash
        return ("broken", type(e).__name__, id(st))


def same_style(a, b):
    """structural equality (and Style.__eq__ must agree with it)"""
    if a is b:
        return True
    try:
        eq = bool(a == b) and not bool(a != b)
    except Exception:
        return False
    return skey(a) == skey(b) and eq


def same_styles(d1, d2):
    """dict equality with styles compared structurally"""
    return d1.keys() == d2.keys() and all(same_style(v, d2[k]) for k, v in d1.items())


class Ids:
    """style -> id of its structural class (`skey`; on sound styles that is its Style.__eq__ class)"""

    def __init__(self):
        self.reps = []
        self.by_key = {}
        self.by_skey = {}

    def sid(self, st):
        k = id(st)
        got = self.by_key.get(k)
        if got is not None and got[0] is st:
            return got[1]
        sk = skey(st)
        i = self.by_skey.get(sk)
        if i is None:
            self.reps.append(st)
            i = self.by_skey[sk] = len(self.reps)
        self.by_key[k] = (st, i)
        return i


class Names:
    def __init__(self, names=()):
        self.l = []
        self.ix = {}
        for n in names:
            self.add(n)

    def add(self, n):
        if n not in self.ix:
            self.ix[n] = len(self.l)
            self.l.append(n)
        return self.ix[n]

    def enc(self):
        return enc_str_list(self.l)

    def name(self, n):
        i = self.ix.get(n)
        return str(i) if i is not None else "L" + enc_str(n)


def enc_dict_in(names, ids, d):
    return ",".join(f"{names.add(k)}={ids.sid(v)}" for k, v in d.items())


def enc_dict_out(names, ids, d):
    return ",".join(f"{names.name(k)}={ids.sid(v)}" for k, v in sorted(d.items(), key=lambda kv: kv[0]))


def parse_outcome(ids, definition):
    """('v', style) | ('S',) | ('X',) for Style.parse(definition) on the real code"""
    from rich import errors
    from rich.style import Style

    try:
        return ("v", Style.parse(definition))
    except errors.StyleSyntaxError:
        return ("S",)
    except Exception:
        return ("X",)


def enc_ptable(names, ids):
    out = []
    i = 0
    while i < len(names.l):  # names may not grow here
        r = parse_outcome(ids, names.l[i])
        out.append("v%d" % ids.sid(r[1]) if r[0] == "v" else r[0])
        i += 1
    return " ".join(out)


# ------------------------------------------------------------------ histories
_omit = [0]


def _omit_default():
    """alternate between passing inherit=True explicitly and relying on the default (the default is code too)"""
    _omit[0] += 1
    return _omit[0] % 2 == 0


def run_real(console, ops, rec, cms=None):
    """execute a history on a real Console; rec() is called after every executed statement.  `cms`: the ThemeContext
    objects of this console by id (a `use` statement with a 5th field enters that object - again while it is active,
    again after it was left)"""
    if cms is None:
        cms = {}
    for op in ops:
        kind = op[0]
        if kind == "push":
            try:
                if op[2] and _omit_default():
                    console.push_theme(op[1])
                else:
                    console.push_theme(op[1], inherit=op[2])
            finally:
                rec()
        elif kind == "pop":
            try:
                console.pop_theme()
            finally:
                rec()
        elif kind == "raise":
            rec()
            raise UserErr()
        else:
            try:
                if len(op) > 4:
                    if op[4] not in cms:
                        cms[op[4]] = console.use_theme(op[1]) if (op[2] and _omit_default()) else console.use_theme(op[1], inherit=op[2])
                    cm = cms[op[4]]
                else:
                    cm = console.use_theme(op[1]) if (op[2] and _omit_default()) else console.use_theme(op[1], inherit=op[2])
                with cm:
                    rec()
                    run_real(console, op[3], rec, cms)
            finally:
                rec()


class SpecErr(Exception):
    pass


class Spec:
    """The property statement, executable: frames (newest last) of (styles, inherit) over a base."""

    def __init__(self, base):
        self.base = base
        self.frames = []

    def lookup(self, name):
        for styles, inherit in reversed(self.frames):
            if name in styles:
                return styles[name]
            if not inherit:
                return None
        return self.base.get(name)

    def get_style(self, name, default=None):
        from rich.style import Style

        if isinstance(name, Style):
            return ("v", name)
        found = self.lookup(name)
        r = ("v", found) if found is not None else parse_outcome(None, name)
        if r[0] == "S":
            if default is not None:
                r = self.get_style(default)
                return r
            return ("M",)
        return r

    def run(self, ops, rec):
        for op in ops:
            kind = op[0]
            if kind == "push":
                self.frames.append((op[1].styles, op[2]))
                rec()
            elif kind == "pop":
                if not self.frames:
                    rec()
                    raise SpecErr("ThemeStackError")
                self.frames.pop()
                rec()
            elif kind == "raise":
                rec()
                raise SpecErr("UserError")
            else:
                self.frames.append((op[1].styles, op[2]))
                rec()
                try:
                    self.run(op[3], rec)
                finally:
                    if not self.frames:
                        rec()
                        raise SpecErr("ThemeStackError")  # noqa: B012  (`__exit__` raising replaces the body's exception)
                    self.frames.pop()
                    rec()


def enc_ops(names, ids, ops):
    out = []
    for op in ops:
        if op[0] == "push":
            out.append("P%d:%s" % (op[2], enc_dict_in(names, ids, op[1].styles)))
        elif op[0] == "pop":
            out.append("O")
        elif op[0] == "raise":
            out.append("R")
        else:
            out.append("U%d:%s" % (op[2], enc_dict_in(names, ids, op[1].styles)))
            out.extend(enc_ops(names, ids, op[3]))
            out.append("E")
    return out


def has_ctx_objects(ops):
    return any(op[0] == "use" and (len(op) > 4 or has_ctx_objects(op[3])) for op in ops)


def enc_ops_ctx(names, ids, ops, store):
    """as enc_ops, every `with` naming an object of `store` (list of 'i:dict'); a use without id is an object used once"""
    out = []
    for op in ops:
        if op[0] == "push":
            out.append("P%d:%s" % (op[2], enc_dict_in(names, ids, op[1].styles)))
        elif op[0] == "pop":
            out.append("O")
        elif op[0] == "raise":
            out.append("R")
        else:
            key = ("obj", op[4]) if len(op) > 4 else ("once", len(store["l"]))
            if key not in store["ix"]:
                store["ix"][key] = len(store["l"])
                store["l"].append("%d:%s" % (op[2], enc_dict_in(names, ids, op[1].styles)))
            out.append("C%d" % store["ix"][key])
            out.extend(enc_ops_ctx(names, ids, op[3], store))
            out.append("E")
    return out


def show_ops(ops, tnames):
    out = []
    for op in ops:
        if op[0] == "push":
            out.append("push(%s,inherit=%s)" % (tnames.get(id(op[1]), "T"), op[2]))
        elif op[0] in ("pop", "raise"):
            out.append(op[0])
        else:
            if len(op) > 4:
                out.append("with ctx%d=use_theme(%s,inherit=%s)[%s]" % (op[4], tnames.get(id(op[1]), "T"), op[2], show_ops(op[3], tnames)))
            else:
                out.append("use(%s,inherit=%s)[%s]" % (tnames.get(id(op[1]), "T"), op[2], show_ops(op[3], tnames)))
    return "; ".join(out)


def has_use_noinherit(ops):
    return any(op[0] == "use" and (not op[2] or has_use_noinherit(op[3])) for op in ops)


def is_balanced(ops):
    """Bal of Props/C20.lean: returns None (not balanced), True (completes) or False (aborts by `raise`)."""
    i = 0
    depth = []
    while i < len(ops):
        op = ops[i]
        if op[0] == "raise":
            return False if not depth else None
        if op[0] == "push":
            depth.append(i)
        elif op[0] == "pop":
            if not depth:
                return None
            depth.pop()
        else:
            b = is_balanced(op[3])
            if b is None:
                return None
            if b is False:
                return False if not depth else None
        i += 1
    return True if not depth else None


def forests(n, leaves, blocks):
    if n == 0:
        yield []
        return
    for k in range(1, n + 1):
        for first in trees(k, leaves, blocks):
            for rest in forests(n - k, leaves, blocks):
                yield [first] + rest


def trees(n, leaves, blocks):
    if n == 1:
        yield from leaves
    for b in blocks:
        for body in forests(n - 1, leaves, blocks):
            yield (b[0], b[1], b[2], body)


def enc_linked(ids):
    """ids of the styles that carry a link (the model's `linked` predicate)"""
    return " ".join(str(i + 1) for i, r in enumerate(ids.reps) if r.link)


def _source_object(stack_get, name, default):
    """the object get_style returns or copies, found the way the property says (bound lookup, then parse, then
    default), and whether it was passed in as a Style instance (then it is returned as it is)"""
    from rich import errors
    from rich.style import Style

    if isinstance(name, Style):
        return name, True
    try:
        st = stack_get(name)
        return (st if st is not None else Style.parse(name)), False
    except errors.StyleSyntaxError:
        if default is not None:
            return _source_object(stack_get, default, None)
        return None, False
    except Exception:
        return None, False


def take_view(console, probes, names, ids, base_dict, side):
    """In the calling thread: (snapshot string, lookups, invariants ok).  Direct evaluations that need the live
    objects (lookups read the top entry only; identity / link id of the result) append (site, what) to `side`."""
    from rich import errors
    from rich.style import Style

    stack = console._theme_stack
    lk = []
    for p in probes:
        name, default = p[0], (p[1] if len(p) > 1 else None)
        try:
            st = console.get_style(name) if len(p) == 1 else console.get_style(name, default=default)
        except errors.MissingStyle:
            lk.append(("M",))
            continue
        except Exception:
            lk.append(("X",))
            continue
        src, passed_in = _source_object(stack.get, name, default)
        fresh = st is not src
        lk.append(("v", st, fresh))
        if src is not None and isinstance(st, Style):
            if not same_style(st, src):
                side.append(("get_style result identity", f"get_style{p!r} returned {st} {_tri(st)}, not structurally equal (colours, attributes as tri-states, link, str, hash) to the stored/parsed style {src} {_tri(src)}"))
            elif src.link and not passed_in:
                again = console.get_style(name) if len(p) == 1 else console.get_style(name, default=default)
                if not fresh or st.link_id == src.link_id or again.link_id == st.link_id or not st.link_id:
                    side.append(("get_style result identity", f"get_style{p!r} on a style with a link did not return a copy with a fresh link id"))
            elif fresh:
                side.append(("get_style result identity", f"get_style{p!r} returned a different object although the style has no link (or was passed in)"))
    bound = getattr(stack.get, "__self__", None)
    if not stack._entries or not isinstance(bound, dict):
        return "BROKEN", lk, False
    ok = bound is stack._entries[-1] and stack._entries[0] is base_dict
    # lookups depend on the top entry only: recompute every probe from `_entries[-1]` alone
    top = stack._entries[-1]
    for p, r in zip(probes, lk):
        src, _ = _source_object(top.get, p[0], p[1] if len(p) > 1 else None)
        if (src is None) != (r[0] != "v") and r[0] != "X":
            side.append(("get_style reads the top entry only", f"get_style{p!r} gives {_sh(r)} but the top entry alone gives {src}"))
        elif src is not None and r[0] == "v" and not same_style(r[1], src):
            side.append(("get_style reads the top entry only", f"get_style{p!r} gives {r[1]} {_tri(r[1])} but the top entry alone gives {src} {_tri(src)}"))
    snap = (
        "/".join(enc_dict_out(names, ids, d) for d in stack._entries)
        + "#" + enc_dict_out(names, ids, bound)
        + "#" + " ".join((str(ids.sid(r[1])) + ("*" if r[2] else "")) if r[0] == "v" else r[0] for r in lk)
    )
    return snap, lk, ok


def check_history(ctx, ids, base_theme, ops, probes, tnames, default_console=False, sample=False):
    """one history: run it on a real Console, compare every snapshot with the model and with the spec oracle"""
    from rich.console import Console
    from rich.style import Style
    from rich.theme import ThemeStackError
    from rich import errors

    if default_console:
        console = Console(file=io.StringIO())
    else:
        console = Console(file=io.StringIO(), theme=base_theme)
    stack = console._theme_stack
    base_dict = stack._entries[0]
    names = Names()
    base_enc = enc_dict_in(names, ids, base_dict)
    ctx_mode = has_ctx_objects(ops)
    store = {"l": [], "ix": {}}
    ops_enc = ";".join(enc_ops_ctx(names, ids, ops, store) if ctx_mode else enc_ops(names, ids, ops))
    probe_enc = []
    for p in probes:
        parts = []
        for x in p:
            parts.append("s%d" % ids.sid(x) if isinstance(x, Style) else "n%d" % names.add(x))
        probe_enc.append(">".join(parts))

    snaps = []
    real_lookups = []
    wf = [True]
    side = []

    def rec():
        snap, lk, ok = take_view(console, probes, names, ids, base_dict, side)
        real_lookups.append(lk)
        snaps.append(snap)
        if not ok:
            wf[0] = False

    rec()
    try:
        run_real(console, ops, rec)
        outcome = "normal"
    except UserErr:
        outcome = "raised:UserError"
    except ThemeStackError:
        outcome = "raised:ThemeStackError"
    except IndexError:
        outcome = "raised:IndexError"
    except Exception as e:  # anything else is an answer to compare, not a harness crash
        outcome = "raised:Other:" + type(e).__name__
    shown = None
    if sample or ctx.rng.random() < 0.002:
        shown = "history on %s: %s" % ("Console()" if default_console else "Console(theme=BASE)", show_ops(ops, tnames))
    if ctx_mode:
        # the model names the context objects (Model/ThemeCtx.lean): trace of the erased history + runCOps' own end state
        ctx.case(
            "theme_hist_ctx",
            [CTX_IGNORES_INHERIT, names.enc(), enc_ptable(names, ids), enc_linked(ids), base_enc, ";".join(store["l"]), ops_enc, ",".join(probe_enc)],
            outcome + ";" + "|".join(snaps) + ";" + outcome + ";" + snaps[-1],
            shape="ctx,%s,steps%d" % (outcome, min(len(snaps), 12) // 3 * 3),
            sample=shown,
        )
        ctx.note("hist_ctx_objects")
    else:
        ctx.case(
            "theme_hist",
            [CTX_IGNORES_INHERIT, names.enc(), enc_ptable(names, ids), enc_linked(ids), base_enc, ops_enc, ",".join(probe_enc)],
            outcome + ";" + "|".join(snaps),
            shape="%s,steps%d" % (outcome, min(len(snaps), 12) // 3 * 3),
            sample=shown,
        )
    ctx.note("hist_outcome:" + outcome)

    # ---- direct evaluation against the specification
    spec = Spec(dict(base_dict))
    spec_lookups = []

    def srec():
        spec_lookups.append([spec.get_style(*p) for p in probes])

    srec()
    try:
        spec.run(ops, srec)
        s_out = "normal"
    except SpecErr as e:
        s_out = "raised:" + str(e)
    desc = show_ops(ops, tnames)
    ok = s_out == outcome and len(spec_lookups) == len(real_lookups)
    what = f"history ends {outcome}, the specification says {s_out}"
    step = None
    if ok:
        for k, (a, b) in enumerate(zip(real_lookups, spec_lookups)):
            for p, x, y in zip(probes, a, b):
                same = x[0] == y[0] and (x[0] != "v" or same_style(x[1], y[1]))
                if not same:
                    ok = False
                    step = k
                    what = f"after step {k}: get_style{p!r} gives {_sh(x)}, the newest-defining-theme rule gives {_sh(y)}"
                    break
            if not ok:
                break
    finding = None
    if not ok and has_use_noinherit(ops):
        # narrow classifier for F14: the run is exactly what the specification gives when every
        # use_theme(..., inherit=False) is read as inherit=True
        ops2 = _force_use_inherit(ops)
        spec2 = Spec(dict(base_dict))
        l2 = []
        srec2 = lambda: l2.append([spec2.get_style(*p) for p in probes])  # noqa: E731
        srec2()
        try:
            spec2.run(ops2, srec2)
            o2 = "normal"
        except SpecErr as e:
            o2 = "raised:" + str(e)
        if o2 == outcome and len(l2) == len(real_lookups) and all(
            x[0] == y[0] and (x[0] != "v" or same_style(x[1], y[1])) for a, b in zip(real_lookups, l2) for x, y in zip(a, b)
        ):
            finding = "use-theme-ignores-inherit"
    ctx.check(ok, "Console.get_style after history", desc, what, finding=finding)
    for site, what in side[:3]:
        ctx.check(False, site, desc, what)
    if not side:
        ctx.check(True, "get_style reads the top entry only", desc, "")
        ctx.check(True, "get_style result identity", desc, "")
    ctx.check(wf[0], "ThemeStack invariants", desc, "ThemeStack.get is not bound to _entries[-1], or _entries[0] is no longer the base theme's dict")
    bal = is_balanced(ops)
    if bal is not None:
        ctx.note("balanced_histories")
        ok = len(real_lookups) > 0 and _same_lookups(real_lookups[-1], real_lookups[0]) and len(stack._entries) == 1 and outcome == ("normal" if bal else "raised:UserError")
        ctx.check(ok, "balanced history restores", desc, f"after a balanced history lookups/stack depth are not what they were before it (outcome {outcome}, depth {len(stack._entries)})")
    return outcome


def _force_use_inherit(ops):
    return [(op[0], op[1], True, _force_use_inherit(op[3])) if op[0] == "use" else op for op in ops]


def _tri(st):
    """the attributes of a style as the tri-states the property is about"""
    try:
        return "{" + ", ".join("%s=%s" % (a, getattr(st, a)) for a in ATTRS if getattr(st, a) is not None) + ("; link=%r" % st.link if st.link else "") + "}"
    except Exception as e:
        return "{broken: %s}" % type(e).__name__


def _same_lookups(a, b):
    return len(a) == len(b) and all(x[0] == y[0] and (x[0] != "v" or same_style(x[1], y[1])) for x, y in zip(a, b))


def _sh(r):
    return "Style(%s %s)" % (r[1], _tri(r[1])) if r[0] == "v" else {"M": "MissingStyle", "X": "another exception", "S": "StyleSyntaxError"}[r[0]]


# ------------------------------------------------------------------ threads and outside mutation
class _Worker(threading.Thread):
    """a real thread that executes the callables it is handed, one at a time (Event/Queue handshake)"""

    def __init__(self):
        super().__init__(daemon=True)
        self.q = queue.Queue()
        self.r = queue.Queue()

    def run(self):
        while True:
            fn = self.q.get()
            if fn is None:
                return
            try:
                self.r.put(("ok", fn()))
            except BaseException as e:  # noqa: B036  reported to the orchestrator
                self.r.put(("exc", e))

    def call(self, fn):
        self.q.put(fn)
        kind, val = self.r.get(timeout=60)
        if kind == "exc":
            raise val
        return val


class _Direct:
    def call(self, fn):
        return fn()


class MTSpec:
    """The statement for threads and aliasing, executable: every thread has its own list of pushed entries (each a
    snapshot taken at push time) over one live base dict; `shared=True` gives all threads one list."""

    def __init__(self, base_live, nthreads, shared, frozen):
        self.frozen = frozen
        self.base = base_live
        self.shared = shared
        self.frames = [[] for _ in range(nthreads)]

    def fr(self, tid):
        return self.frames[0 if self.shared else tid]

    def top(self, tid):
        f = self.fr(tid)
        return f[-1] if f else self.base

    def step(self, tid, st):
        kind = st[0]
        if kind in ("push", "enter"):
            styles = self.frozen[id(st[1])]
            self.fr(tid).append({**self.top(tid), **styles} if st[2] else dict(styles))
            return "ok"
        if kind in ("pop", "exit"):
            if not self.fr(tid):
                return "ThemeStackError"
            self.fr(tid).pop()
            return "ok"
        return "ok"  # setbase is applied to the live dict by the caller; setpushed touches no entry

    def lookups(self, tid, probes):
        top = self.top(tid)
        out = []
        for p in probes:
            src, _ = _source_object(top.get, p[0], p[1] if len(p) > 1 else None)
            out.append(("M",) if src is None else ("v", src))
        return out


def enc_sched(names, ids, sched):
    out = []
    for tid, st in sched:
        k = st[0]
        if k == "push":
            out.append("%dP%d:%s" % (tid, st[2], enc_dict_in(names, ids, st[1].styles)))
        elif k == "enter":
            out.append("%dN%d:%s" % (tid, st[2], enc_dict_in(names, ids, st[1].styles)))
        elif k == "pop":
            out.append("%dO" % tid)
        elif k == "exit":
            out.append("%dX" % tid)
        elif k == "setbase":
            out.append("%dB%d=%d" % (tid, names.add(st[1]), ids.sid(st[2])))
        else:
            out.append("%dM" % tid)
    return out


def show_sched(sched):
    def one(tid, st):
        k = st[0]
        if k in ("push", "enter"):
            return "t%d:%s(%s,inherit=%s)" % (tid, "push_theme" if k == "push" else "use_theme.__enter__", {n: str(v) for n, v in st[1].styles.items()}, st[2])
        if k == "setbase":
            return "t%d:base.styles[%r]=%s" % (tid, st[1], st[2])
        if k == "setpushed":
            return "t%d:pushed.styles[%r]=%s" % (tid, st[2], st[3])
        return "t%d:%s" % (tid, {"pop": "pop_theme", "exit": "__exit__"}[k])

    return "; ".join(one(t, s) for t, s in sched)


def check_mt(ctx, ids, base_styles, nthreads, sched, probes, sample=False):
    """one schedule of atomic steps by up to 3 real threads on one Console (thread 0 = the constructing thread)"""
    from rich.console import Console
    from rich.style import Style
    from rich.theme import Theme, ThemeStackError

    base_theme = Theme(dict(base_styles), inherit=False)
    console = Console(file=io.StringIO(), theme=base_theme)
    base_dict = base_theme.styles
    workers = [_Direct()] + [_Worker() for _ in range(nthreads - 1)]
    for w in workers[1:]:
        w.start()
    names = Names()
    base_enc = enc_dict_in(names, ids, base_dict)
    sched_enc = ";".join(enc_sched(names, ids, sched))
    probe_enc = []
    for p in probes:
        probe_enc.append(">".join("s%d" % ids.sid(x) if isinstance(x, Style) else "n%d" % names.add(x) for x in p))
    side = []
    cms = [[] for _ in range(nthreads)]
    aliased_base = [True]
    # what each theme held when the schedule was written (a later `setpushed` step mutates the object)
    frozen = {id(st[1]): dict(st[1].styles) for _t, st in sched if st[0] in ("push", "enter")}
    desc0 = show_sched(sched)

    def views():
        res = []
        for t in range(nthreads):
            def view():
                if console._theme_stack._entries and console._theme_stack._entries[0] is not base_dict:
                    aliased_base[0] = False
                return take_view(console, probes, names, ids, console._theme_stack._entries[0] if console._theme_stack._entries else None, side)
            res.append(workers[t].call(view))
        return res

    def do(tid, st):
        k = st[0]

        def act():
            if k == "push":
                console.push_theme(st[1], inherit=st[2])
            elif k == "pop":
                console.pop_theme()
            elif k == "enter":
                cm = console.use_theme(st[1], inherit=st[2])
                cm.__enter__()
                cms[tid].append(cm)
            elif k == "exit":
                cm = cms[tid].pop() if cms[tid] else console.use_theme(base_theme)
                cm.__exit__(None, None, None)
            elif k == "setbase":
                base_theme.styles[st[1]] = st[2]
            else:
                st[1].styles[st[2]] = st[3]

        try:
            workers[tid].call(act)
            return "ok"
        except ThemeStackError:
            return "ThemeStackError"
        except IndexError:
            return "IndexError"
        except Exception as e:
            return "Other:" + type(e).__name__

    try:
        v0 = views()
        real = [("ok", v0)]
        for tid, st in sched:
            r = do(tid, st)
            real.append((r, views()))
    finally:
        for w in workers[1:]:
            w.q.put(None)
    ans = "|".join(r + ";" + "~".join(v[0] for v in vs) for r, vs in real)
    ctx.case(
        "theme_mt",
        [STACK_SHARED, CTX_IGNORES_INHERIT, names.enc(), enc_ptable(names, ids), enc_linked(ids), base_enc, nthreads, sched_enc, ",".join(probe_enc)],
        ans,
        shape="threads%d,steps%d" % (nthreads, min(len(sched), 9) // 3 * 3),
        sample=("schedule: " + desc0) if sample else None,
    )
    # ---- direct evaluation: one stack per thread over the live base; pushed entries are snapshots
    desc = "%d thread(s) on Console(theme=Theme(%s)): %s" % (nthreads, {n: str(v) for n, v in base_styles.items()}, desc0)

    def replay_spec(shared):
        live = dict(base_styles)
        sp = MTSpec(live, nthreads, shared, frozen)
        out = [("ok", [sp.lookups(t, probes) for t in range(nthreads)])]
        for tid, st in sched:
            if st[0] == "setbase":
                live[st[1]] = st[2]
            out.append((sp.step(tid, st), [sp.lookups(t, probes) for t in range(nthreads)]))
        return out

    def agrees(spec_run):
        for k, ((r, vs), (sr, svs)) in enumerate(zip(real, spec_run)):
            if r != sr:
                return k, f"step {k} ended {r}, expected {sr}"
            for t in range(nthreads):
                for p, x, y in zip(probes, vs[t][1], svs[t]):
                    if x[0] != y[0] or (x[0] == "v" and not same_style(x[1], y[1])):
                        return k, f"after step {k} thread {t}: get_style{p!r} gives {_sh(x)}, expected {_sh(y)}"
        return None

    if nthreads == 1:
        # the property (single-threaded histories, here with outside dict mutation): live base, snapshot entries
        bad = agrees(replay_spec(False))
        ctx.check(bad is None, "theme stack with outside mutation", desc, "" if bad is None else bad[1])
    else:
        # Threads are outside the property's statement (it quantifies over histories on one thread, and a Live/Progress
        # refresh thread relies on seeing the themes the main thread pushed).  What the code does - one ThemeStack object
        # shared by all threads - is pinned by the correspondence with the `shared = true` model above; here it is only counted.
        kind = "shared-stack" if agrees(replay_spec(True)) is None else "per-thread-stacks" if agrees(replay_spec(False)) is None else "neither"
        ctx.note("mt_behaviour:" + kind)
    ctx.check(aliased_base[0], "ThemeStack base entry", desc, "_entries[0] is not the base theme's own styles dict in some thread")
    for site, what in side[:3]:
        ctx.check(False, site, desc, what)
    inv_ok = all(v[2] for _r, vs in real for v in vs)
    ctx.check(inv_ok, "ThemeStack invariants", desc, "ThemeStack.get is not bound to _entries[-1] in some thread")


def run_mt_cases(ctx, ids, S):
    from rich.theme import Theme

    rng = ctx.rng
    base = {"a": S[0], "b": S[1]}
    probes = [("a",), ("b",), ("c",), ("x",), ("zzz", "x"), ("zzz", "a")]

    def TA():
        return Theme({"a": S[3], "c": S[4]}, inherit=False)

    def TB():
        return Theme({"b": S[5], "c": S[6]}, inherit=False)

    # (i) one thread, every word over {push A inherit, push B no-inherit, enter B inherit, pop, base[a]=…, base[x]=…, pushed[a]=…}
    maxlen = 3 if ctx.quick else 4
    n = 0
    for ln in range(1, maxlen + 1):
        for word in itertools.product("PQEOabm", repeat=ln):
            if "a" not in word and "b" not in word and "m" not in word:
                continue  # mutation-free words are the business of check_history
            sched, pushed = [], []
            for w in word:
                if w in "PQE":
                    t = TA() if w == "P" else TB()
                    pushed.append(t)
                    sched.append((0, ("push", t, True) if w == "P" else ("push", t, False) if w == "Q" else ("enter", t, True)))
                elif w == "O":
                    sched.append((0, ("pop",)))
                elif w == "a":
                    sched.append((0, ("setbase", "a", S[7])))
                elif w == "b":
                    sched.append((0, ("setbase", "x", S[2])))
                elif pushed:
                    sched.append((0, ("setpushed", pushed[-1], "a", S[8])))
            check_mt(ctx, ids, base, 1, sched, probes, sample=(n == 50))
            n += 1
    ctx.note("mt_alias_exhaustive", n)
    # (ii) two threads, every schedule of up to 3 (4) steps over {push A inherit, push B no-inherit, pop} x {t0, t1}
    n = 0
    for ln in range(1, (3 if ctx.quick else 4) + 1):
        for word in itertools.product([(t, k) for t in (0, 1) for k in "PQO"], repeat=ln):
            if len({t for t, _ in word}) < 2:
                continue
            sched = [(t, ("push", TA(), True) if k == "P" else ("push", TB(), False) if k == "Q" else ("pop",)) for t, k in word]
            check_mt(ctx, ids, base, 2, sched, probes, sample=(n == 30))
            n += 1
    ctx.note("mt_threads_exhaustive", n)
    # (iii) random schedules, up to 3 threads, use_theme enter/exit, mutations
    pool = ["a", "b", "c", "x"]
    for i in range(150 if ctx.quick else 4000):
        nt = rng.choice([1, 2, 2, 3])
        open_cm = [0] * nt
        pushed = []
        sched = []
        for _ in range(rng.randint(1, 10)):
            tid = rng.randrange(nt)
            r = rng.random()
            if r < 0.3:
                t = Theme({rng.choice(pool): rng.choice(S) for _ in range(rng.randint(0, 3))}, inherit=False)
                pushed.append(t)
                sched.append((tid, ("push", t, rng.random() < 0.6)))
            elif r < 0.45:
                t = Theme({rng.choice(pool): rng.choice(S) for _ in range(rng.randint(0, 3))}, inherit=False)
                pushed.append(t)
                sched.append((tid, ("enter", t, rng.random() < 0.5)))
                open_cm[tid] += 1
            elif r < 0.6 and open_cm[tid]:
                sched.append((tid, ("exit",)))
                open_cm[tid] -= 1
            elif r < 0.78:
                sched.append((tid, ("pop",)))
            elif r < 0.9:
                sched.append((tid, ("setbase", rng.choice(pool), rng.choice(S))))
            elif pushed:
                sched.append((tid, ("setpushed", rng.choice(pushed), rng.choice(pool), rng.choice(S))))
        check_mt(ctx, ids, {rng.choice(pool): rng.choice(S) for _ in range(rng.randint(0, 3))}, nt, sched, probes + [(rng.choice(S),)], sample=(i == 7))


def check_ctx_flat(ctx, ids, base_theme, objs, steps, probes, tnames, sample=False):
    """ThemeContext objects driven by hand on one console: objs = [(theme, inherit)], made ONCE by console.use_theme;
    steps ("N", c) = objs[c].__enter__(), ("X", c) = objs[c].__exit__(None, None, None), ("O",) = console.pop_theme(),
    each in its own try; a view after every step"""
    from rich.console import Console
    from rich.style import Style
    from rich.theme import ThemeStackError

    console = Console(file=io.StringIO(), theme=base_theme)
    base_dict = console._theme_stack._entries[0]
    cobjs = [console.use_theme(t, inherit=i) for t, i in objs]
    names = Names()
    base_enc = enc_dict_in(names, ids, base_dict)
    store = ";".join("%d:%s" % (i, enc_dict_in(names, ids, t.styles)) for t, i in objs)
    probe_enc = [">".join("s%d" % ids.sid(x) if isinstance(x, Style) else "n%d" % names.add(x) for x in p) for p in probes]
    side = []
    spec = Spec(dict(base_dict))
    desc = "; ".join(("ctx%d.__enter__()" % s_[1]) if s_[0] == "N" else ("ctx%d.__exit__()" % s_[1]) if s_[0] == "X" else "pop_theme()" for s_ in steps)
    desc = "ctx0=use_theme(%s,inherit=%s), ctx1=use_theme(%s,inherit=%s): %s" % (tnames.get(id(objs[0][0]), "T"), objs[0][1], tnames.get(id(objs[1][0]), "T"), objs[1][1], desc)
    snap, lk, inv = take_view(console, probes, names, ids, base_dict, side)
    out = ["ok;" + snap]
    bad = None
    for k, st in enumerate(steps):
        try:
            if st[0] == "N":
                r = cobjs[st[1]].__enter__()
                res = "ok" if r is cobjs[st[1]] else "Other:enter-returned-something-else"
            elif st[0] == "X":
                r = cobjs[st[1]].__exit__(None, None, None)
                res = "ok" if not r else "Other:exit-swallows"
            else:
                console.pop_theme()
                res = "ok"
        except ThemeStackError:
            res = "ThemeStackError"
        except IndexError:
            res = "IndexError"
        except BaseException as e:  # noqa: B036  an answer to compare
            res = "Other:" + type(e).__name__
        # the statement: __enter__ adds a frame (theme, inherit) however often the object is already entered; __exit__ and
        # pop_theme remove the newest frame whichever object they are called on, ThemeStackError when none is open
        if st[0] == "N":
            spec.frames.append((objs[st[1]][0].styles, objs[st[1]][1]))
            want = "ok"
        elif spec.frames:
            spec.frames.pop()
            want = "ok"
        else:
            want = "ThemeStackError"
        snap, lk, ok_inv = take_view(console, probes, names, ids, base_dict, side)
        inv = inv and ok_inv
        out.append(res + ";" + snap)
        if bad is None:
            if res != want:
                bad = f"step {k + 1} ended {res}, expected {want}"
            else:
                for p, x in zip(probes, lk):
                    y = spec.get_style(*p)
                    if x[0] != y[0] or (x[0] == "v" and not same_style(x[1], y[1])):
                        bad = f"after step {k + 1}: get_style{p!r} gives {_sh(x)}, the open frames give {_sh(y)} (stack depth {len(console._theme_stack._entries)}, open frames {len(spec.frames)})"
                        break
    ctx.case("theme_ctx_flat", [CTX_IGNORES_INHERIT, names.enc(), enc_ptable(names, ids), enc_linked(ids), base_enc, store,
                                ";".join(("%s%d" % (s_[0], s_[1])) if s_[0] != "O" else "O" for s_ in steps), ",".join(probe_enc)],
             "|".join(out), shape="steps%d" % len(steps), sample=("context objects by hand: " + desc) if sample else None)
    ctx.check(bad is None, "ThemeContext object re-entered / re-used", desc, bad or "")
    for site, what in side[:3]:
        ctx.check(False, site, desc, what)
    ctx.check(inv, "ThemeStack invariants", desc, "ThemeStack.get is not bound to _entries[-1], or _entries[0] is no longer the base theme's dict")


def run_ctx_flat_cases(ctx, ids, BASE, TA, TB, probes):
    """every word of <= 4 (5) steps over {ctx0.__enter__, ctx0.__exit__, ctx1.__enter__, ctx1.__exit__, pop_theme} with
    at least one __enter__ (quick: length 4 only over ctx0 + pop / with ctx1.__enter__), then seeded random words to 12"""
    rng = ctx.rng
    tnames = {id(TA): "A", id(TB): "B"}
    alpha = [("N", 0), ("X", 0), ("N", 1), ("X", 1), ("O",)]
    n = 0
    for ln in range(1, (4 if ctx.quick else 6)):
        for word in itertools.product(alpha, repeat=ln):
            if not any(w[0] == "N" for w in word):
                continue
            check_ctx_flat(ctx, ids, BASE, [(TA, False), (TB, True)], list(word), probes, tnames, sample=(n == 77))
            n += 1
    for word in itertools.product([("N", 0), ("X", 0), ("N", 1), ("O",)], repeat=4 if ctx.quick else 6):
        if sum(w == ("N", 0) for w in word) < 2:
            continue
        check_ctx_flat(ctx, ids, BASE, [(TA, True), (TB, False)], list(word), probes, tnames)
        n += 1
    ctx.note("ctx_flat_exhaustive", n)
    for i in range(60 if ctx.quick else 3000):
        objs = [(rng.choice([TA, TB]), rng.random() < 0.5) for _ in range(2)]
        word = [rng.choice(alpha) for _ in range(rng.randint(2, 12))]
        check_ctx_flat(ctx, ids, BASE, objs, word, probes, tnames, sample=(i == 5))


# ------------------------------------------------------------------ config round trip
SAFE_NAMES = ["a", "warning", "repr.str", "a b", "x-y_z", "b", "rem x", "bar.back", "a.b.c", "0", "on", "none"]
NONASCII_SAFE = ["é", "ß", "名前", "a\x0cb", "ς", "i̇"]
UPPER_NAMES = ["A", "Foo", "REM", "aB", "É", "İ", "ẞ"]
HOSTILE_NAMES = [" a", "a ", "a:b", "a=b", "#a", ";a", "[a]", "", "a\nb", "a\t", "[x", "a\x1f"]


def name_in_domain(n):
    """names a config file can carry (stated domain of the round trip): non-empty, no delimiter, no newline,
    no surrounding whitespace, does not start a comment or a section header"""
    return bool(n) and not any(c in n for c in "=:\n") and n == n.strip() and n[0] not in "#;["


def style_space(rng):
    from rich.color import Color
    from rich.style import Style

    colors = [None, "red", "bright_blue", "color(5)", "#ff0000", "rgb(1,2,3)", "default", Color.from_rgb(10, 20, 30), "grey50"]
    links = [None, None, None, "http://example.org/x", "x;y#z", "=", "http://a:b", "http://x/%20y", "%%", "50%", "%(a)s"]
    attrs = ["bold", "dim", "italic", "underline", "blink", "blink2", "reverse", "conceal", "strike", "underline2", "frame", "encircle", "overline"]

    def one():
        kw = {}
        for a in attrs:
            r = rng.random()
            if r < 0.12:
                kw[a] = True
            elif r < 0.2:
                kw[a] = False
        return Style(color=rng.choice(colors), bgcolor=rng.choice(colors), link=rng.choice(links), **kw)

    return one


def classify_roundtrip_failure(styles, want, t2, ans):
    """narrow classifiers: the failure must be *explained* by the defect, not merely co-occur with its trigger"""
    has_pct = any("%" in str(v) for v in styles.values())
    case_changes = any(n != n.lower() for n in styles)
    if t2 is None:
        if ans.startswith("err:Interpolation") and has_pct:
            return "config-percent-interpolation"
        if ans == "err:DuplicateOptionError" and len({n.lower() for n in styles}) < len(styles):
            return "config-name-case"
        return None
    lowered = {k.lower(): v for k, v in want.items()}
    if case_changes and len(lowered) == len(want) and same_styles(t2.styles, lowered):
        return "config-name-case"  # exactly the lower-cased names, nothing else differs
    for ref in (want, lowered if len(lowered) == len(want) else want):
        if set(t2.styles) == set(ref):
            diff = [k for k in ref if not same_style(t2.styles[k], ref[k])]
            if diff and all("%" in str(ref[k]) for k in diff):
                return "config-percent-interpolation"  # only values containing '%' changed
    return None


def real_cfg_items(text):
    """the contract of configparser, observed: read_file + items('styles') with the parser Theme.from_file builds"""
    cp = configparser.ConfigParser() if CFG_INTERP else configparser.ConfigParser(interpolation=None)
    if not CFG_LOWER:
        cp.optionxform = str
    try:
        cp.read_file(io.StringIO(text))
        items = cp.items("styles")
    except configparser.Error as e:
        return "err:" + type(e).__name__
    return "ok:%d:" % len(items) + ",".join(enc_str(k) + "=" + enc_str(v) for k, v in items)


def check_from_file(ctx, ids, text, inherit, defaults_enc, defaults_names, readable=None, via_path=False):
    from rich import errors
    from rich.theme import Theme

    names = Names(defaults_names)
    # text mode of Theme.read: universal newlines (independent of the model's scanner)
    seen = text.replace("\r\n", "\n").replace("\r", "\n") if via_path else text
    # every value the real parser hands to Style.parse must be in the parse table
    items = real_cfg_items(seen)
    if items.startswith("ok:"):
        cp = configparser.ConfigParser() if CFG_INTERP else configparser.ConfigParser(interpolation=None)
        if not CFG_LOWER:
            cp.optionxform = str
        cp.read_file(io.StringIO(seen))
        for _k, v in cp.items("styles"):
            names.add(v)
    other = None
    try:
        if via_path:
            with tempfile.TemporaryDirectory() as d:
                p = os.path.join(d, "t.cfg")
                with open(p, "w", newline="", encoding="utf-8") as f:  # the characters exactly as given
                    f.write(text)
                t = Theme.read(p) if (inherit and _omit_default()) else Theme.read(p, inherit=inherit)
        else:
            t = Theme.from_file(io.StringIO(text)) if (inherit and _omit_default()) else Theme.from_file(io.StringIO(text), inherit=inherit)
        ans = None
    except configparser.Error as e:
        t, ans = None, "err:" + type(e).__name__
    except errors.StyleSyntaxError:
        t, ans = None, "err:StyleSyntaxError"
    except Exception as e:
        t, ans = None, "err:Other"
        other = type(e).__name__
        ctx.note("from_file_other_exception:" + other)
    if t is not None:
        ans = "ok:" + enc_dict_out(names, ids, t.styles)
    # totality: a Theme, a configparser exception or StyleSyntaxError - unless Style.parse itself raises something else
    leaked = other is not None and not any(parse_outcome(ids, v)[0] == "X" for v in names.l)
    ctx.check(not leaked, "Theme.from_file totality", text, f"raised {other}, which is neither a configparser error nor StyleSyntaxError")
    if via_path:
        # Theme.read == Theme.from_file on the newline-translated text
        try:
            t3 = Theme.from_file(io.StringIO(seen), inherit=inherit)
            same = t is not None and same_styles(t3.styles, t.styles)
        except Exception as e:
            same = t is None and ("err:" + type(e).__name__ == ans or ans == "err:Other")
        ctx.check(same, "Theme.read", (text, inherit), "Theme.read(path) differs from Theme.from_file on the file's text with newlines translated")
    ctx.case(
        "theme_read" if via_path else "theme_from_file",
        [CFG_LOWER, CFG_INTERP, names.enc(), enc_ptable(names, ids), defaults_enc, enc_str(text), enc_bool(inherit)],
        ans,
        shape=ans.split(":")[0] + (":" + ans.split(":")[1] if ans.startswith("err") else ""),
        sample=readable,
    )
    return t, ans


def run(ctx):
    from rich import errors
    from rich.console import Console
    from rich.default_styles import DEFAULT_STYLES
    from rich.style import Style
    from rich.theme import Theme, ThemeStack, ThemeStackError

    rng = ctx.rng
    ids = Ids()
    ctx.assumptions += [
        "styles are opaque to the theme model: compared by Style.__eq__ (link ids excluded) and represented by ids",
        "Style.parse is a parameter of the model (a table computed by the real Style.parse for every string a request mentions)",
        "configparser (stdlib) is modelled for the parser Theme.from_file builds: comments, empty lines in values, continuation "
        "lines, any sections, [DEFAULT] inheritance, duplicate sections/options, delimiter-less lines, empty names, "
        "optionxform=str.lower through a table translated from the running Python (U+03A3 excluded: `unmodelled`); the model is "
        "compared with the real parser on every generated text (contract check)",
        "threads: each thread's steps are atomic and run in schedule order (Queue handshakes); no preemption inside push/pop",
        "outside mutation: only item assignment on a theme's styles dict is modelled; the base entry aliases the base theme's dict "
        "(as the code has it), pushed entries are snapshots",
        "Theme.read: the file decodes (utf-8 locale) to the given characters; text mode translates \\r\\n and \\r to \\n",
        "config round trip domain: names non-empty, without '=' ':' newline, strip()-stable, not starting with '#' ';' '['",
    ]

    S = [Style.parse(x) for x in ["red", "bold", "italic green", "on blue", "underline", "dim cyan", "magenta", "reverse", "link http://x bold",
                                  "not bold italic link https://example.org/docs", "not dim not underline on red link x", "not italic"]]

    # ================================================================ 1. Theme.__init__
    defaults_names = list(DEFAULT_STYLES)
    dnames0 = Names(defaults_names)
    defaults_enc = enc_dict_in(dnames0, ids, DEFAULT_STYLES)
    name_pool = ["a", "b", "bold", "repr.str", "none", "Foo", "", "a b", "é", " a", "a\t", "A"]
    defs_ok = ["red", "bold", "bold red on blue", "not bold", "none", "", "link http://x", "b i", "#ff0000", "  dim  ", "on red", "RED", "link http://X/Y bold", "BOLD link Z"]
    defs_bad = ["zzz", "not", "not zzz", "on", "on zzz", "link", "bold zzz", "rgb(1,,2)", "color(999)", "#12"]
    n_new = 400 if ctx.quick else 6000
    for i in range(n_new):
        inherit = rng.random() < 0.5
        if i < 4:
            styles, inherit = None, bool(i % 2)
        else:
            styles = {}
            for _ in range(rng.randint(0, 4)):
                n = rng.choice(name_pool)
                r = rng.random()
                styles[n] = rng.choice(S) if r < 0.4 else rng.choice(defs_ok) if r < 0.85 else rng.choice(defs_bad)
        names = Names(defaults_names)
        if styles is None:
            items_enc = "-"
        else:
            parts = []
            for k, v in styles.items():
                parts.append("%d=%s" % (names.add(k), "#%d" % ids.sid(v) if isinstance(v, Style) else "~%d" % names.add(v)))
            items_enc = ",".join(parts)
        try:
            if styles is None and inherit:
                t = Theme()
            elif inherit and i % 2:
                t = Theme(styles)
            else:
                t = Theme(styles, inherit=inherit)
            ans = "ok:" + enc_dict_out(names, ids, t.styles)
        except errors.StyleSyntaxError:
            t, ans = None, "err:StyleSyntaxError"
        except Exception:
            t, ans = None, "err:Other"
        # oracle: defaults (when inheriting) overridden by the given styles, definitions parsed
        exp = dict(DEFAULT_STYLES) if inherit else {}
        exp_err = None
        for k, v in (styles or {}).items():
            r = ("v", v) if isinstance(v, Style) else parse_outcome(ids, v)
            if r[0] != "v":
                exp_err = "err:StyleSyntaxError" if r[0] == "S" else "err:Other"
                break
            exp[k] = r[1]
        if exp_err:
            ctx.check(ans == exp_err, "Theme.__init__", (styles, inherit), f"expected {exp_err}, got {ans[:40]}")
        else:
            ctx.check(t is not None and same_styles(t.styles, exp), "Theme.__init__", (styles, inherit), "styles are not the defaults (iff inherit) overridden by the given styles")
        ctx.case("theme_new", [names.enc(), enc_ptable(names, ids), defaults_enc, items_enc, enc_bool(inherit)], ans,
                 shape=("err" if t is None else "inherit" if inherit else "plain"), sample=f"Theme({styles!r}, inherit={inherit})" if i % 50 == 7 else None)
    ctx.flush()

    # ================================================================ 2. histories
    BASE = Theme({"a": S[0], "b": S[1], "bold": S[2], "Foo": S[8], "docs": S[9]}, inherit=False)
    TA = Theme({"a": S[3], "c": S[4], "foo": S[7], "docs2": S[10]}, inherit=False)
    TB = Theme({"b": S[5], "c": S[6], "italic": S[0], "docs": S[10], "neg": S[11]}, inherit=False)
    tnames = {id(BASE): "BASE", id(TA): "A", id(TB): "B"}
    probes = [("a",), ("b",), ("c",), ("bold",), ("italic",), ("zzz",), ("red",), ("",), ("not",),
              ("zzz", "a"), ("zzz", "c"), ("zzz", "qqq"), ("zzz", S[7]), ("zzz", ""), (S[7],), ("a", "zzz"), ("c", "b"), ("rgb(1,,2)",),
              (" a",), ("a ",), ("A",), ("Foo",), ("foo",), ("FOO",), ("zzz", " a"), ("BOLD",), ("c ", "zzz"),
              # styles with a link AND "not X" settings: from a theme entry, through the default, and parsed from a definition
              ("docs",), ("docs2",), ("neg",), ("zzz", "docs"), ("not bold link https://e/p",), ("zzz", "not strike not blink link q on blue")]
    leaves = [("push", TA, True), ("push", TB, False), ("pop",), ("raise",)]
    blocks = [("use", TA, False), ("use", TB, True)]
    nmax = 3 if ctx.quick else 4
    count = 0
    for n in range(0, nmax + 1):
        for ops in forests(n, leaves, blocks):
            check_history(ctx, ids, BASE, ops, probes, tnames, sample=(count in (40, 400)))
            count += 1
    ctx.note("hist_exhaustive", count)
    ctx.flush()

    # ---- 2a'. ThemeContext OBJECTS with identity: the same forests, but every `with` over theme A enters one object
    # ctx0 = console.use_theme(A, inherit=False) and every `with` over B one object ctx1 = console.use_theme(B) - so the
    # same object is entered again while it is active (with ctx0: with ctx0: ...), used again after it was left, and left by
    # an exception raised in the inner of two uses.  Only forests with at least two `with` statements (identity matters).
    def n_uses(ops):
        return sum(1 + n_uses(op[3]) for op in ops if op[0] == "use")

    def with_ids(ops):
        return [(op[0], op[1], op[2], with_ids(op[3]), 0 if op[1] is TA else 1) if op[0] == "use" else op for op in ops]

    ncx = 0
    for n in range(2, nmax + (1 if ctx.quick else 2)):  # thorough: one level deeper with `raise` as the only leaf
        for ops in forests(n, leaves if n <= nmax else [("raise",)], blocks):
            if n_uses(ops) < (2 if n <= nmax else 3):
                continue
            check_history(ctx, ids, BASE, with_ids(ops), probes if not ctx.quick else probes[:12] + probes[-6:], tnames, sample=(ncx in (3, 60)))
            ncx += 1
    ctx.note("hist_ctx_exhaustive", ncx)
    ctx.flush()
    run_ctx_flat_cases(ctx, ids, BASE, TA, TB, probes[:12] + probes[-6:])
    ctx.flush()

    # random, deeper, with random themes; a share on the default console
    pool_names = ["a", "b", "c", "bold", "italic", "repr.str", "rule.line", "zzz", "Foo", "red", "foo", " a", "not bold italic link https://e/q"]

    def rand_theme(default_console):
        if default_console and rng.random() < 0.2:
            t = Theme({rng.choice(pool_names): rng.choice(S) for _ in range(rng.randint(0, 3))}, inherit=True)
        else:
            t = Theme({rng.choice(pool_names): rng.choice(S) for _ in range(rng.randint(0, 4))}, inherit=False)
        return t

    cpool = []  # the context objects (theme, inherit) of the current random history, entered by identity

    def use_stmt(default_console, body):
        if cpool and rng.random() < 0.45:
            k = rng.randrange(len(cpool))
            return ("use", cpool[k][0], cpool[k][1], body, k)
        return ("use", rand_theme(default_console), rng.random() < 0.5, body)

    def rand_free(budget, depth, default_console):
        ops = []
        while budget[0] > 0 and rng.random() < 0.85:
            budget[0] -= 1
            r = rng.random()
            if r < 0.35:
                ops.append(("push", rand_theme(default_console), rng.random() < 0.6))
            elif r < 0.6:
                ops.append(("pop",))
            elif r < 0.66:
                ops.append(("raise",))
            elif depth < 4:
                ops.append(use_stmt(default_console, rand_free(budget, depth + 1, default_console)))
        return ops

    def rand_balanced(budget, depth, default_console, allow_raise):
        """balanced by construction (Bal of Props/C20.lean); returns (ops, completes)"""
        ops = []
        while budget[0] > 0 and rng.random() < 0.85:
            budget[0] -= 1
            r = rng.random()
            if r < 0.4:
                mid, _ = rand_balanced(budget, depth + 1, default_console, False)
                ops += [("push", rand_theme(default_console), rng.random() < 0.6)] + mid + [("pop",)]
            elif r < 0.88 and depth < 4:
                body, comp = rand_balanced(budget, depth + 1, default_console, allow_raise)
                ops.append(use_stmt(default_console, body))
                if not comp:
                    return ops + rand_free([rng.randint(0, 2)], 4, default_console), False
            elif allow_raise and r >= 0.93:
                ops.append(("raise",))
                return ops + rand_free([rng.randint(0, 2)], 4, default_console), False
        return ops, True

    n_rand = 1200 if ctx.quick else 30000
    for i in range(n_rand):
        default_console = i % 8 == 0
        balanced = rng.random() < 0.5
        cpool[:] = [(rand_theme(default_console), rng.random() < 0.5) for _ in range(rng.randint(1, 2))] if i % 2 else []
        if balanced:
            ops, _ = rand_balanced([rng.randint(1, 12)], 0, default_console, True)
        else:
            ops = rand_free([rng.randint(1, 12)], 0, default_console)
        base = Theme({rng.choice(pool_names): rng.choice(S) for _ in range(rng.randint(0, 4))}, inherit=False)
        pr = [(n,) for n in pool_names] + [("zzz", rng.choice(pool_names)), ("not", rng.choice(S)), ("", "a"), (rng.choice(S),), ("qqq", "")]
        check_history(ctx, ids, base, ops, pr, tnames, default_console=default_console)
    ctx.flush()

    # base theme can never be popped; Console(theme=None) starts from DEFAULT_STYLES
    for theme in [None, BASE, Theme()]:
        c = Console(file=io.StringIO(), theme=theme)
        want = DEFAULT_STYLES if theme is None else theme.styles
        ctx.check(c._theme_stack._entries == [want], "Console.__init__", repr(theme), "the base of the theme stack is not the given theme / DEFAULT_STYLES")
        for k in range(3):
            try:
                c.pop_theme()
                ok = False
            except ThemeStackError:
                ok = True
            except Exception:
                ok = False
            ctx.check(ok and len(c._theme_stack._entries) == 1, "pop_theme on base", repr(theme), "popping the base theme did not raise ThemeStackError or changed the stack")
        st = ThemeStack(BASE)
        try:
            st.pop_theme()
            ok = False
        except ThemeStackError:
            ok = True
        except Exception:
            ok = False
        ctx.check(ok and len(st._entries) == 1 and st.get("a") == S[0], "ThemeStack.pop_theme on base", "ThemeStack(BASE).pop_theme()", "base popped")

    # ---- names that are neither str nor Style: get_style looks them up (dict.get), then hands them to Style.parse; whatever
    # that raises propagates unless it is StyleSyntaxError (then the default / MissingStyle); a Style passes through untouched
    def _outcome(fn):
        try:
            return ("v", fn())
        except errors.MissingStyle:
            return ("M",)
        except errors.StyleSyntaxError:
            return ("S",)
        except BaseException as e:  # noqa: B036
            return ("E", type(e).__name__)

    c_odd = Console(file=io.StringIO(), theme=BASE)
    c_odd.push_theme(TB)
    for bad in [None, 5, 1.5, b"bold", ("a",), True, ["a"], {"a": 1}, S[9], S[0], Style()]:
        for dflt in (None, "a", "docs", S[10], "zzz"):
            got = _outcome(lambda: c_odd.get_style(bad) if dflt is None else c_odd.get_style(bad, default=dflt))  # noqa: B023
            if isinstance(bad, Style):
                ok, why = got[0] == "v" and got[1] is bad, "a Style instance passed as name is not returned as it is"
            else:
                try:
                    hash(bad)
                    direct = _outcome(lambda: Style.parse(bad))  # noqa: B023
                except TypeError:
                    direct = ("E", "TypeError")  # dict.get(unhashable)
                if direct[0] == "S":
                    want = ("M",) if dflt is None else _outcome(lambda: c_odd.get_style(dflt))  # noqa: B023
                else:
                    want = direct
                ok = got[0] == want[0] and (got[1] == want[1] if got[0] == "E" else got[0] != "v" or same_style(got[1], want[1]))
                why = f"get_style gives {got[:2]}, Style.parse / the default give {want[:2]}"
            ctx.check(ok, "Console.get_style with a name that is not a str", (repr(bad), repr(dflt)), why)
    ctx.check(len(c_odd._theme_stack._entries) == 2, "Console.get_style with a name that is not a str", "stack depth", "get_style changed the stack")

    # ---- 2b. every stack of up to 3 (4) pushes over four themes x inherit, looked up at every level, then popped.
    # Names: `only<k>` is defined only by theme k; `all` by all; `base`/`all` by the base; `odd` by T1 and T3; `t12` by T1,T2.
    PB = Theme({"base": S[0], "all": S[1], "shadow": S[2]}, inherit=False)
    PT = [
        Theme({"only0": S[3], "all": S[4], "shadow": S[5]}, inherit=False),
        Theme({"only1": S[6], "all": S[7], "odd": S[0], "t12": S[1]}, inherit=False),
        Theme({"only2": S[2], "all": S[3], "t12": S[4]}, inherit=False),
        Theme({"only3": S[5], "all": S[6], "odd": S[7], "base": S[8]}, inherit=False),
    ]
    for k_, t_ in enumerate(PT):
        tnames[id(t_)] = "T%d" % k_
    tnames[id(PB)] = "PB"
    pprobes = [(n_,) for n_ in ["base", "all", "shadow", "only0", "only1", "only2", "only3", "odd", "t12", "zzz", "bold"]] + [("zzz", "only1"), ("only2", "base")]
    depth = 3 if ctx.quick else 4
    pushes = [("push", t_, i_) for t_ in PT for i_ in (True, False)]
    nstack = 0
    for n in range(1, depth + 1):
        for combo in itertools.product(pushes, repeat=n):
            ops = list(combo) + [("pop",)] * n
            check_history(ctx, ids, PB, ops, pprobes, tnames)
            nstack += 1
    ctx.note("hist_push_stacks", nstack)
    ctx.flush()

    # ---- 2c. outside mutation of theme dicts, and threads
    run_mt_cases(ctx, ids, S)
    ctx.flush()

    # ThemeStack used directly (its own default for `inherit`), every push/pop word up to length 5
    for n in range(0, 6 if ctx.quick else 8):
        for word in itertools.product("PNO", repeat=n):  # P = push_theme(t) (default inherit), N = push_theme(t, inherit=False), O = pop
            st = ThemeStack(BASE)
            spec = Spec(dict(BASE.styles))
            ok, why = True, ""
            for k, w in enumerate(word):
                t = TA if k % 2 == 0 else TB
                try:
                    if w == "P":
                        st.push_theme(t)
                        spec.frames.append((t.styles, True))
                    elif w == "N":
                        st.push_theme(t, inherit=False)
                        spec.frames.append((t.styles, False))
                    else:
                        try:
                            st.pop_theme()
                            popped = True
                        except ThemeStackError:
                            popped = False
                        if popped != bool(spec.frames):
                            ok, why = False, "pop_theme raised ThemeStackError although a pushed theme was open, or popped the base"
                            break
                        if spec.frames:
                            spec.frames.pop()
                except Exception as e:
                    ok, why = False, f"unexpected {type(e).__name__}"
                    break
                for name in ("a", "b", "c", "bold", "italic", "foo", "Foo", "zzz"):
                    if (st.get(name) is None) != (spec.lookup(name) is None) or (st.get(name) is not None and not same_style(st.get(name), spec.lookup(name))):
                        ok, why = False, f"after {k + 1} steps ThemeStack.get({name!r}) is {st.get(name)}, the newest-defining-theme rule gives {spec.lookup(name)}"
                        break
                if not ok:
                    break
            ctx.check(ok, "ThemeStack history", "".join(word), why)

    # ================================================================ 3. configparser contract, Theme.config, Theme.from_file
    # 3a. str.isspace as the model has it (all code points)
    for cp in range(0, 0x110000):
        if 0xD800 <= cp <= 0xDFFF:
            continue
        ctx.case("cfg_isspace", [cp], enc_bool(chr(cp).isspace()))
        if cp < 0x20000 or not ctx.quick:  # every character str.lower changes lies below U+1E944
            ctx.case("cfg_lower", [cp], enc_str(chr(cp).lower()))
    ctx.flush()

    # the round trip's domain: the harness predicate is the Lean predicate (safeName / safeValue of Model/ConfigParser.lean)
    dom_names = SAFE_NAMES + NONASCII_SAFE + UPPER_NAMES + HOSTILE_NAMES + ["Σ", "aΣb", "İ", "ǅx", "ẞ", "ﬁ", "a\u00a0", "\u2003a", "a\x85", "x]", "a%b", "a#b", "]", "a;b", "A.b", "z" * 40]
    chars = ["a", "Z", " ", "=", ":", "#", ";", "[", "]", "\n", "\t", "%", "é", ".", "\x1f", "\u3000"]
    for _ in range(300 if ctx.quick else 5000):
        dom_names.append("".join(rng.choice(chars) for _ in range(rng.randint(0, 4))))
    for n in dom_names:
        base_ok = name_in_domain(n)
        ctx.case("cfg_safe_name", [0, enc_str(n)], enc_bool(base_ok), shape=str(base_ok))
        ctx.case("cfg_safe_name", [1, enc_str(n)], enc_bool(base_ok and n == n.lower() and "\u03a3" not in n))
        ctx.case("cfg_lower", [enc_str(n)], enc_str(n.lower()))
        v_ok = bool(n) and n == n.strip() and "\n" not in n
        ctx.case("cfg_safe_value", [0, enc_str(n)], enc_bool(v_ok))
        ctx.case("cfg_safe_value", [1, enc_str(n)], enc_bool(v_ok and "%" not in n))
        ctx.case("cfg_strip", [enc_str(n)], enc_str(n.strip()))

    one_style = style_space(rng)
    n_cfg = 500 if ctx.quick else 8000
    all_names = SAFE_NAMES * 3 + NONASCII_SAFE + UPPER_NAMES + HOSTILE_NAMES
    # bounded-exhaustive part: every single-entry theme over the name alphabet x {plain, each link}
    singles = [Theme(), Theme({}, inherit=False)]
    for n in SAFE_NAMES + NONASCII_SAFE + UPPER_NAMES + HOSTILE_NAMES:
        singles.append(Theme({n: Style(bold=True)}, inherit=False))
    for link in ["http://example.org/x", "x;y#z", "=", "http://a:b", "50%", "%%", "%(a)s", "http://x/%20y", "[x]", "#x"]:
        singles.append(Theme({"a": Style(link=link)}, inherit=False))
        singles.append(Theme({"a": Style(link=link), "b": Style(color="red")}, inherit=False))
    singles.append(Theme({"a": Style(bold=True), "A": Style(dim=True)}, inherit=False))
    # Theme.config for every default style on its own (besides Theme() as a whole, first in this list)
    for n_, st_ in DEFAULT_STYLES.items():
        singles.append(Theme({n_: st_}, inherit=False))
    ctx.note("cfg_single_default_styles", len(DEFAULT_STYLES))
    singles.append(Theme({"x": Style(bold=True), "[a": Style(link="x]")}, inherit=False))
    for i in range(len(singles) + n_cfg):
        r = rng.random()
        if i < len(singles):
            theme = singles[i]
        elif r < 0.55:
            theme = Theme({rng.choice(SAFE_NAMES + NONASCII_SAFE): one_style() for _ in range(rng.randint(0, 5))}, inherit=rng.random() < 0.1)
        else:
            theme = Theme({rng.choice(all_names): one_style() for _ in range(rng.randint(1, 4))}, inherit=False)
        # styles whose own string form does not parse back are C06's business: keep them out of this generator
        clean = {}
        for k, v in theme.styles.items():
            r2 = parse_outcome(ids, str(v))
            if r2[0] == "v" and same_style(r2[1], v):
                clean[k] = v
            else:
                ctx.note("style_str_not_parseable(C06)")
        theme.styles = clean
        text = theme.config
        # Theme.config itself
        cn = Names()
        denc = ",".join(f"{cn.add(k)}={cn.add(str(v))}" for k, v in theme.styles.items())
        ctx.case("theme_config", [cn.enc(), denc], enc_str(text), shape=f"n{min(len(theme.styles), 6)}")
        exp_text = "[styles]\n" + "\n".join(f"{k} = {v}" for k, v in sorted(theme.styles.items(), key=lambda kv: kv[0]))
        ctx.check(text == exp_text, "Theme.config", dict(theme.styles), "config is not the [styles] header followed by the sorted `name = style` lines")
        # contract of configparser on this text
        ctx.case("cfg_items", [CFG_LOWER, CFG_INTERP, enc_str(text)], real_cfg_items(text), shape="from-config")
        in_domain = all(name_in_domain(n) for n in theme.styles)
        ctx.note("cfg_theme:" + ("in-domain" if in_domain else "hostile-name"))
        for inherit in (False, True):
            t2, ans = check_from_file(ctx, ids, text, inherit, defaults_enc, defaults_names,
                                      readable=f"Theme.from_file(StringIO({text!r}), inherit={inherit})" if i % 40 == 3 else None,
                                      via_path=(i % 25 == 5))
            if not in_domain:
                continue
            # the property: the config text reads back as a theme with equal styles
            want = dict(theme.styles) if not inherit else {**DEFAULT_STYLES, **theme.styles}
            ok = t2 is not None and same_styles(t2.styles, want)
            finding = None
            if not ok:
                finding = classify_roundtrip_failure(theme.styles, want, t2, ans)
            shown = {k: str(v) for k, v in theme.styles.items()}
            ctx.check(ok, "Theme.from_file(Theme.config)", (shown, inherit),
                      f"reading back the config gives {ans[:60] if t2 is None else 'different styles: ' + repr({k: str(v) for k, v in t2.styles.items() if k not in want or not same_style(want[k], v)} or sorted(set(want) - set(t2.styles)))[:200]}",
                      finding=finding)
    ctx.flush()

    # 3b. hostile config texts: the parser contract and from_file's error paths
    pieces = ["[styles]", "a = red", "A=bold", "x : dim", "# c", "; c", "", "  ", " b = red", "\tc = red", "[other]", "k = link 100%",
              "k = link %%", "k = link %(a)s", "novalue", "= red", "[]", "[styles]]", "a = b = c", "a : on = c", "a = red  ", "a\t=\tred",
              "q\x1f= red", "[styles] ", " [styles]", "B = zzz", "é = red", "É = red", "[styles", "b=not", "a =", "c = none", "[ styles ]", "#[styles]", "a = red # no"]
    pieces += ["[DEFAULT]", "  bold", "\tunderline  ", "  [x]", " ; c", "  # c", "k = link %(a)s x", "[DEFAULT]", "   on blue", "D = dim", "[a]b]", "x = ", " y = red"]
    pieces += ["İx = red", "ǅ = dim", "Σ = red", "aΣ = red"]
    outside = {"Σ = red", "aΣ = red"}  # capital sigma: outside the model while names are lower-cased
    modelled_pieces = [p_ for p_ in pieces if p_ not in outside] if CFG_LOWER else pieces
    n_txt = 1500 if ctx.quick else 40000
    for i in range(n_txt):
        k = rng.randint(0, 5)
        # mostly lines the configparser model answers (indentation, other sections, [DEFAULT], %(name)s with interpolation
        # off and non-ASCII names are all modelled now); the rest - option names with a capital sigma U+03A3 while names are
        # lower-cased - makes the model answer `unmodelled`
        lines = [rng.choice(pieces if rng.random() < 0.04 else modelled_pieces) for _ in range(k)]
        if rng.random() < 0.7:
            lines.insert(0, "[styles]")
        eol = "\n" if rng.random() < 0.8 else rng.choice(["\r\n", "\r"])
        text = eol.join(lines) + (eol if rng.random() < 0.5 else "")
        if rng.random() < 0.03:
            text = "\ufeff" + text
        ans = real_cfg_items(text)
        ctx.case("cfg_items", [CFG_LOWER, CFG_INTERP, enc_str(text)], ans, shape=ans.split(":")[0] + (":" + ans.split(":")[1] if ans.startswith("err") else ""),
                 sample=f"configparser on {text!r}" if i % 300 == 1 else None)
        check_from_file(ctx, ids, text, rng.random() < 0.5, defaults_enc, defaults_names, via_path=(eol != "\n" or i % 6 == 0))
    ctx.flush()
    ctx.rule = (
        "every history forest with <= %d statements over {push(A,inherit), push(B,no-inherit), pop, raise, use(A,no-inherit)[..], "
        "use(B,inherit)[..]} on a 4-name base, each with %d lookups after every statement (bounded-exhaustive), + seeded random "
        "histories to depth 4 / 12 statements over random themes (1 in 8 on the default console); Theme() over 12 names x 24 definitions; "
        "config round trip over random themes (names: safe/non-ASCII/upper-case/hostile; styles: 13 attributes x 9 colours x 11 links) "
        "and random config texts over %d line shapes (\\n / \\r\\n / \\r endings, BOM, 1 in 6 through Theme.read on a real file); "
        "every stack of <= %d pushes over 4 themes x inherit looked up at each level and popped; every 1-thread word <= %d over "
        "{push, enter, pop, base[k]=v, pushed[k]=v} and every 2-thread schedule <= %d over {push, pop} on real threads, + random "
        "3-thread schedules; the same history forests (>= 2 `with` statements, <= %d statements; thorough + raise-only leaves one deeper) with the "
        "`with` blocks naming two ThemeContext OBJECTS (re-entered while active, re-used, left by exception) and every hand-driven word "
        "<= 3 (5) over {ctx0/ctx1.__enter__, .__exit__, pop_theme}; resolved styles compared field by field (tri-state attributes, "
        "colours, link, str, hash), pools include styles with a link AND negated attributes; "
        "str.isspace / str.lower on all code points; distinct = distinct canonical requests"
        % (nmax, len(probes), len(pieces), 3 if ctx.quick else 4, 3 if ctx.quick else 4, 3 if ctx.quick else 4, nmax)
    )


def replay(ctx, case):
    print("site:", case.get("site"))
    print("input:", case.get("input"))
    print("what:", case.get("what"))
    print("re-run `./check C20` to re-evaluate (the generators are seeded: VERIF_SEED=%s)" % case.get("seed"))
    return False


MANIFEST = {
    "text": "Lean 4 theorems (Props/C20.lean, 42; no bound on the number of themes, names, nesting depth, history or schedule length). "
    "Stack: `resolve_spec`/`get_style_spec` - on the ThemeStack representing any list of (theme, inherit) frames over a base, "
    "Console.get_style(name, default) is: newest frame defining the name, falling through inheriting frames only, else Style.parse "
    "(StyleSyntaxError -> default / MissingStyle, other errors propagate); `lookup_reads_top_entry_only`; `get_style_object_spec` (a "
    "looked-up/parsed style with a link is returned as a fresh copy, anything else as the object itself); `history_refines`/"
    "`lookup_after_history` - every history of push_theme/pop_theme/raise/`with use_theme(..)` (any nesting, unbalanced pops, "
    "exceptions, exceptions out of __exit__) ends on the stack the frame specification computes, with the same outcome; `pop_push_id`; "
    "`balanced_restores` (+ `_lookups`, `use_theme_restores_on_exception`) - every balanced history, including use_theme bodies "
    "aborted by an exception at any point, restores entries and the bound `get` exactly; `base_not_poppable`, `base_survives`; "
    "`restore_after_base_mutation` (pushes, an outside assignment to the base theme's dict, as many pops = the original stack with that "
    "assignment) with `inherit_snapshot_is_stale` documenting what is not promised; `thread_isolation` (one stack per thread: for every "
    "interleaving a thread's stack is the run of its own steps - a statement about the hypothetical per-thread variant) and "
    "`threads_share_one_stack` documenting what the code does (both outside the property proper); `theme_new_lookup`/`theme_new_error`. Config: `configparser_contract` - an executable model of configparser "
    "(comments, continuation lines, sections, [DEFAULT], duplicates, str.lower from a generated table) returns exactly the entries "
    "Theme.config wrote, for all entry lists with safe names/values; `config_roundtrip` over the abstract contract, "
    "`config_roundtrip_model`/`_inherit`; `from_file_total` (a Theme, a configparser exception or Style.parse's exception, for every "
    "text); `read_is_from_file` (+ CR/BOM witnesses); `default_names_safe` by `decide +kernel` on the DEFAULT_STYLES keys translated "
    "on every run; `configparser_fragment_examples`/`_errors` (concrete instances of the parser model); `trace_is_run`. Witnesses for the "
    "repaired/known defects: `old_use_theme_ignores_inherit`, `old_config_percent_breaks`/`_changes_value`, "
    "`old_config_lowercases_names` (by `decide`) and `old_history_is_forced_inherit` (for every history). "
    "ThemeContext objects with identity (Model/ThemeCtx.lean: histories `COp` whose `with` statements name objects of a store): "
    "`ctx_objects_are_stateless` (every such history - same object re-entered while active, re-used, left by exception - runs exactly "
    "as the history with a fresh use_theme per `with`), `ctx_history_refines`, `ctx_balanced_restores`, `ctx_nested_reentry_restores`, "
    "`ctx_enters_exits_restore` (n hand-called __enter__s of any objects then n __exit__s of any objects restore the stack), and the "
    "`decide` documentation witness `ctx_entered_flag_would_break_reentry` (a hypothetical ThemeContext with an `entered` flag leaves a "
    "theme pushed; not the code). Known finding config-name-case: `config_roundtrip_keeps_case` (the lower=false, interp=false parser "
    "round-trips names of any case) and `known_config_name_case` (witness with the parser /repo builds now: Foo -> foo, {A, a} -> "
    "DuplicateOptionError, also through from_file). "
    "Tie: every history forest with <=3 (quick) / <=4 (thorough) statements over 6 statement kinds with 27 lookups after each statement; "
    "every stack of <=3 (4) pushes over 4 themes x inherit; seeded random histories to depth 4; all push/pop words <=5 (7) directly on "
    "ThemeStack; every 1-thread word <=3 (4) with outside dict mutations and every 2-thread schedule <=3 (4) on real threads, random "
    "3-thread schedules; Theme() over 12 names x 24 definitions; config round trip over single-entry themes and random themes; random "
    "config texts over ~50 line shapes with LF/CRLF/CR endings and BOM, part through Theme.read on real files; str.isspace and "
    "str.lower on all code points - each compared model-vs-rich and evaluated against oracles written from the property statement. "
    "Added in deepening 4: `theme_hist_ctx` - the history forests with >= 2 `with` statements in which the blocks enter two "
    "ThemeContext objects by identity (208 quick: <= 3 statements; thorough <= 4 + one level deeper with `raise` as only leaf and >= 3 `with`s) + random histories drawing `with` statements from a pool of 1-2 objects (every second "
    "random history), and `theme_ctx_flat` - every word <= 3 (5) over {ctx0.__enter__, ctx0.__exit__, ctx1.__enter__, ctx1.__exit__, "
    "pop_theme} plus length-4 (6) words with ctx0 entered at least twice, and 60 (3000) random words to 12, each with a frame-list oracle "
    "('ThemeContext object re-entered / re-used'). Style ids and every direct comparison of resolved styles are now structural "
    "(`skey`: colours, the 13 attributes as True/False/None, link, bool, str, hash, and Style.__eq__ must agree) instead of "
    "Style.__eq__ alone; style pools and theme entries include styles with BOTH a link and negated attributes (looked up from a theme "
    "entry, via the default, and parsed from a definition - the cases get_style copies). get_style with names that are neither str nor "
    "Style (None, int, float, bytes, tuple, bool, list, dict) x 5 defaults is evaluated against Style.parse's own outcome (direct only, "
    "not in the model: model names are strings). Theme.config / from_file round trip for each of the 130 default styles on its own.",
    "note": "Trusted: Lean kernel; axioms propext/Classical.choice/Quot.sound; translator plug-ins harness/gen/default_style_names.py and "
    "harness/gen/py_lower.py (str.lower of the running Python, re-checked on all code points each run); the correspondence harness. "
    "Parameters (assumed, exercised per case): styles are opaque ids compared by Style.__eq__; Style.parse and Style.__str__ are tables "
    "computed by the real code, and the round trip assumes parse(str(s)) == s (C06; styles failing it are filtered and counted); "
    "configparser is stdlib - its model answers `unmodelled` (counted) only for option names containing U+03A3 while lower-casing and "
    "for %(name)s references while interpolation is on, and is checked against the real parser on every generated text. Round-trip "
    "domain (stated, not a finding): names non-empty, without '=' ':' newline, strip()-stable, not starting with '#' ';' '[' (and "
    "without CR for Theme.read). Threads: steps are atomic and follow the schedule (no preemption inside push_theme/pop_theme is "
    "exhibited). Outside mutation: only item assignment on styles dicts; the base entry aliases the base theme's dict as the code has "
    "it, and a mutation is invisible under an open inheriting push until it is popped (documented non-finding). `Console(theme=t)` "
    "testing `not theme` instead of `is None` is equivalent (Theme has no __bool__/__len__). Code-variant flags at the top of this file "
    "(current values = the code in /repo): CTX_IGNORES_INHERIT=0 (repaired, fix 2ea71d3), CFG_INTERP=0 (repaired, fix 1124f7d), "
    "CFG_LOWER=1 is the known finding config-name-case (not repaired; every round trip it explains is printed as a KNOWN-FINDING "
    "line and not counted as a violation); STACK_SHARED=1 records that all threads of a Console share one ThemeStack "
    "(threading.local re-runs __init__ with the same object). That sharing is NOT a defect and not part of C20, whose statement is about "
    "single-threaded histories (a Live/Progress refresh thread must see the themes the main thread pushed): the two-thread behaviour "
    "is only compared with the `shared = true` model in the correspondence, so a change of it is noticed as model != code; "
    "`thread_isolation` is a theorem about the hypothetical per-thread variant, kept as documentation.",
    "design_ref": "DESIGN.md section 7, C20",
}
