"""C19 — the ANSI decoder inverts the truecolor encoder, and redirected output is never lost.

Correspondence: Lean model (Model/Ansi.lean) vs rich.ansi / rich.style.Style.render / rich.file_proxy, in-process.
Direct evaluation (3d): the executable statements of the theorems in Props/C19.lean on rich's own output, with
oracles that share no code with the model: harness/term.py (tokenizer) + lib_ansi.sgr_fold (ECMA-48 reading of SGR)
for "what does this stream mean per character", lib_ansi.spec_units for "what must the proxy print".
"""
import io
import itertools
import os
import sys
import threading
import time

from core import enc_str, enc_str_list
import lib_ansi as L

PROPERTY = "C19"

# CODE VARIANT FLAGS — which variant of the code the model is compared with (fields of `Ansi.Cfg` in
# lean/RichModel/Model/Ansi.lean).  1 = rich 9.10.0 as found, 0 = repaired = what /repo contains now
# (fixes 8dc20cb F10, c4ae818 F20, eb349e5 F27, c143415 F28, b9c1000 F29, 70d7986 F31, a4759bf F32, 37dd303 F33:
# all eight are in /repo, all eight flags are 0).
INT_RAISES = 0   # F10: AnsiDecoder.decode_line lets int()'s ValueError out ("\x1b[²m", > 4300 digits)
FLUSH_RAW = 0    # F20: FileProxy.flush prints the pending text as a str (markup / emoji / highlight on, not decoded)
EMPTY_IGNORED = 0      # F27: an omitted SGR parameter is dropped: "\x1b[m" does not reset (ECMA-48: omitted = 0)
RESET_DROPS_LINK = 0   # F28: SGR 0 also drops the OSC 8 hyperlink
OFF_SINGLE = 0         # F29: 24 / 25 leave the double underline / rapid blink on
CR_ERASES = 0          # F31: a line ending in "\r" (CR LF output) decodes to nothing
SGR_LAZY = 0           # F32: any "ESC [" is read as SGR up to the next "m": ESC[?25l / ESC[2K / ESC[1A swallow the text after them
OSC_ST_ONLY = 0        # F33: an OSC string ending in BEL (the common form of OSC 8 / OSC 0) is not recognised: link lost, "8;;url" printed
FLAGS = "".join(str(int(bool(x))) for x in (INT_RAISES, FLUSH_RAW, EMPTY_IGNORED, RESET_DROPS_LINK, OFF_SINGLE, CR_ERASES, SGR_LAZY, OSC_ST_ONLY))
# development aid only (running against another checkout, VERIF_REPO=<worktree>): VERIF_C19_FLAGS=00000000 overrides the constants above
FLAGS = os.environ.get("VERIF_C19_FLAGS") or FLAGS
assert len(FLAGS) == 8 and set(FLAGS) <= {"0", "1"}

ESC = "\x1b"
LINE_SEPS = {10, 11, 12, 13, 28, 29, 30, 133, 8232, 8233}  # isLineSep in Model/Ansi.lean


# ------------------------------------------------------------------ guard against hangs in the code under test
def guarded(ctx, name, fn, stall=60.0):
    """Run one section in a daemon thread; if it makes no progress for `stall` seconds the code under test
    hangs on the input it was last given: recorded as a property failure, the section is abandoned."""
    prog = {"t": time.time(), "inp": None, "exc": None, "done": False}

    def tick(inp=None):
        prog["t"] = time.time()
        prog["inp"] = inp

    def body():
        try:
            fn(tick)
        except BaseException as e:  # harness bug: re-raised in the main thread (exit 2)
            prog["exc"] = e
        prog["done"] = True

    th = threading.Thread(target=body, daemon=True)
    th.start()
    while not prog["done"]:
        th.join(0.25)
        if not prog["done"] and time.time() - prog["t"] > stall:
            ctx.check(False, name, prog["inp"], f"the call did not return within {stall:.0f} s (hang)")
            ctx.note("HANG:" + name)
            return
    if prog["exc"] is not None:
        raise prog["exc"]


def make_console(width=200, cls=None):
    from rich.console import Console

    f = io.StringIO()
    c = (cls or Console)(file=f, force_terminal=True, color_system="truecolor", width=width, legacy_windows=False)
    return c, f


# ------------------------------------------------------------------ section 0: runtime facts
def check_runtime_facts(ctx):
    seps = {cp for cp in range(0x110000) if not (0xD800 <= cp <= 0xDFFF) and len(("a" + chr(cp) + "b").splitlines()) == 2}
    if seps != LINE_SEPS:
        raise RuntimeError(f"str.splitlines separators of the running Python differ from the model: {sorted(seps ^ LINE_SEPS)}")
    if "a\r\nb".splitlines() != ["a", "b"] or "a\n\rb".splitlines() != ["a", "", "b"]:
        raise RuntimeError("str.splitlines CR LF handling differs from the model")
    ctx.assumptions.append("str.splitlines breaks exactly at LF VT FF CR FS GS RS NEL LS PS and CR LF (validated over all code points this run)")


# ------------------------------------------------------------------ section 1: tokenizer
TOK_ALPHA = [ESC, "[", "]", "m", "\\", "\n", "a", ";", "0", " ", "A"]


def enc_tokens(toks):
    out = []
    for t in toks:
        plain, sgr, osc = t
        if sgr is None:
            out.append("O=" + enc_str(osc))
        elif osc is None:
            out.append("S=" + enc_str(sgr))
        else:
            out.append("P=" + enc_str(plain))
    return f"{len(out)}:" + ",".join(out)


def section_tokenizer(ctx, tick):
    import rich.ansi as A

    tok = getattr(A, "_ansi_tokenize", None)
    re_csi = getattr(A, "re_csi", None)
    rng = ctx.rng
    maxlen = 4 if ctx.quick else 5

    def one(s):
        tick(s)
        if tok is not None:
            try:
                ans = enc_tokens(list(tok(s)))
            except BaseException as e:
                ans = "err:Other:" + type(e).__name__
            ctx.case("ansi_tokenize", [FLAGS, enc_str(s)], ans, shape=f"len{min(len(s), 8)}", sample=f"_ansi_tokenize({s!r})")
        if re_csi is not None:
            try:
                ans = enc_str(re_csi.sub("", s))
            except BaseException as e:
                ans = "err:Other:" + type(e).__name__
            ctx.case("ansi_remove_csi", [enc_str(s)], ans, shape=f"len{min(len(s), 8)}")

    for n in range(maxlen + 1):
        for t in itertools.product(TOK_ALPHA, repeat=n):
            one("".join(t))
    alpha2 = TOK_ALPHA + ["?", "/", "@", "~", "8", "Z", "_", "\r", "é", "1"]
    for _ in range(30000 if ctx.quick else 300000):
        n = rng.randint(5, 14)
        one("".join(rng.choice(alpha2 if rng.random() < 0.5 else TOK_ALPHA) for _ in range(n)))
    if tok is None:
        ctx.note("tokenizer_not_importable")
    # str.splitlines (runtime fact) through the model
    alpha3 = ["a", "\n", "\r", "\x0b", "\x0c", "\x1c", "\x1d", "\x1e", "\x85", " ", " ", "\x1f", " "]
    for n in range(4):
        for t in itertools.product(alpha3, repeat=n):
            s = "".join(t)
            ctx.case("ansi_splitlines", [enc_str(s)], enc_str_list(s.splitlines()), shape=f"len{n}")
    ctx.flush()


# ------------------------------------------------------------------ section 2: decoder
DEC_ALPHA = [ESC + "[", "m", ";", "0", "1", "22", "38", "48", "5", "2", "255", "300", "31", "²", "٣", "a", ESC + "]8;", ESC + "\\", "id=1", "u", "\r", "\x08", "\n"]


def bad_int_param(s):
    """Narrow classifier for F10: some `;`-separated field between `ESC [` and `m` passes str.isdigit() but int()
    rejects it (a non-decimal digit, or more digits than sys.get_int_max_str_digits())."""
    import re

    lim = sys.get_int_max_str_digits() if hasattr(sys, "get_int_max_str_digits") else 0
    for m in re.finditer(r"\x1b\[(.*?)m", s):
        for p in m.group(1).split(";"):
            if p.isdigit() and (not p.isdecimal() or (lim and len(p) > lim)):
                return True
    return False


def decode_line_case(ctx, s, tick=None):
    from rich.ansi import AnsiDecoder
    from rich.style import Style

    if tick:
        tick(s)
    d = AnsiDecoder()
    lines, err = [], None
    try:
        lines = [d.decode_line(s)]
    except BaseException as e:
        err = e
    final = getattr(d, "style", None)
    ans = L.enc_decoded(lines, final if isinstance(final, Style) else Style.null(), err)
    shape = "err:" + type(err).__name__ if err else f"spans{min(len(lines[0].spans), 4)}"
    ctx.case("ansi_decode_line", [FLAGS, enc_str(s)], ans, shape=shape, sample=f"AnsiDecoder().decode_line({s!r})")
    finding = None
    if err is not None and isinstance(err, ValueError) and bad_int_param(s):
        finding = "decode-int-valueerror"
    ctx.check(err is None, "AnsiDecoder.decode_line", s, f"raised {type(err).__name__}: {err}" if err else "", finding=finding)
    return lines, err


def decode_case(ctx, s, tick=None):
    from rich.ansi import AnsiDecoder
    from rich.style import Style

    if tick:
        tick(s)
    d = AnsiDecoder()
    lines, err = [], None
    try:
        for t in d.decode(s):
            lines.append(t)
    except BaseException as e:
        err = e
    final = getattr(d, "style", None)
    ans = L.enc_decoded(lines, final if isinstance(final, Style) else Style.null(), err)
    ctx.case("ansi_decode", [FLAGS, enc_str(s)], ans, shape="err" if err else f"lines{min(len(lines), 4)}", sample=f"list(AnsiDecoder().decode({s!r}))")
    finding = "decode-int-valueerror" if isinstance(err, ValueError) and bad_int_param(s) else None
    ctx.check(err is None, "AnsiDecoder.decode", s, f"raised {type(err).__name__}: {err}" if err else "", finding=finding)
    return lines, err


def sgr(*codes):
    return ESC + "[" + ";".join(str(c) for c in codes) + "m"


def rand_codes(rng, table_keys):
    """One SGR parameter list: mostly valid, sometimes truncated / malformed."""
    out = []
    for _ in range(rng.randint(1, 5)):
        r = rng.random()
        if r < 0.45:
            out.append(rng.choice(table_keys))
        elif r < 0.6:
            out += [rng.choice([38, 48]), 5, rng.choice([0, 7, 8, 15, 16, 200, 255, 256, 999])]
        elif r < 0.75:
            out += [rng.choice([38, 48]), 2, rng.choice([0, 1, 255, 300]), rng.randint(0, 255), rng.choice([0, 128, 255])]
        elif r < 0.85:
            out += rng.choice([[38], [48], [38, 5], [48, 2], [38, 2, 1], [48, 2, 1, 2], [38, 7, 1], [38, 0], [48, 1, 5, 3]])
        elif r < 0.9:
            out.append(0)
        else:
            out.append(rng.choice(["", "x", "-1", "+1", " 1", "1 ", "²", "٣", "٣٤", "1_0", "007", "0x1", "1e1"]))
    return out


FOREIGN_CODES = [1, 2, 3, 4, 5, 6, 7, 8, 9, 21, 22, 23, 24, 25, 27, 28, 29, 51, 52, 53, 54, 55, 0, 39, 49,
                 30, 31, 37, 40, 47, 90, 97, 100, 107, 10, 50, 65, 99]


def foreign_stream(rng, newline=False):
    """An escape-coded line as some other program might write it (only sequences whose meaning ECMA-48 / ISO 8613-6 fix)."""
    parts = []
    linked = False
    for _ in range(rng.randint(1, 7)):
        r = rng.random()
        if r < 0.45:
            ps = []
            for _ in range(rng.randint(0, 4)):
                k = rng.random()
                if k < 0.6:
                    ps.append(str(rng.choice(FOREIGN_CODES)))
                elif k < 0.7:
                    ps.append("")  # omitted parameter = 0
                elif k < 0.85:
                    ps += [str(rng.choice([38, 48])), "5", str(rng.choice([0, 7, 8, 15, 16, 200, 255]))]
                else:
                    ps += [str(rng.choice([38, 48])), "2", str(rng.randint(0, 255)), str(rng.choice([0, 255])), str(rng.randint(0, 255))]
            parts.append(ESC + "[" + ";".join(ps) + "m")
        elif r < 0.6:
            if linked:
                parts.append(ESC + "]8;;" + ESC + "\\")
            else:
                parts.append(ESC + "]8;" + rng.choice(["", "id=9"]) + ";" + rng.choice(["http://e.x", "ftp://a/b;c"]) + ESC + "\\")
            linked = not linked
        elif r < 0.72:
            parts.append(rng.choice(CSI_OTHER))
        elif r < 0.78:
            parts.append(rng.choice([ESC + "]8;;http://b.el\x07", ESC + "]8;;\x07", ESC + "]0;title\x07", ESC + "]2;t" + ESC + "\\"]))
        else:
            parts.append(rng.choice(["a", "bc", "日本", " ", "x=1", "items", "m"]))
    return "".join(parts) + ("\r" if rng.random() < 0.1 else "")


def classify_meaning_diff(stream, got_rows, want_rows):
    """Narrow classifiers for the three known deviations of the decoder from ECMA-48: the slug of a deviation is
    returned only if the stream read with exactly that one deviation explains what was observed (None = anything else,
    including a combination)."""
    def cells(rows):
        rows = [[tuple(c) for c in r if c[0] != "\x07"] for r in rows]  # a BEL left in the text is not a cell
        while rows and not rows[-1]:
            rows.pop()
        return rows

    # only deviations of the variant the check is run against (flag still 1) can explain a failure
    for dev, slug, bit in (("osc-bel", "osc-bel-terminator", 7), ("cr", "decode-trailing-cr-erases-line", 5), ("csi-lazy", "csi-swallows-text", 6),
                           ("empty", "sgr-empty-param-ignored", 2), ("reset-link", "sgr-reset-drops-link", 3), ("off-single", "sgr-off-keeps-double", 4)):
        if FLAGS[bit] != "1":
            continue
        try:
            alt, _ = L.stream_meaning(stream, deviation=dev)
        except Exception:  # noqa: BLE001
            continue
        if cells(alt) == cells(got_rows):
            return slug
    return None


def section_decoder(ctx, tick):
    import rich.ansi as A

    rng = ctx.rng
    table = getattr(A, "SGR_STYLE_MAP", {})
    keys = sorted(k for k in table if isinstance(k, int)) or [1]
    # every code 0..300 from the null state and from a fully set state (catches a wrong table row / sub-parser branch)
    full = sgr(1, 2, 3, 4, 5, 6, 7, 8, 9, 21, 51, 52, 53, 38, 5, 200, 48, 2, 1, 2, 3) + ESC + "]8;id=1;http://u" + ESC + "\\"
    from rich.style import Style

    def meaning_check(stream):
        """direct evaluation: the decoded per-character styles mean what ECMA-48 says the stream means"""
        lines, err = decode_line_case(ctx, stream, tick)
        if err is not None:
            return
        want, _unk = L.stream_meaning(stream)
        got = [(ch,) + L.style_key(st) for ch, st in zip(lines[0].plain, L.text_char_styles(lines[0], Style.combine))]
        exp = [(c[0], c[1], c[2], c[3], c[4]) for c in want[0]]
        ctx.check(got == exp, "AnsiDecoder.decode_line meaning", stream,
                  f"decoded {got!r}, the stream means {exp!r}" if got != exp else "",
                  finding=classify_meaning_diff(stream, [got], [exp]) if got != exp else None)

    full_nolink = sgr(1, 2, 3, 4, 5, 6, 7, 8, 9, 21, 51, 52, 53, 38, 5, 200, 48, 2, 1, 2, 3)
    for n in range(0, 301):
        decode_line_case(ctx, sgr(n) + "X", tick)
        decode_line_case(ctx, full + "a" + sgr(n) + "X", tick)
        # ECMA-48 reading of the code on a fully set state, with and without a hyperlink around it.  26 is compared with
        # the model only: ECMA-48 gives it to proportional spacing, rich's table reads it as "not blink2".
        if n != 26:
            meaning_check(full + "a" + sgr(n) + "X")
            meaning_check(full_nolink + "a" + sgr(n) + "X")
            meaning_check(sgr(1, 3, 4, 5, 7) + "a" + sgr(n) + "X")
            meaning_check(sgr(n) + "X" + sgr(0) + "Y")
        decode_line_case(ctx, sgr(38, 5, n) + "X" + sgr(48, 5, n) + "Y", tick)
        decode_line_case(ctx, sgr(38, 2, n, 0, 300 - n) + "X" + sgr(48, 2, 7, n, 1) + "Y", tick)
    # exhaustive token sequences
    kmax = 3
    for n in range(kmax + 1):
        for t in itertools.product(DEC_ALPHA, repeat=n):
            decode_line_case(ctx, "".join(t), tick)
    for _ in range(12000 if ctx.quick else 150000):
        n = rng.randint(4, 10)
        decode_line_case(ctx, "".join(rng.choice(DEC_ALPHA) for _ in range(n)), tick)
    # structured streams
    links = ["http://e.x", "", "a;b", "ü", "x y"]
    for _ in range(12000 if ctx.quick else 150000):
        parts = []
        for _ in range(rng.randint(1, 6)):
            r = rng.random()
            if r < 0.45:
                parts.append(ESC + "[" + ";".join(str(c) for c in rand_codes(rng, keys)) + "m")
            elif r < 0.6:
                parts.append(ESC + "]8;" + rng.choice(["", "id=7", "id=1:x=2"]) + rng.choice([";", ";", ""]) + rng.choice(links) + rng.choice([ESC + "\\", ESC + "\\", "\x07", ""]))
            elif r < 0.65:
                parts.append(rng.choice([ESC + "[2K", ESC + "[?25l", ESC + "[1A", ESC + "M", ESC + "]0;t" + ESC + "\\", ESC, ESC + "[", "\r", "\x08", "\x0b"]))
            else:
                parts.append(rng.choice(["a", "bc", "日本", " ", "m", ";", "[b]", "1"]))
        s = "".join(parts)
        if rng.random() < 0.25:
            nl = rng.choice(["\n", "\r\n", "\r", "\x85", " ", "\x0c"])
            decode_case(ctx, nl.join(rng.sample(parts, len(parts))) + rng.choice(["", nl]), tick)
        else:
            decode_line_case(ctx, s, tick)
    # foreign ANSI (not written by rich's encoder): well-formed SGR / OSC 8 in any order, omitted parameters, resets inside
    # hyperlinks, every off code — the decoder must give each character the meaning ECMA-48 gives it
    for _ in range(6000 if ctx.quick else 100000):
        meaning_check(foreign_stream(rng))
    for s0 in [ESC + "[1mbold" + ESC + "[mplain", ESC + "[1mb" + ESC + "[;3mi", ESC + "[1;m" + "x", ESC + "[;mx" + ESC + "[3;;4my",
               ESC + "]8;;http://u" + ESC + "\\" + ESC + "[1mA" + ESC + "[0mB" + ESC + "]8;;" + ESC + "\\C",
               ESC + "[21md" + ESC + "[24mn", ESC + "[6mr" + ESC + "[25ms", ESC + "[4;21mu" + ESC + "[24mn",
               "foo\r", "10%\r\r", ESC + "[?25lloading items", ESC + "[2Kcleared line, more text", "a" + ESC + "[1Aup, then m rest",
               sgr(1, 31) + "red" + ESC + "[2Kx" + sgr(0) + "plain", ESC + "[Hhome", ESC + "[10;20Hmoved", ESC + "[>4;2mxterm",
               ESC + "]8;;http://x\x07link text" + ESC + "]8;;\x07 after", ESC + "]0;window title\x07text", ESC + "]8;;u\x07a" + ESC + "]8;;" + ESC + "\\b"]:
        meaning_check(s0)
    # escape sequences that are neither SGR, OSC nor CSI: compared with the model, and what real rich does with them is
    # counted (classification in the header of Props/C19.lean; none of this is a check)
    probes = {
        "dcs": ESC + "Pq#0;2;0;0;0#1~~@@vv@@~~" + ESC + "\\after", "apc": ESC + "_app command" + ESC + "\\text", "pm": ESC + "^pm" + ESC + "\\x",
        "sos": ESC + "Xs" + ESC + "\\t", "dcs_unterminated": ESC + "Pq#0 no end", "c1_csi": "\x9b31mred\x9b0m plain", "c1_osc": "\x9d0;t\x9cx",
        "c1_dcs": "\x90q\x9cy", "esc_7_8": ESC + "7save" + ESC + "8restore", "esc_c": "a" + ESC + "cb", "esc_charset": ESC + "(Bcharset",
        "esc_keypad": ESC + "=keypad", "colon_rgb": ESC + "[38:2::10:20:30mcolon", "colon_underline": ESC + "[4:3mcurly",
    }
    for name, p_ in probes.items():
        lines, err = decode_line_case(ctx, p_, tick)
        if err is None:
            plain = lines[0].plain
            kind = ("kept_verbatim" if plain == p_ else
                    "escape_bytes_removed_rest_printed" if not any(c in plain for c in (ESC, "\x9b", "\x9d", "\x90", "\x9c")) else "other")
            ctx.note(f"observed:escape:{name}:{kind}:styled{int(bool(lines[0].spans))}")
    for _ in range(1500 if ctx.quick else 20000):
        parts = [rng.choice(list(probes.values()) + ["a", "bc", sgr(1), sgr(0), ESC + "]8;;u" + ESC + "\\", "\x07", ESC + "\\", ESC + "P", "\x9b", "\x9c"]) for _ in range(rng.randint(1, 4))]
        decode_line_case(ctx, "".join(parts), tick)
    # int() limits
    lim = sys.get_int_max_str_digits() if hasattr(sys, "get_int_max_str_digits") else 0
    if lim:
        for k in (lim, lim + 1):
            decode_line_case(ctx, ESC + "[" + "1" * k + "ma", tick)
            decode_line_case(ctx, ESC + "[" + "0" * k + "1ma", tick)
    for s in [ESC + "[²m", "q" + ESC + "[1;²;3mz", ESC + "[٣1mx", ESC + "[1;٣1mab" + ESC + "[0mc\rd"]:
        decode_line_case(ctx, s, tick)
    ctx.flush()


# ------------------------------------------------------------------ section 3: encoder + round trip
def style_pool(rng):
    """Styles from the full product: 13 tri-state attributes x colour kinds x colour kinds x links."""
    from rich.color import Color, ColorType
    from rich.style import Style

    def color():
        r = rng.random()
        if r < 0.25:
            return None
        if r < 0.33:
            return "default"
        if r < 0.45:
            return rng.choice(["red", "black", "bright_white", "bright_black", "white", "bright_red", "cyan"])
        if r < 0.55:
            return f"color({rng.choice([0, 1, 7, 8, 9, 15])})"
        if r < 0.68:
            return f"color({rng.choice([16, 17, 100, 231, 232, 254, 255])})"
        if r < 0.8:
            return "#%02x%02x%02x" % (rng.choice([0, 1, 255, 128]), rng.randint(0, 255), rng.choice([0, 9, 10, 99, 100, 255]))
        if r < 0.88:
            return f"rgb({rng.randint(0, 255)},{rng.choice([0, 255])},{rng.randint(0, 255)})"
        if r < 0.93:
            return Color("w", ColorType.WINDOWS, rng.choice([0, 7, 8, 15]))
        if r < 0.97:
            return Color("e", ColorType.EIGHT_BIT, rng.choice([0, 5, 15]))  # not what parse would build
        return Color.from_ansi(rng.choice([3, 12, 77]))

    def one():
        r = rng.random()
        if r < 0.04:
            return None
        if r < 0.08:
            return Style.null()
        kw = {}
        dens = rng.choice([0.0, 0.1, 0.3, 0.9])
        for a in L.ATTRS:
            if rng.random() < dens:
                kw[a] = rng.random() < 0.75
        link = rng.choice([None, None, None, "", "http://e.x/a?b=1;c", "u", "ü✓", "x y"])
        return Style(color=color(), bgcolor=color(), link=link, **kw)

    return one


def canonical(st):
    """The colours of the style are what Color.parse / from_ansi / from_rgb build (the theorem's hypothesis)."""
    from rich.color import ColorType

    for c in (st.color, st.bgcolor):
        if c is None:
            continue
        if c.type == ColorType.DEFAULT:
            ok = c.number is None and c.triplet is None
        elif c.type == ColorType.STANDARD:
            ok = c.number is not None and 0 <= c.number < 16 and c.triplet is None
        elif c.type == ColorType.EIGHT_BIT:
            ok = c.number is not None and 16 <= c.number <= 255 and c.triplet is None
        elif c.type == ColorType.TRUECOLOR:
            ok = c.number is None and c.triplet is not None and all(0 <= x <= 255 for x in c.triplet)
        else:
            ok = False
        if not ok:
            return False
    return True


SEG_TEXTS = ["a", "ab c", "日本", "x;m", "[b]q[/b]", "", " ", "1", "m", ":smile:", "Z\\", "é"]


def section_roundtrip(ctx, tick):
    from rich.ansi import AnsiDecoder
    from rich.color import ColorSystem
    from rich.console import Console
    from rich.segment import Segment
    from rich.style import Style
    from rich.text import Text

    rng = ctx.rng
    gen = style_pool(rng)
    console, out = make_console(300)
    other, _ = make_console(300)  # a second truecolor console sharing the style objects (render caches)
    render_buffer = getattr(console, "_render_buffer", None)
    legacy_console = None
    if render_buffer is not None:
        legacy_console = Console(file=io.StringIO(), force_terminal=True, color_system="truecolor", width=300, legacy_windows=True)
    shared = [gen() for _ in range(40)]  # objects reused across cases: cached `_ansi`, cached link ids
    # every attribute alone, every pair, all together, each with / without a link: the guards of _make_ansi_codes
    systematic = []
    for i, a in enumerate(L.ATTRS):
        systematic.append(Style(**{a: True}))
        systematic.append(Style(**{a: False}))
        systematic.append(Style(link="http://l", **{a: True}))
        for b in L.ATTRS[i + 1:]:
            systematic.append(Style(**{a: True, b: True}))
    systematic.append(Style(**{a: True for a in L.ATTRS}))
    for n in list(range(0, 18)) + [231, 232, 254, 255]:
        systematic.append(Style(color=f"color({n})"))
        systematic.append(Style(bgcolor=f"color({n})", bold=True))
    for trip in [(0, 0, 0), (255, 255, 255), (1, 2, 3), (10, 100, 200)]:
        systematic.append(Style(color="#%02x%02x%02x" % trip, bgcolor="rgb(%d,%d,%d)" % trip[::-1]))
    systematic += [Style(color="default"), Style(bgcolor="default"), Style(color="default", bgcolor="default", link="u")]
    sys_iter = iter(systematic)

    # Consoles of the other colour systems in the same process.  The very Style objects that are about to be encoded
    # for truecolor are first rendered through (a random subset of) these, so that whatever `Style._make_ansi_codes`
    # remembers from a previous render (the `_ansi` cache, copied by `copy` / `update_link`) is there when the truecolor
    # encode happens: the cache is exercised, not assumed transparent.
    lower = []
    for cs, legacy in (("standard", False), ("256", False), ("windows", True), ("windows", False), (None, False), ("truecolor", False)):
        lf = io.StringIO()
        lower.append((cs, Console(file=lf, force_terminal=True, color_system=cs, width=300, legacy_windows=legacy), lf))
    LOWER_SYSTEMS = [ColorSystem.STANDARD, ColorSystem.EIGHT_BIT, ColorSystem.WINDOWS, None]

    def warm(st, always=False):
        """render this very object for other colour systems first (public Style.render and a whole console.print)"""
        if st is None or isinstance(st, str) and not st:
            return
        for _ in range(rng.randint(1, 2) if (always or rng.random() < 0.7) else 0):
            try:
                if isinstance(st, Style) and rng.random() < 0.5:
                    st.render("w", color_system=rng.choice(LOWER_SYSTEMS), legacy_windows=rng.random() < 0.2)
                    ctx.note("warm:Style.render")
                else:
                    cs, lc, lf = rng.choice(lower)
                    lf.seek(0)
                    lf.truncate(0)
                    lc.print(Text("w", style=st), markup=False, highlight=False, emoji=False)
                    ctx.note(f"warm:print:{cs}")
            except BaseException as e:  # a colour that cannot be down-converted: not this property's business
                ctx.note("warm_error:" + type(e).__name__)

    STRING_STYLES = ["#12c8f3 on #503214", "bold red", "rgb(10,100,200)", "color(45) on color(94)", "italic #ff8800 link http://z",
                     "on #010203", "underline bright_blue on white", "#ffffff", "dim color(200)"]

    def pick():
        return rng.choice(shared) if rng.random() < 0.5 else gen()

    def combine(sts):
        return Style.combine(sts)

    n_cases = 5000 if ctx.quick else 60000
    for case_no in range(n_cases):
        # ---- (a) segment lists: Style.render / _render_buffer vs the encoder model, then decode
        segs = []
        nxt = next(sys_iter, None)
        if nxt is not None:
            segs = [("p", None), ("xy", nxt), ("q", None)]
        else:
            for _ in range(rng.randint(1, 5)):
                segs.append((rng.choice(SEG_TEXTS), pick()))
        tick(segs)
        for _t, st in segs:
            warm(st, always=nxt is not None)
        if nxt is not None:
            ctx.note("roundtrip_systematic_after_lower_system")
        pieces, err = [], None
        try:
            for text, st in segs:
                pieces.append(st.render(text, color_system=ColorSystem.TRUECOLOR, legacy_windows=False) if st else text)
            encoded = "".join(pieces)
            if render_buffer is not None:
                enc2 = render_buffer([Segment(t, s) for t, s in segs])
                ctx.check(enc2 == encoded, "Console._render_buffer", segs, "differs from the concatenation of Style.render of the styled segments")
                (other if case_no % 3 == 0 else console)._render_buffer([Segment(t, s) for t, s in segs[:1]])
        except BaseException as e:
            err = e
        wire = [(t, s, (getattr(s, "_link_id", "") if s is not None else "")) for t, s in segs]
        ans = "ok:" + enc_str(encoded) if err is None else "err:" + type(err).__name__
        ctx.case("ansi_encode", [0, L.enc_segs(wire)], ans, shape="err" if err else f"n{len(segs)}", sample=f"render of {segs!r}")
        # legacy_windows=True: no hyperlink is written, everything else as before
        if case_no % 3 == 0:
            lerr = None
            try:
                lenc = "".join(st.render(text, color_system=ColorSystem.TRUECOLOR, legacy_windows=True) if st else text for text, st in segs)
                if legacy_console is not None:
                    l2 = legacy_console._render_buffer([Segment(t, s) for t, s in segs])
                    ctx.check(l2 == lenc, "Console._render_buffer legacy", segs, "differs from Style.render(legacy_windows=True) of the segments")
            except BaseException as e:
                lerr = e
            ctx.case("ansi_encode", [1, L.enc_segs(wire)], "ok:" + enc_str(lenc) if lerr is None else "err:" + type(lerr).__name__,
                     shape="legacy", sample=f"legacy render of {segs!r}")
            if lerr is None:
                llines, lderr = decode_line_case(ctx, lenc, tick)
                if lderr is None:
                    want = [(ch, s if s else None) for t, s in segs for ch in t]
                    got_styles = L.text_char_styles(llines[0], combine)
                    ok = llines[0].plain == "".join(ch for ch, _ in want)
                    why = "characters differ" if not ok else ""
                    if ok:
                        for i, (ch, s) in enumerate(want):
                            a = L.style_key(got_styles[i])
                            b = L.style_key(s)[:3] + (None,)
                            if a != b:
                                ok, why = False, f"character {i} {ch!r}: decoded {a} expected {b} (link dropped)"
                                break
                    ctx.check(ok, "decode(encode(segments, legacy_windows))", segs, why)
        if err is not None:
            ctx.note("encode_error:" + type(err).__name__)
            continue
        lines, derr = decode_line_case(ctx, encoded, tick)
        # direct evaluation of decode_encode: per character, what the segments say
        if derr is None:
            dec = lines[0]
            want = []
            for t, s in segs:
                for ch in t:
                    want.append((ch, s if s else None))
            got_styles = L.text_char_styles(dec, combine)
            ok = dec.plain == "".join(ch for ch, _ in want)
            why = "characters differ" if not ok else ""
            if ok:
                for i, (ch, s) in enumerate(want):
                    strict = s is None or canonical(s)
                    a = (L.strict_key if strict else L.style_key)(got_styles[i])
                    b = (L.strict_key if strict else L.style_key)(s)
                    if a != b:
                        ok, why = False, f"character {i} {ch!r}: decoded {a} expected {b}"
                        break
            ctx.check(ok, "decode(encode(segments))", segs, why)
            ctx.note("roundtrip_segments_strict" if all(s is None or canonical(s) for _, s in segs) else "roundtrip_segments_terminal_meaning")

        # ---- (b) a styled Text printed by a truecolor console, decoded by AnsiDecoder.decode
        if case_no % 2 == 0:
            plain = "".join(rng.choice(["a", "b", " ", "日", "\n", ";", "m", "[", "é", "1"]) for _ in range(rng.randint(0, 12)))
            # styles are objects from the pool or definitions (str): the latter resolve through Style.parse's lru_cache to
            # one shared object per definition, which other consoles in this process have rendered before
            base = rng.choice(STRING_STYLES) if rng.random() < 0.2 else pick()
            text = Text(plain, style=base if base is not None else "")
            for _ in range(rng.randint(0, 4)):
                st = rng.choice(STRING_STYLES) if rng.random() < 0.3 else pick()
                if st is not None:
                    a, b = sorted((rng.randint(0, len(plain)), rng.randint(0, len(plain))))
                    text.stylize(st, a, b)
            tick(text)
            warm(base)
            for sp in text.spans:
                warm(sp.style)
            if rng.random() < 0.3:  # the whole text on another colour system first
                cs, lc, lf = rng.choice(lower)
                lf.seek(0)
                lf.truncate(0)
                try:
                    lc.print(text, markup=False, highlight=False, emoji=False, no_wrap=True, crop=False)
                    ctx.note(f"warm:text:{cs}")
                except BaseException as e:
                    ctx.note("warm_error:" + type(e).__name__)
            out.seek(0)
            out.truncate(0)
            perr = None
            try:
                console.print(text, markup=False, highlight=False, emoji=False, no_wrap=True, crop=False)
                printed = out.getvalue()
            except BaseException as e:
                perr = e
            if perr is not None:
                ctx.note("print_error:" + type(perr).__name__)
                continue
            lines, derr = decode_case(ctx, printed, tick)
            if derr is None:
                # expected: per line of the printed text, per character, base + covering spans in order
                def at(i):
                    sts = [] if base is None else [base]
                    sts += [sp.style for sp in text.spans if sp.start <= i < sp.end]
                    sts = [Style.parse(s) if isinstance(s, str) else s for s in sts if s != ""]
                    return Style.combine(sts) if sts else None

                want_lines, cur = [], []
                for i, ch in enumerate(plain):
                    if ch == "\n":
                        want_lines.append(cur)
                        cur = []
                    else:
                        cur.append((ch, at(i)))
                want_lines.append(cur)
                if plain.endswith("\n") or plain == "":
                    pass
                got = [list(zip(t.plain, L.text_char_styles(t, combine))) for t in lines]
                # console.print ends the text with one newline: the decoder sees no trailing empty line
                while want_lines and not want_lines[-1]:
                    want_lines.pop()
                while got and not got[-1]:
                    got.pop()
                ok = [[c for c, _ in l] for l in got] == [[c for c, _ in l] for l in want_lines]
                why = "characters / lines differ" if not ok else ""
                if ok:
                    for gl, wl in zip(got, want_lines):
                        for (ch, gs), (_, ws) in zip(gl, wl):
                            strict = ws is None or canonical(ws)
                            a = (L.strict_key if strict else L.style_key)(gs)
                            b = (L.strict_key if strict else L.style_key)(ws)
                            if a != b:
                                ok, why = False, f"{ch!r}: decoded {a} expected {b}"
                                break
                        if not ok:
                            break
                ctx.check(ok, "decode(print(Text))", (plain, base, text.spans), why)
    ctx.flush()


# ------------------------------------------------------------------ section 4: FileProxy
def make_rec_console(width=200):
    from rich.console import Console

    class RecConsole(Console):
        """Records what the proxy asks of the console (the observation boundary of the model)."""

        def print(self, *objects, **kw):
            self.rec.append((objects, dict(kw)))
            try:
                return super().print(*objects, **kw)
            except BaseException:
                self.print_raised = True
                raise

    c, f = make_console(width, RecConsole)
    c.rec = []
    c.print_raised = False
    return c, f


def enc_call(objects, kw):
    from rich.text import Text

    if len(objects) == 1 and isinstance(objects[0], Text) and set(kw) == {"markup", "emoji", "highlight"} and all(kw[k] is False for k in kw):
        return "T" + L.enc_text(objects[0])
    if len(objects) == 1 and isinstance(objects[0], str) and not kw:
        return "S=" + enc_str(objects[0])
    return "U:" + enc_str(repr((objects, kw))[:200])


def run_history(ops, width=200):
    """Drive a real FileProxy on a real console.  Returns (ops with the flush flags filled in, per-op event
    strings, per-op raw calls, exceptions, file contents)."""
    from rich.file_proxy import FileProxy

    console, f = make_rec_console(width)
    proxy = FileProxy(console, f)
    ops2, events, raw, excs = [], [], [], []
    for op in ops:
        console.rec = []
        console.print_raised = False
        exc = None
        try:
            if op[0] == "w":
                proxy.write(op[1])
            else:
                proxy.flush()
        except BaseException as e:
            exc = e
        evs = [enc_call(*c) for c in console.rec]
        if exc is not None and not console.print_raised:
            evs.append("R:" + type(exc).__name__)
        if op[0] == "w":
            ops2.append(op)
        else:
            ops2.append(("f", bool(exc is not None and console.print_raised)))
        events.append(",".join(evs))
        raw.append(list(console.rec))
        excs.append(exc)
    return ops2, events, raw, excs, f.getvalue()


SAFE_SGR = [1, 2, 3, 4, 5, 6, 7, 8, 9, 21, 51, 52, 53, 22, 23, 27, 28, 29, 54, 55, 39, 49, 0, 31, 37, 90, 97, 44, 100, 107]


def rand_line(rng, tricky):
    parts = []
    for _ in range(rng.randint(0, 5)):
        r = rng.random()
        if r < 0.35:
            parts.append(rng.choice(["a", "bc", "hello world", " ", "日本", "x=1", "done."]))
        elif r < 0.55:
            k = rng.random()
            if k < 0.6:
                parts.append(sgr(*rng.sample(SAFE_SGR, rng.randint(1, 3))))
            elif k < 0.8:
                parts.append(sgr(rng.choice([38, 48]), 5, rng.choice([1, 9, 16, 200, 255])))
            else:
                parts.append(sgr(rng.choice([38, 48]), 2, rng.randint(0, 255), rng.choice([0, 255]), rng.randint(0, 255)))
        elif r < 0.62:
            parts.append(ESC + "]8;id=3;http://e.x/p" + ESC + "\\" + "lnk" + ESC + "]8;;" + ESC + "\\")
        elif r < 0.68:
            # foreign ANSI: omitted parameters, the off codes for the double variants, a reset inside a hyperlink
            parts.append(rng.choice([ESC + "[m", sgr(1) + "b" + ESC + "[;3m" + "i", sgr(21) + "uu" + sgr(24) + "n", sgr(6) + "r" + sgr(25) + "s",
                                     ESC + "]8;;http://f" + ESC + "\\" + sgr(1) + "A" + sgr(0) + "B" + ESC + "]8;;" + ESC + "\\", sgr(4, 21, 24) + "n"]))
        elif r < 0.72:
            # the BEL-terminated form of OSC strings (what `ls --hyperlink`, gcc, shells setting the window title write)
            parts.append(rng.choice([ESC + "]8;;http://b.el/x\x07" + "bel link" + ESC + "]8;;\x07", ESC + "]0;window title\x07" + "titled",
                                     ESC + "]8;id=7;http://b.el\x07" + sgr(1) + "B" + sgr(22) + ESC + "]8;;" + ESC + "\\"]))
        elif r < 0.76:
            # what other programs write around their text: cursor / erase sequences (dropped by the proxy: a line-oriented
            # console cannot honour them) followed by text that has an "m" further on
            parts.append(rng.choice(CSI_OTHER) + rng.choice(["loading items", "moved m", "x", "1 item", "", "home"]))
        elif r < 0.9 or not tricky:
            parts.append(rng.choice(["[bold]b[/bold]", "[/foo]", "[red]", ":smile:", "12", "3.5", '"s"', "True", "None", "http://u.v", "[", "]", "\\[", "<a b=1>", "(1, 2)", "0x1f"]))
        else:
            parts.append(rng.choice(["\r", "\t", "\x08", ESC, ESC + "[", ESC + "[1", ESC + "[²m", ESC + "]8;;x", "\x0b", ESC + "[2K", "\x85"]))
    # CR LF terminated output: the line ends in a carriage return
    return "".join(parts) + ("\r" if rng.random() < 0.2 else "")


CSI_OTHER = [ESC + "[?25l", ESC + "[?25h", ESC + "[2K", ESC + "[K", ESC + "[1A", ESC + "[H", ESC + "[10;20H", ESC + "[2J", ESC + "[s", ESC + "[u",
             ESC + "[>4;2m", ESC + "[1 q", ESC + "M", ESC + "[?1049h"]


def escape_spans(s):
    """index ranges [a, b) of s that lie strictly inside an escape sequence (a flush there cuts a sequence)."""
    import term

    spans, i = [], 0
    for t in term.tokenize(s):
        if t[0] == "T":
            i += len(t[1])
        elif t[0] in ("LF", "CR", "BEL", "BS", "TAB", "C0"):
            i += 1
        else:
            raw = None
            if t[0] == "SGR":
                raw = s[i:].split("m", 1)[0] + "m"
            elif t[0] == "OSC8":
                import re as _re

                raw = _re.match(r"\x1b\][^\x07\x1b]*(?:\x07|\x1b\\)", s[i:]).group(0)
            elif t[0] in ("CSI", "ESC"):
                raw = t[1]
            else:  # CUU / EL2 / SHOW / HIDE: re-scan up to the final byte
                j = i + 2
                while j < len(s) and not ("@" <= s[j] <= "~"):
                    j += 1
                raw = s[i : j + 1]
            spans.append((i + 1, i + len(raw)))
            i += len(raw)
    return spans


def cut_stream(rng, s, safe_flush):
    """Cut a character stream into writes at arbitrary positions, with empty writes and flushes in between."""
    n = len(s)
    cuts = sorted(rng.randint(0, n) for _ in range(rng.randint(0, 6)))
    inside = escape_spans(s) if safe_flush else []
    ops, prev = [], 0
    for c in cuts + [n]:
        ops.append(("w", s[prev:c]))
        prev = c
        r = rng.random()
        if r < 0.15:
            ops.append(("w", ""))
        if r > 0.6 and not any(a <= c < b for a, b in inside):
            ops.append(("f", False))
    return ops


def eval_history(ctx, ops, check_rows, site="FileProxy"):
    """Correspondence + direct evaluation for one history on one proxy."""
    ops2, events, raw, excs, output = run_history(ops)
    ctx.case("proxy_run", [FLAGS, L.enc_ops(ops2)], "/".join(events), shape=f"ops{min(len(ops), 9)}", sample=f"FileProxy history {ops!r}")
    shown = [("write", o[1]) if o[0] == "w" else ("flush",) for o in ops]
    # P3: no exception leaves write / flush
    raw_flush = any(len(c[0]) == 1 and isinstance(c[0][0], str) for calls, op in zip(raw, ops) if op[0] == "f" for c in calls)
    for op, exc in zip(ops, excs):
        if exc is not None:
            finding = None
            if isinstance(exc, ValueError) and bad_int_param("".join(o[1] for o in ops if o[0] == "w")):
                finding = "decode-int-valueerror"
            elif op[0] == "f" and raw_flush and type(exc).__name__ == "MarkupError":
                finding = "flush-prints-raw"
            ctx.check(False, site + (".write" if op[0] == "w" else ".flush"), shown, f"raised {type(exc).__name__}: {exc}; output so far {output!r}", finding=finding)
            break
    else:
        ctx.check(True, site + ".write", shown, "")
    # P2: every print the proxy issues is a decoded Text with markup, emoji and highlighting off
    bad = [e for evs in events for e in evs.split(",") if e and not e.startswith("T") and not e.startswith("R:")]
    ctx.check(not bad, site + " print calls", shown, "the proxy printed something other than a decoded Text with markup/emoji/highlight off: "
              + (L_dec(bad[0]) if bad else ""), finding="flush-prints-raw" if bad and all(b.startswith("S=") for b in bad) and raw_flush else None)
    # P1: every unit exactly once, in order, complete, with its styling
    if check_rows and all(e is None for e in excs):
        units, _pending = L.spec_units(ops)
        want_rows, unk1 = L.stream_meaning("".join(u + "\n" for u in units))
        got_rows, unk2 = L.stream_meaning(output)
        ok = got_rows == want_rows
        why = ""
        if not ok:
            gt = ["".join(c[0] for c in r) for r in got_rows]
            wt = ["".join(c[0] for c in r) for r in want_rows]
            why = f"printed rows {gt!r}, written units {wt!r}" if gt != wt else "the characters are there but their attributes / colours / links differ"
        finding = None
        if not ok:
            finding = "flush-prints-raw" if raw_flush else classify_meaning_diff("".join(u + "\n" for u in units), got_rows, want_rows)
        ctx.check(ok, site + " output", shown, why, finding=finding)
        ctx.note("proxy_rows_checked")
    return output


def L_dec(ev):
    from core import dec_str

    try:
        return "console.print(" + repr(dec_str(ev[2:])) + ")" if ev.startswith("S=") else ev[:80]
    except Exception:  # noqa: BLE001
        return ev[:80]


def section_proxy(ctx, tick):
    rng = ctx.rng
    # ---- exhaustive cuts of fixed streams: every pair of cut positions, with / without flushes at the cuts
    fixed = [
        "a" + sgr(1) + "b\n\n[b]c" + sgr(0) + " :x: 1\nd",
        sgr(31) + "r\n" + "g" + sgr(39, 4) + "\n\nu",
        "x [/foo] y\n" + ESC + "]8;id=1;http://e.x" + ESC + "\\k" + ESC + "]8;;" + ESC + "\\\nz 12",
    ]
    for s in fixed if not ctx.quick else fixed[:2]:
        n = len(s)
        inside = escape_spans(s)
        for i in range(n + 1):
            for j in range(i, n + 1):
                for fl in (0, 1, 2, 3):
                    if fl in (1, 3) and any(a <= i < b for a, b in inside):
                        continue
                    if fl in (2, 3) and any(a <= j < b for a, b in inside):
                        continue
                    if ctx.quick and fl and (i * 7 + j * 3 + fl) % 4:
                        continue
                    ops = [("w", s[:i])]
                    if fl in (1, 3):
                        ops.append(("f", False))
                    ops.append(("w", s[i:j]))
                    if fl in (2, 3):
                        ops.append(("f", False))
                    ops += [("w", s[j:]), ("f", False), ("w", "end\n")]
                    tick(ops)
                    eval_history(ctx, ops, check_rows=True)
    # ---- the two pre-finding shapes and a few named histories
    named = [
        [("w", "a [bold]b[/bold] :smile: 1"), ("f", False)],
        [("w", "x [/foo] y"), ("f", False), ("w", "z\n")],
        [("w", "q\n" + ESC + "[²m\nrest\n"), ("w", "zz\n")],
        [("w", ""), ("f", False), ("w", "\n"), ("w", "\n\n"), ("f", False)],
        [("w", "ab"), ("w", "cd"), ("f", False), ("f", False), ("w", "ef\n")],
        [("w", sgr(1) + "bold"), ("f", False), ("w", "still bold\n" + sgr(0) + "plain\n")],
    ]
    for ops in named:
        tick(ops)
        eval_history(ctx, ops, check_rows="²" not in repr(ops))
    # ---- random histories over the property alphabet (rows checked) and over the malformed one (model only)
    for k in range(5000 if ctx.quick else 60000):
        tricky = k % 4 == 3
        lines = [rand_line(rng, tricky) for _ in range(rng.randint(1, 5))]
        s = "\n".join(lines) + rng.choice(["\n", "\n", ""])
        if rng.random() < 0.2:
            s = s.replace("\n", "\n\n", 1)
        ops = cut_stream(rng, s, safe_flush=not tricky)
        if rng.random() < 0.7:
            ops += [("f", False), ("w", "tail\n")]
        tick(ops)
        ctx.note("proxy_tricky" if tricky else "proxy_property_alphabet")
        eval_history(ctx, ops, check_rows=not tricky)
    # ---- carriage returns inside a line (decode_cr_keeps_last_segment): the text after the last CR that is followed by text is
    # kept; a terminal writes it OVER the earlier text, so the two agree exactly when it covers the earlier text
    import term as _term

    for _ in range(400 if ctx.quick else 6000):
        nseg = rng.randint(2, 4)
        segs = ["".join(rng.choice("abcxyz0189%. ") for _ in range(rng.randint(1, 9))).strip() or "x" for _ in range(nseg)]
        if rng.random() < 0.6:  # progress-style updates: every later text at least as long
            segs.sort(key=len)
        line = "\r".join(segs) + "\r" * rng.choice([0, 0, 1, 2])
        ops = [("w", line[: len(line) // 2]), ("w", line[len(line) // 2:] + "\n")]
        tick(ops)
        ops2, events, raw, excs, output = run_history(ops)
        ctx.case("proxy_run", [FLAGS, L.enc_ops(ops2)], "/".join(events), shape="interior-cr", sample=f"FileProxy history {ops!r}")
        if any(e is not None for e in excs):
            ctx.check(False, "FileProxy carriage return", ops, f"raised {excs!r}")
            continue
        got = [r.rstrip() for r in _term.replay(output).text_rows()][0]
        ctx.check(got == segs[-1], "FileProxy carriage return keeps last segment", line,
                  f"printed {got!r}, the text after the last carriage return followed by text is {segs[-1]!r}" if got != segs[-1] else "")
        shown = [r.rstrip() for r in _term.replay(line + "\n").text_rows()][0]
        if len(segs[-1]) >= max(len(x) for x in segs):
            ctx.check(got == shown, "FileProxy carriage return (later text covers earlier)", line,
                      f"printed {got!r}, a terminal shows {shown!r}" if got != shown else "")
        else:
            ctx.note("observed:cr_later_text_shorter:" + ("same_as_terminal" if got == shown else "tail_of_earlier_text_dropped"))
    # ---- stdout and stderr proxies on one console (what a live display installs)
    from rich.file_proxy import FileProxy

    for _ in range(300 if ctx.quick else 3000):
        console, f = make_rec_console()
        proxies = [FileProxy(console, f), FileProxy(console, f)]
        hist, per = [], ([], [])
        for _ in range(rng.randint(2, 8)):
            w = rng.randint(0, 1)
            op = ("w", rng.choice(["a", "b\n", sgr(1) + "c", "\n", "d" + sgr(0) + "\ne", "", sgr(31) + "r", "x" + sgr(39) + "\n"])) if rng.random() < 0.8 else ("f", False)
            hist.append((w, op))
        hist += [(0, ("f", False)), (1, ("f", False))]
        tick(hist)
        evs, all_evs = ([], []), []
        failed = False
        order = []
        for w, op in hist:
            console.rec = []
            console.print_raised = False
            before = len(L.spec_units(per[w])[0])
            try:
                proxies[w].write(op[1]) if op[0] == "w" else proxies[w].flush()
            except BaseException as e:
                failed = True
                ctx.check(False, "FileProxy x2", hist, f"raised {type(e).__name__}: {e}")
                break
            per[w].append(op)
            order += [(w, i) for i in range(before, len(L.spec_units(per[w])[0]))]
            ev = ",".join(enc_call(*c) for c in console.rec)
            evs[w].append(ev)
            all_evs.append(ev)
        if not failed:
            wire = ",".join(("o" if w == 0 else "e") + L.enc_ops([op]) for w, op in hist)
            ctx.case("proxy_run2", [FLAGS, wire], "/".join(all_evs), shape="two-proxies", sample=f"two proxies {hist!r}")
            # the units of both streams, in print order, each with the meaning its own stream's escape codes give it
            rows_w = []
            for w in (0, 1):
                units = L.spec_units(per[w])[0]
                rows_w.append(L.stream_meaning("".join(u + "\n" for u in units))[0][: len(units)])
            want_rows = [rows_w[w][i] for w, i in order] + [[]]
            got_rows, _ = L.stream_meaning(f.getvalue())
            ok = got_rows == want_rows
            raw_flush = any("S=" in e for e in all_evs)
            ctx.check(ok, "FileProxy x2 output", hist,
                      f"rows {[''.join(c[0] for c in r) for r in got_rows]!r}, expected {[''.join(c[0] for c in r) for r in want_rows]!r}" if not ok else "",
                      finding="flush-prints-raw" if (raw_flush and not ok) else None)
    ctx.flush()


# ------------------------------------------------------------------ section 4b: stripped control characters between styled runs
CTL_ALPHA = [("t", "a"), ("t", "bc"), ("c", "\x08"), ("c", "\x0b"), ("c", "\x0c"), ("c", "\x07"), ("cr",), ("s", (1,)), ("s", (0, 31)), ("l", "http://u")]


def rand_ctl_line(rng):
    parts = []
    for _ in range(rng.randint(1, 8)):
        r = rng.random()
        if r < 0.35:
            parts.append(("t", rng.choice(["a", "bc", "hello", "x=1", "日本", "m", " "])))
        elif r < 0.6:
            parts.append(("c", rng.choice(L.STRIP_CTRL + ("\x07",))))
        elif r < 0.66:
            parts.append(("cr",))
        elif r < 0.9:
            k = rng.random()
            parts.append(("s", tuple(rng.sample(SAFE_SGR, rng.randint(1, 3))) if k < 0.7 else
                          (rng.choice([38, 48]), 5, rng.choice([1, 9, 16, 200])) if k < 0.85 else
                          (rng.choice([38, 48]), 2, rng.randint(0, 255), 0, rng.randint(0, 255))))
        else:
            parts.append(("l", rng.choice(["http://e.x", None])))
    return parts


def section_controls(ctx, tick):
    """BS / VT / FF (stripped), BEL (kept) and CR inside redirected lines, between ANSI-styled runs: `Text.append` strips them from the
    plain text, so every span appended AFTER one must be placed by the stripped length.  Direct evaluation, per character,
    against `lib_ansi.ctl_line_meaning` (computed from the structure the line was generated from): (a) `decode_line`,
    (b) the whole path FileProxy.write (chunked anyhow) -> decode_line -> Text.append / Text.join -> console.print, read
    back from the console's output."""
    from rich.style import Style

    rng = ctx.rng

    def line_check(parts):
        stream = L.ctl_stream(parts)
        want, _st, _lk = L.ctl_line_meaning(parts)
        lines, err = decode_line_case(ctx, stream, tick)
        if err is not None:
            return
        t = lines[0]
        got = [(ch,) + L.style_key(st) for ch, st in zip(t.plain, L.text_char_styles(t, Style.combine))]
        ok = got == want and len(t) == len(t.plain) and all(0 <= sp.start <= sp.end <= len(t.plain) for sp in t.spans)
        why = ""
        if not ok:
            why = (f"decoded {got!r}, the line means {want!r}" if got != want else
                   f"len(text) = {len(t)} but its plain text has {len(t.plain)} characters; spans {t.spans!r}")
        ctx.check(ok, "AnsiDecoder.decode_line control characters", stream, why)
        ctx.note("ctl_line:" + ("with_ctl" if any(p[0] in ("c", "cr") for p in parts) else "no_ctl"))

    for n in range(0, 5 if ctx.quick else 6):
        for parts in itertools.product(CTL_ALPHA, repeat=n):
            line_check(parts)
    for _ in range(3000 if ctx.quick else 40000):
        line_check(rand_ctl_line(rng))
    ctx.flush()
    # ---- through the proxy: lines cut into writes anywhere (inside escape sequences too), several lines per write
    fixed = [[[("t", "ab"), ("c", "\x08"), ("s", (1, 31)), ("t", "cd"), ("s", (0,)), ("t", "ef")]],
             [[("c", "\x0b"), ("t", "x")], [("s", (4,)), ("t", "u"), ("c", "\x0c"), ("s", (24,)), ("t", "n")], [("t", "z")]]]
    for k in range(len(fixed) + (600 if ctx.quick else 8000)):
        lines = fixed[k] if k < len(fixed) else [rand_ctl_line(rng) for _ in range(rng.randint(1, 4))]
        s = "".join(L.ctl_stream(p) + "\n" for p in lines)
        if k < len(fixed):
            histories = [[("w", s[:i]), ("w", s[i:])] for i in range(len(s) + 1)]
        else:
            cuts = sorted(rng.randint(0, len(s)) for _ in range(rng.randint(0, 4)))
            histories = [[("w", s[a:b]) for a, b in zip([0] + cuts, cuts + [len(s)])]]
        want_rows, st, lk = [], None, None
        for p in lines:
            cells, st, lk = L.ctl_line_meaning(p, st, lk)
            want_rows.append([c for c in cells if c[0] != "\x07"])  # the terminal reading of the output gives a BEL no cell
        want_rows.append([])
        for ops in histories:
            tick(ops)
            output = eval_history(ctx, ops, check_rows=False, site="FileProxy (control characters)")
            got_rows, _ = L.stream_meaning(output)
            ok = got_rows == want_rows
            why = ""
            if not ok:
                gt = ["".join(c[0] for c in r) for r in got_rows]
                wt = ["".join(c[0] for c in r) for r in want_rows]
                why = (f"printed rows {gt!r}, the lines written show {wt!r}" if gt != wt else
                       f"the characters are there but their attributes / colours / links differ: printed {got_rows!r}, written {want_rows!r}")
            ctx.check(ok, "FileProxy output (control characters)", [("write", o[1]) for o in ops], why)
            ctx.note("proxy_ctl_rows_checked")
    ctx.flush()


# ------------------------------------------------------------------ section 4c: every SGR parameter the encoder can emit is decoded
ATTR_NUMBERS = [1, 2, 3, 4, 5, 6, 7, 8, 9, 21, 51, 52, 53]  # ECMA-48 8.3.117, in the bit order of rich's attributes (L.ATTRS)


def section_params(ctx, tick):
    """Props/C19.lean `encoder_sgr_params_decoded`, `encoder_attribute_numbers`, `truecolor_params_decoded`, `sgr_reset_exact`
    evaluated on real rich, and the two composed model functions (`ansi_attr_params`, `ansi_color_params`) compared with it:
    Style(one thing set).render on truecolor -> the parameter text between `ESC [` and `m` -> a fresh AnsiDecoder -> its style."""
    import re

    from rich.ansi import AnsiDecoder
    from rich.color import Color, ColorSystem
    from rich.style import Style

    rng = ctx.rng

    def params_of(st):
        r = st.render("x", color_system=ColorSystem.TRUECOLOR, legacy_windows=False)
        if r == "x":
            return ""
        m = re.fullmatch(r"\x1b\[([^m]*)mx\x1b\[0m", r)
        return m.group(1) if m else None

    def through(make, fn, args, what):
        """(param text, decoder's final style) for a fresh style; the model request is compared on the way"""
        tick(what)
        p, final, ans = None, None, None
        try:
            p = params_of(make())
        except BaseException as e:
            ans = "err:" + type(e).__name__
        if ans is None and p is None:
            ans = "err:shape"
        if ans is None:
            d = AnsiDecoder()
            try:
                d.decode_line(ESC + "[" + p + "m")
                final = d.style
                ans = "ok:" + enc_str(p) + "!" + L.enc_final(final)
            except BaseException:
                ans = "ok:" + enc_str(p) + "!raised"
        ctx.case(fn, [FLAGS] + args, ans, shape=fn, sample=what)
        return p, final

    # 13 attributes, set on and set off — twice, on fresh objects and through Style.parse (cached definitions)
    for i, a in enumerate(L.ATTRS):
        for on in (True, False):
            for how in ("init", "parse"):
                make = (lambda a=a, on=on: Style(**{a: on})) if how == "init" else (lambda a=a, on=on: Style.parse(a if on else "not " + a))
                what = f"Style({a}={on}) [{how}] encoded for truecolor, parameters decoded by a fresh AnsiDecoder"
                p, final = through(make, "ansi_attr_params", [i, int(on)], what)
                want_p = str(ATTR_NUMBERS[i]) if on else ""
                want = (frozenset([a]) if on else frozenset(), None, None, None)
                ok = p == want_p and final is not None and L.strict_key(final) == want
                ctx.check(ok, "encoder parameter decoded (attribute)", what,
                          f"parameters {p!r} (ECMA-48: {want_p!r}), decoded {L.strict_key(final) if final is not None else 'raised'} expected {want}" if not ok else "")
    # the 256 palette numbers, foreground and background: the form the encoder writes, and the explicit 38;5;n / 48;5;n form
    for n in range(256):
        for fg in (True, False):
            c = Color.from_ansi(n)
            what = f"Style({'color' if fg else 'bgcolor'}=Color.from_ansi({n})) encoded for truecolor, parameters decoded"
            p, final = through((lambda c=c, fg=fg: Style(color=c) if fg else Style(bgcolor=c)), "ansi_color_params", [L.enc_color(c), int(fg)], what)
            side = (lambda st: st.color) if fg else (lambda st: st.bgcolor)
            other = (lambda st: st.bgcolor) if fg else (lambda st: st.color)
            lo = (30 if fg else 40) + n if n < 8 else (82 if fg else 92) + n
            want_p = str(lo) if n < 16 else f"{38 if fg else 48};5;{n}"
            ok = (p == want_p and final is not None and side(final) == c and other(final) is None and not L.strict_key(final)[0] and final.link is None)
            ctx.check(ok, "encoder parameter decoded (palette)", what, f"parameters {p!r} (expected {want_p!r}), decoder's style {final!r}" if not ok else "")
            d = AnsiDecoder()
            explicit = f"{38 if fg else 48};5;{n}"
            try:
                d.decode_line(ESC + "[" + explicit + "m")
                st2 = d.style
            except BaseException:
                st2 = None
            ok = st2 is not None and side(st2) == c and other(st2) is None and not L.strict_key(st2)[0]
            ctx.check(ok, "explicit palette form decoded", ESC + "[" + explicit + "m", f"decoder's style {st2!r}, expected {'color' if fg else 'bgcolor'} {c!r} only" if not ok else "")
    for fg in (True, False):
        c = Color.default()
        what = f"Style({'color' if fg else 'bgcolor'}='default') encoded for truecolor, parameters decoded"
        p, final = through((lambda fg=fg: Style(color="default") if fg else Style(bgcolor="default")), "ansi_color_params", [L.enc_color(c), int(fg)], what)
        got = final is not None and ((final.color if fg else final.bgcolor), (final.bgcolor if fg else final.color))
        ok = p == ("39" if fg else "49") and got == (c, None)
        ctx.check(ok, "encoder parameter decoded (default)", what, f"parameters {p!r}, decoder's style {final!r}" if not ok else "")
    # truecolor: every value of one channel with the other two varied, both sides
    for v in range(256):
        for fg in (True, False):
            trip = [(v, rng.randint(0, 255), rng.choice([0, 255, 7])), (rng.randint(0, 255), v, 0), (rng.choice([0, 9, 10, 99, 100, 255]), rng.randint(0, 255), v)][v % 3]
            c = Color.from_rgb(*trip)
            what = f"Style({'color' if fg else 'bgcolor'}=Color.from_rgb{trip}) encoded for truecolor, parameters decoded"
            p, final = through((lambda c=c, fg=fg: Style(color=c) if fg else Style(bgcolor=c)), "ansi_color_params", [L.enc_color(c), int(fg)], what)
            want_p = f"{38 if fg else 48};2;{trip[0]};{trip[1]};{trip[2]}"
            got = final is not None and ((final.color if fg else final.bgcolor), (final.bgcolor if fg else final.color))
            ok = p == want_p and got == (c, None) and not L.strict_key(final)[0]
            ctx.check(ok, "encoder parameter decoded (truecolor)", what, f"parameters {p!r} (expected {want_p!r}), decoder's style {final!r}" if not ok else "")
    # SGR 0 / omitted parameter resets exactly, from a fully set state, with and without a hyperlink
    full = sgr(1, 2, 3, 4, 5, 6, 7, 8, 9, 21, 51, 52, 53, 38, 5, 200, 48, 2, 1, 2, 3)
    for reset in (ESC + "[0m", ESC + "[m", ESC + "[;m", ESC + "[1;0m"):
        for link in (None, "http://u"):
            stream = full + (ESC + "]8;id=1;" + link + ESC + "\\" if link else "") + "a" + reset + "b"
            d = AnsiDecoder()
            try:
                t = d.decode_line(stream)
                got = [L.strict_key(x) for x in L.text_char_styles(t, Style.combine)]
                ok = (t.plain == "ab" and len(got[0][0]) == 13 and got[0][3] == link and got[1] == (frozenset(), None, None, link)
                      and L.strict_key(d.style) == (frozenset(), None, None, link) and (link is not None or not d.style))
                why = f"decoded {got!r}, decoder's style {d.style!r}"
            except BaseException as e:
                ok, why = False, f"raised {type(e).__name__}: {e}"
            decode_line_case(ctx, stream, tick)
            ctx.check(ok, "SGR 0 resets exactly", stream, why if not ok else "")
    ctx.flush()


# ------------------------------------------------------------------ section 4d: the rest of FileProxy's file-object surface
def section_api(ctx, tick):
    """write(non-str) -> TypeError and nothing else; writelines = one write per element; flush with nothing pending prints
    nothing; attributes the proxy does not define come from the wrapped file (`__getattr__`).  Histories compared per call
    with the model (`proxy_api`), and evaluated directly: what is printed is what `lib_ansi.spec_units` says of the str
    writes that were accepted (a twin specification, no model involved)."""
    from rich.file_proxy import FileProxy

    rng = ctx.rng
    BAD = [b"bytes", None, 7, ["a"], 1.5]
    pieces = ["a", "b\n", sgr(1) + "c", "\n", "d" + sgr(0) + "\ne", "", "x y", "[b]m[/b]\n"]

    class Wrapped(io.StringIO):
        def fileno(self):
            return 42

        def isatty(self):
            return True

        name = "<wrapped>"

    def enc_api(ops):
        out = []
        for o in ops:
            if o[0] == "w":
                out.append("W=" + enc_str(o[1]) if isinstance(o[1], str) else "X")
            elif o[0] == "f":
                out.append("F0")
            else:
                out.append("L=" + "+".join("S" + enc_str(x) if isinstance(x, str) else "X" for x in o[1]))
        return ",".join(out)

    n_hist = 400 if ctx.quick else 5000
    for k in range(n_hist):
        ops = []
        for _ in range(rng.randint(1, 7)):
            r = rng.random()
            if r < 0.45:
                ops.append(("w", rng.choice(pieces)))
            elif r < 0.6:
                ops.append(("w", rng.choice(BAD)))
            elif r < 0.75:
                ops.append(("f",))
            else:
                ops.append(("l", [rng.choice(pieces) if rng.random() < 0.85 else rng.choice(BAD) for _ in range(rng.randint(0, 4))]))
        ops.append(("f",))
        tick(ops)
        console, f = make_rec_console()
        wrapped = Wrapped()
        proxy = FileProxy(console, wrapped)
        events, accepted, ok_type, why = [], [], True, ""
        for o in ops:
            console.rec = []
            before = f.getvalue()
            exc = None
            try:
                if o[0] == "w":
                    proxy.write(o[1])
                elif o[0] == "f":
                    proxy.flush()
                else:
                    proxy.writelines(o[1])
            except BaseException as e:
                exc = e
            evs = [enc_call(*c) for c in console.rec]
            if exc is not None:
                evs.append("R:" + type(exc).__name__)
            events.append(",".join(evs))
            # the specification: which str writes were accepted, in order
            if o[0] == "w":
                bad_here = not isinstance(o[1], str)
                if not bad_here:
                    accepted.append(("w", o[1]))
            elif o[0] == "f":
                bad_here = False
                accepted.append(("f", False))
            else:
                bad_here = False
                for x in o[1]:
                    if not isinstance(x, str):
                        bad_here = True
                        break
                    accepted.append(("w", x))
            if bad_here != isinstance(exc, TypeError) or (exc is not None and not isinstance(exc, TypeError)):
                ok_type, why = False, f"{o!r}: raised {type(exc).__name__ if exc else 'nothing'}, expected {'TypeError' if bad_here else 'no exception'}"
            if o[0] == "w" and bad_here and (console.rec or f.getvalue() != before):
                ok_type, why = False, f"{o!r}: a rejected write printed something"
        ctx.case("proxy_api", [FLAGS, enc_api(ops)], "/".join(events), shape="api", sample=f"FileProxy API history {ops!r}")
        ctx.check(ok_type, "FileProxy.write type check", repr(ops), why)
        units, pending = L.spec_units(accepted)
        want_rows, _ = L.stream_meaning("".join(u + "\n" for u in units))
        got_rows, _ = L.stream_meaning(f.getvalue())
        ok = got_rows == want_rows and pending == ""
        ctx.check(ok, "FileProxy API output", repr(ops),
                  f"printed rows {[''.join(c[0] for c in r) for r in got_rows]!r}, the accepted writes say {[''.join(c[0] for c in r) for r in want_rows]!r}" if not ok else "")
        # passthrough and the wrapped file itself.  `__getattr__` is only consulted for names io.TextIOBase does not define:
        # `name` (and `mode`, `buffer` …) come from the wrapped file; `fileno()` / `isatty()` are io.IOBase's own
        # (UnsupportedOperation / False) whatever the wrapped file answers — observed and counted, outside the statement.
        try:
            ok = proxy.rich_proxied_file is wrapped and proxy.name == "<wrapped>" and wrapped.getvalue() == ""
            why = "" if ok else "rich_proxied_file / name do not come from the wrapped file, or the wrapped file was written to"
        except BaseException as e:
            ok, why = False, f"raised {type(e).__name__}: {e}"
        if k < 50:
            for meth in ("fileno", "isatty"):
                try:
                    r = getattr(proxy, meth)()
                    ctx.note(f"observed:proxy_{meth}:" + ("wrapped_file's" if r == getattr(wrapped, meth)() else f"own:{r!r}"))
                except BaseException as e:
                    ctx.note(f"observed:proxy_{meth}:raises_{type(e).__name__}")
        if k < 50:
            ctx.check(ok, "FileProxy attribute passthrough", repr(ops), why)
    # flush with nothing pending, on a fresh proxy and after complete lines
    for pre in ([], ["a\n"], ["a\n", "\n"], [""]):
        console, f = make_rec_console()
        proxy = FileProxy(console, io.StringIO())
        for w in pre:
            proxy.write(w)
        console.rec = []
        before = f.getvalue()
        try:
            proxy.flush()
            proxy.flush()
            ok = not console.rec and f.getvalue() == before
            why = "" if ok else f"flush() with nothing pending printed {f.getvalue()[len(before):]!r}"
        except BaseException as e:
            ok, why = False, f"raised {type(e).__name__}: {e}"
        ctx.check(ok, "FileProxy.flush with nothing pending", repr(pre), why)
    ctx.flush()


# ------------------------------------------------------------------ section 5: a real live display redirects
def safe_line(rng):
    """One line over the property alphabet whose escape sequences mean the same to rich's decoder as written and as repaired."""
    parts = []
    for _ in range(rng.randint(0, 4)):
        r = rng.random()
        if r < 0.4:
            parts.append(rng.choice(["a", "bc", "hello world", "x=1", "done.", "[b]m[/b]", ":smile:", "12"]))
        elif r < 0.75:
            parts.append(sgr(*rng.sample([1, 2, 3, 4, 7, 9, 21, 53, 22, 23, 27, 29, 55, 39, 49, 31, 37, 90, 44, 107], rng.randint(1, 3))))
        elif r < 0.85:
            parts.append(sgr(rng.choice([38, 48]), 2, rng.randint(0, 255), rng.choice([0, 255]), rng.randint(0, 255)))
        elif r < 0.93:
            parts.append(sgr(0))
        else:
            parts.append(ESC + "]8;id=3;http://e.x/p" + ESC + "\\" + "lnk" + ESC + "]8;;" + ESC + "\\")
        if rng.random() < 0.12:
            parts.append(rng.choice(CSI_OTHER[:10]) + rng.choice(["loading items", "m", "x"]))
        if rng.random() < 0.08:
            parts.append(ESC + "]8;;http://b.el\x07" + "bel" + ESC + "]8;;\x07")
    return "".join(parts)


BLANK_MEANING = (" ", frozenset(), None, None, None)


def trim_row(row):
    row = list(row)
    while row and row[-1] == BLANK_MEANING:
        row.pop()
    return row


def section_live(ctx, tick):
    """The proxies as a live display installs them: stdout and stderr both redirected to ONE console whose output goes
    through the display's render hook.  Observed on the terminal (harness/term.py replay of the console's file) after
    every write: the units written so far — per stream exactly once, in order, complete, never glued across streams —
    stand above the frame, each character with the meaning the written escape codes give it (each stream carries its
    own SGR / hyperlink state); the frame stands once, last.  A partial line still pending at stop() is outside the
    statement (see below): where it lands is counted with ctx.note, never checked."""
    import gc

    import term
    from rich.live import Live
    from rich.progress import Progress

    rng = ctx.rng
    FRAME = ["FRAME one", "frame two"]
    frame_cells = [[(ch, frozenset(), None, None, None) for ch in fr] for fr in FRAME]
    for k in range(90 if ctx.quick else 900):
        console, f = make_console(400)  # wide: units never wrap (wrapping is C02)
        kind = ("live", "progress", "live-transient")[k % 3]
        so, se = sys.stdout, sys.stderr
        hist = []  # (stream, op); stream 0 = stdout, 1 = stderr
        for _ in range(rng.randint(1, 7)):
            w = rng.randint(0, 1)
            if rng.random() < 0.85:
                l = safe_line(rng)
                cut = rng.randint(0, len(l))
                hist.append((w, ("w", l[:cut])))
                if rng.random() < 0.3 and not any(a <= cut < b for a, b in escape_spans(l)):
                    hist.append((w, ("f", False)))
                # (CR LF line ends now and then; a CR that is not at the end of a line is outside the statement)
                hist.append((w, ("w", l[cut:] + rng.choice(["\n", "\n", "\r\n", "\n\n", ""]))))
            else:
                hist.append((w, ("f", False)))
        r = rng.random()
        if r < 0.4:  # nothing pending at stop
            hist += [(0, ("f", False)), (1, ("f", False))]
        elif r < 0.8:  # a partial line pending at stop
            hist.append((rng.randint(0, 1), ("w", rng.choice(["part", sgr(1) + "bold part", "a [b]x"]))))
        hold = rng.random() < 0.5
        tick(hist)
        shown = [("stdout" if w == 0 else "stderr",) + (("write", op[1]) if op[0] == "w" else ("flush",)) for w, op in hist]
        err, installed, restored, held = None, None, None, None
        done = ([], [])
        order = []  # (stream, index of the unit in that stream) in print order
        ok_running, why_running = True, ""

        def unit_rows(w):
            units = L.spec_units(done[w])[0]
            return [trim_row(r) for r in L.stream_meaning("".join(u + "\n" for u in units))[0][: len(units)]]

        try:
            if kind == "progress":
                disp = Progress(console=console, auto_refresh=False)
                disp.add_task("t", total=10)
            else:
                disp = Live("\n".join(FRAME), console=console, auto_refresh=False, transient=kind == "live-transient")
            try:
                with disp:
                    installed = (hasattr(sys.stdout, "rich_proxied_file"), hasattr(sys.stderr, "rich_proxied_file"))
                    streams = (sys.stdout, sys.stderr)
                    if hold:
                        held = streams
                    for n_done, (w, op) in enumerate(hist):
                        before = len(L.spec_units(done[w])[0])
                        if op[0] == "w":
                            streams[w].write(op[1])
                        else:
                            streams[w].flush()
                        done[w].append(op)
                        order += [(w, i) for i in range(before, len(L.spec_units(done[w])[0]))]
                        if ok_running and kind != "progress" and order:
                            per = (unit_rows(0), unit_rows(1))
                            exp = [per[w2][i] for w2, i in order] + frame_cells
                            rows = [trim_row([L.cell_meaning(c) for c in r]) for r in term.replay(f.getvalue(), height=50).cell_rows()]
                            while rows and not rows[-1]:
                                rows.pop()
                            if rows != exp:
                                ok_running = False
                                why_running = (f"after {shown[: n_done + 1]!r}: screen rows {[''.join(c[0] for c in r) for r in rows]!r}, expected "
                                               f"{[''.join(c[0] for c in r) for r in exp]!r}"
                                               + ("" if [[c[0] for c in r] for r in rows] != [[c[0] for c in r] for r in exp] else " with other attributes / colours / links"))
                    streams = None
            finally:
                restored = sys.stdout is so and sys.stderr is se
                sys.stdout, sys.stderr = so, se
        except BaseException as e:
            err = e
        ctx.check(err is None, "Live redirect", shown, f"raised {type(err).__name__}: {err}" if err else "")
        if err is not None:
            continue
        ctx.check(installed == (True, True), "Live redirect", shown, "stdout / stderr were not replaced by a FileProxy while the display was live")
        ctx.check(restored, "Live redirect", shown, "stdout / stderr were not restored when the display stopped")
        ctx.check(ok_running, "Live redirect screen", shown, why_running)
        # ---- after stop
        at_stop = f.getvalue()
        held = None
        gc.collect()
        final = f.getvalue()

        def text_rows(data):
            rows = ["".join(c[0] for c in r).rstrip() for r in term.replay(data, height=80).cell_rows()]
            while rows and rows[-1] == "":
                rows.pop()
            return rows

        per = (unit_rows(0), unit_rows(1))
        body = ["".join(c[0] for c in per[w][i]).rstrip() for w, i in order]
        pend = [L.spec_units(done[w])[1] for w in (0, 1)]
        pend_rows = ["".join(c[0] for c in L.stream_meaning(p)[0][0]).rstrip() for p in pend if p]
        rows_stop, rows_final = text_rows(at_stop), text_rows(final)
        if kind == "progress":
            is_frame = lambda r: r.startswith("t ") and "%" in r  # noqa: E731
            n_frame = 1
        else:
            is_frame = None
            n_frame = 0 if kind == "live-transient" else 2

        def matches(rows, lines):
            """rows == lines + the frame (once, last)"""
            while lines and lines[-1] == "" and n_frame == 0:
                lines = lines[:-1]
            if kind == "progress":
                return rows[:-1] == lines and len(rows) >= 1 and is_frame(rows[-1]) and not any(is_frame(r) for r in rows[:-1])
            if kind == "live":
                return rows == lines + FRAME
            return rows == lines

        if not pend_rows:
            ok = matches(rows_stop, list(body)) and final == at_stop
            ctx.check(ok, "Live redirect lines", shown,
                      f"after stop the screen shows {rows_stop!r}; units in print order {body!r}" if not ok else "")
        else:
            # A partial line (no newline yet, not flushed) is pending when the display stops.  The statement of C19 speaks of
            # lines written and of what a flush emits; this text is neither, and it is not lost (IOBase.close -> flush prints it
            # when the proxy object is collected).  WHERE it then lands is therefore outside the statement: observed and counted,
            # never a failure.  What IS inside the statement is still demanded: every complete unit is on the screen, once, in order.
            # (trailing blank rows are trimmed from the replayed screen: pad before comparing)
            ok = (rows_stop + [""] * len(body))[: len(body)] == body
            ctx.check(ok, "Live redirect lines", shown,
                      f"after stop the screen shows {rows_stop!r}; complete units in print order {body!r}" if not ok else "")
            if matches(rows_stop, body + pend_rows) and final == at_stop:
                ctx.note("observed:pending_at_stop:on_screen_above_the_final_frame")
            elif final != at_stop:
                ctx.note("observed:pending_at_stop:printed_when_the_proxy_was_collected")
            elif all(p in rows_stop[len(body):] for p in pend_rows):
                ctx.note("observed:pending_at_stop:printed_during_stop_after_the_final_frame")
            else:
                ctx.note("observed:pending_at_stop:other")
            ctx.note("live_stop_with_pending")


# ------------------------------------------------------------------ section 6: the display model (C10) and the proxy model (C19) on one history
def section_joint(ctx, tick):
    """Both Lean drivers on the same history: `start; writes to stdout / stderr (chunked anyhow); stop` — the lines C10's display
    model prints (`live_spec`: printed lines above the last frame, pending text completed by the repaired stop) must be the lines
    C19's proxy model hands to the console (`proxy_run2`, then the pending text of stdout, then of stderr).  The theorem
    `live_write_is_proxy_write` proves this for all histories; this request keeps the two DRIVERS (and their wire formats) tied."""
    import subprocess

    import core
    from core import dec_str

    try:
        import lib_live as LL
        import props.c10 as C10
    except Exception as e:  # noqa: BLE001
        ctx.note("joint_unavailable:" + type(e).__name__)
        return
    drv10 = core.driver_path("C10")
    if not os.path.exists(drv10) or not ctx.driver_ok:
        ctx.note("joint_unavailable:driver")
        return
    rng = ctx.rng
    reqs10, reqs19, hists = [], [], []
    for _ in range(150 if ctx.quick else 2000):
        cfg = LL.Cfg("live", False, 60, 40, init=["F"])
        hist = []
        for _ in range(rng.randint(1, 7)):
            chunk = "".join(rng.choice(["a", "bc", " ", "x=1", "\n", "\n", "done"]) for _ in range(rng.randint(0, 5)))
            hist.append((rng.random() < 0.4, chunk))
        tick(hist)
        ops10 = [("S",)] + [("W", err, c.split("\n")[:-1], c.split("\n")[-1]) for err, c in hist] + [("X",)]
        reqs10.append("live_spec\t" + "\t".join([C10.enc_cfg(cfg, bare=0), cfg.enc_init(), C10.enc_ops(cfg, ops10)]))
        wire = ",".join(("e" if err else "o") + L.enc_ops([("w", c)]) for err, c in hist) + ",oF0,eF0"
        reqs19.append("proxy_run2\t" + FLAGS + "\t" + wire)
        hists.append(hist)
    p = subprocess.run([drv10], input="\n".join(reqs10) + "\n", stdout=subprocess.PIPE, stderr=subprocess.PIPE, text=True, timeout=600)
    if p.returncode != 0:
        raise RuntimeError("drv_c10 crashed: " + p.stderr[-500:])
    a10 = p.stdout.split("\n")[: len(reqs10)]
    a19 = ctx.model(reqs19)
    for hist, r10, r19, x10, x19 in zip(hists, reqs10, reqs19, a10, a19):
        ctx.evaluations += 1
        ctx.compared += 1
        try:
            wf, printed, _frame = x10.split(";")[:3]
            n, body = printed.split(":", 1)
            lines10 = [] if n == "0" else [dec_str(t) for t in body.split(",")]
            lines19 = []
            for per_op in x19.split("/"):
                for ev in per_op.split(","):
                    if ev.startswith("T"):
                        lines19 += dec_str(ev[1:].split("^", 1)[0]).split("\n")
                    elif ev:
                        lines19.append("?" + ev)
            ok = lines10 == lines19
        except Exception as e:  # noqa: BLE001
            ok, lines10, lines19 = False, x10, f"{type(e).__name__}: {x19}"
        if ok:
            ctx.agreed += 1
        else:
            ctx.dist["MISMATCH:c10_live_spec_vs_c19_proxy_run2"] += 1
            if len(ctx.mismatches) < 50:
                ctx.mismatches.append({"request": r10 + "  ||  " + r19, "model": repr(lines19), "impl": repr(lines10),
                                       "readable": f"C10 display model vs C19 proxy model on {hist!r}"})
        ctx.note("fn:joint_c10_c19")


# ------------------------------------------------------------------ entry points
def run(ctx):
    check_runtime_facts(ctx)
    ctx.assumptions += [
        "console.print is the observation boundary of the proxy model: the model says WHAT the proxy asks the console to print "
        "(a decoded Text with markup/emoji/highlight off, or a raw str); what the console then writes is evaluated directly on "
        "the real output (wide console, so C02's wrapping does not interfere)",
        "Style._ansi (what _make_ansi_codes remembers from earlier renders, copied by copy / update_link) is not in the encoder model; "
        "it is EXERCISED, not assumed transparent: the very Style objects (pool objects and Style.parse-cached definitions) are rendered "
        "through standard / 256 / windows / no-colour consoles and Style.render(color_system=lower) in the same process right before the "
        "truecolor encode, so a stale cache shows as a model mismatch and a round-trip failure; "
        "link ids are parameters; str.isdigit / int() / sys.get_int_max_str_digits are tables generated from the running Python",
        "round trip hypothesis (noEsc): no ESC and no stripped control code (BS VT FF CR) in the text, no ESC / LF / CR / BEL in links "
        "and link ids, no `;` in link ids; "
        "colours as Color.parse / from_ansi / from_rgb build them (a WINDOWS or out-of-range colour is compared by terminal meaning)",
    ]
    guarded(ctx, "_ansi_tokenize", lambda tick: section_tokenizer(ctx, tick))
    guarded(ctx, "AnsiDecoder.decode_line", lambda tick: section_decoder(ctx, tick))
    guarded(ctx, "decode(encode)", lambda tick: section_roundtrip(ctx, tick))
    guarded(ctx, "FileProxy", lambda tick: section_proxy(ctx, tick))
    guarded(ctx, "control characters", lambda tick: section_controls(ctx, tick))
    guarded(ctx, "encoder parameters", lambda tick: section_params(ctx, tick))
    guarded(ctx, "FileProxy API", lambda tick: section_api(ctx, tick))
    guarded(ctx, "Live redirect", lambda tick: section_live(ctx, tick))
    guarded(ctx, "C10 model vs C19 model", lambda tick: section_joint(ctx, tick))
    ctx.flush()
    ctx.rule = (
        "tokenizer: every string <= %d over %r + seeded random to length 14; decoder: every SGR code 0..300 from the null and from a "
        "fully set state, every 38/48 sub-form, every sequence <= 3 over %d tokens, seeded structured streams (valid + truncated + "
        "malformed parameters, OSC 8 ended by ST or BEL, other CSI, all line separators), probes of escape sequences that are neither SGR, OSC "
        "nor CSI (compared with the model, counted as observed, not checked); encoder/round trip: seeded segment lists and printed Texts with "
        "styles from the product 13 tri-state attributes x 10 colour kinds x 10 colour kinds x 6 links on shared style objects and two "
        "consoles; proxy: every pair of cut positions (x flushes at the cuts) of fixed streams + seeded random streams cut at random "
        "positions with empty writes and flushes, one and two proxies per console (interleaved, per-op events), foreign ANSI streams (omitted "
        "parameters, resets inside hyperlinks, every off code) against an ECMA-48 interpreter, legacy_windows renders, real Live / Progress / transient "
        "Live with both streams, terminal replay after every write and at stop (pending partial lines), lines with carriage returns inside "
        "(last segment kept, compared with a terminal replay), C10's display model and the proxy model on the same histories; "
        "distinct = distinct canonical requests"
        % (4 if ctx.quick else 5, TOK_ALPHA, len(DEC_ALPHA))
    )


def replay(ctx, case):
    site = case.get("site", "")
    inp = case.get("input")
    print("site:", site)
    print("input:", inp)
    print("what:", case.get("what"))
    ok = None
    try:
        if site.startswith("AnsiDecoder.decode_line") and isinstance(inp, str):
            from rich.ansi import AnsiDecoder

            AnsiDecoder().decode_line(inp)
            ok = True
        elif site.startswith("FileProxy") and not site.startswith("FileProxy x2") and isinstance(inp, list) and all(isinstance(o, (list, tuple)) for o in inp):
            ops = [("w", o[1]) if o[0] == "write" else ("f", False) for o in inp]
            eval_history(ctx, ops, check_rows=True)
            ok = not ctx.failures
    except BaseException as e:
        print("raised:", type(e).__name__, e)
        ok = False
    if ok is None:
        print("re-run `./check C19` to re-evaluate (the generators are seeded: VERIF_SEED=%s)" % case.get("seed"))
        return False
    return ok


MANIFEST = {
    "text": "Lean 4 theorems (Props/C19.lean; no bound on line length, number of segments, styles, or history length). "
    "Round trip: decode_encode — for every line of segments whose text has no ESC / stripped control code, whose links and link ids have no ESC / line "
    "break / BEL and whose colours are in the form the constructors build, and for every blank decoder state, `_render_buffer` (truecolor, "
    "Style.render + _make_ansi_codes) followed by AnsiDecoder.decode_line yields per character the same character, the same attributes "
    "that are on (13), the same colours (type, number, triplet) and the same link, and leaves the decoder blank; decode_encode_lines lifts it to "
    "texts decoded line after line by one decoder; decode_plain_complete (escape-free lines come out unchanged); the table half "
    "(sgr_table_inverts_style_map, sgr_numbers_read_back) is re-proved by `decide +kernel` on SGR_STYLE_MAP / Style._style_map translated from "
    "the working tree and on str.isdigit / int() tables of the running Python on every run.  Proxy: proxy_lines — for every history of write / flush "
    "calls the texts handed to the console are exactly the decoded units of the flattened character stream (cut at every newline and at every "
    "flush with something pending), each once, in order, one decoder state carried along, nothing raised, the unterminated rest stays buffered; "
    "proxy_chunking_irrelevant (where writes are cut plays no role), proxy_writes_complete_lines, proxy_flush_empties, proxy_verbatim (every print is "
    "a decoded Text with markup / emoji / highlight off), decode_total (the repaired decoder never raises).  Witnesses old_decode_raises, "
    "old_flush_prints_raw, old_write_loses_line show by evaluation that rich 9.10.0 as found (F10, F20; before fixes 8dc20cb, c4ae818) violated them; "
    "/repo contains the repaired variant.  "
    "Two streams: proxy_two_streams — for every interleaved history on the stdout and stderr proxies a live display installs on ONE console, what is "
    "printed on behalf of each stream is exactly the decoded units of that stream's own flattened calls (no gluing / styling across streams).  "
    "Foreign ANSI: decode_sgr_means_ecma — the repaired decoder's loop over SGR parameters IS the ECMA-48 / ISO 8613-6 interpreter ecmaFold (written "
    "from the standard) on attributes, colours and hyperlink, for every parameter list without 26 and every start style; "
    "sgr_table_agrees_with_ecma48 (decide +kernel on the translated table each run); sgr_omitted_parameters_are_zero; witnesses old_empty_param_ignored "
    "(F27), old_reset_drops_link (F28), old_off_keeps_double (F29).  Foreign output: crlf_lines_complete (CR LF terminated lines come out complete) "
    "and other_csi_dropped (a CSI sequence that is not SGR — cursor show / hide, erase, movement, private — is dropped and the text around it comes out "
    "complete; every_csi_is_sgr_or_dropped: any parameter / intermediate bytes, ANY final byte); osc_bel_terminated; decode_cr_keeps_last_segment; witnesses "
    "old_trailing_cr_erases_line (F31), old_csi_swallows_text (F32), old_osc_bel_not_recognised (F33).  With the display (C10's Model/Live.lean, imported "
    "read-only): live_write_is_proxy_write (C10's Op.write IS this model's FileProxy.write: same function, same inputs) and "
    "live_screen_with_proxied_streams (C10's live_screen composed: start; any prints / refreshes / updates / resizes / writes to both streams; repaired stop — "
    "the screen shows the printed lines then the last frame, the printed lines being op by op what the proxy hands over, per stream exactly the complete lines "
    "of its own character stream, pending text completed above the last frame); both drivers are run on the same histories (section_joint).  legacy_windows: decode_encode_legacy (round trip with the link dropped).  "
    "Fourth deepening round: encoder_sgr_params_decoded (function level, `decide +kernel` on the translated tables, code as it is and as found: each of the 13 "
    "attributes set False writes nothing, set True writes one parameter — encoder_attribute_numbers: 1-9, 21, 51, 52, 53 — that a fresh decoder reads back as "
    "exactly that attribute; every palette number 0..255, foreground and background, in the form the encoder writes AND in the explicit 38;5;n / 48;5;n form, "
    "and `default`, read back as exactly that colour on that side), truecolor_params_decoded (38;2;r;g;b / 48;2;r;g;b for ALL r g b <= 255, every variant: what "
    "the encoder writes, how the decoder splits it, the style reached), sgr_reset_exact (`ESC[0m` and `ESC[m` from ANY style: no attribute, no colour, the "
    "hyperlink kept, `Style.null()` without one); proxy_api_is_write_flush (histories of write(str) / flush / writelines([str…]) do exactly what the flattened "
    "write / flush history does, so the proxy theorems cover writelines) and proxy_api_noops (write(non-str): TypeError, nothing changed, nothing printed; "
    "write(\"\") and flush() with nothing pending do nothing).  New direct evaluations: per-character style of decode_line and of the whole path "
    "FileProxy.write (chunked anywhere) -> decode_line -> Text.append / Text.join -> console.print on lines with BS / VT / FF (stripped), BEL (kept) and CR between "
    "styled runs, against lib_ansi.ctl_line_meaning (computed from the structure the line was generated from; every sequence <= 4 over 10 tokens + 3,000 random "
    "lines, 600 multi-line proxy histories + every cut position of two fixed ones) — this is what reports seeded change C19-g1 (Text.append placing spans by the "
    "unstripped length) with a failing input; the statements of the four new parameter theorems on real rich (26 attribute cases x {init, parse}, 512 palette + 512 "
    "explicit-form + 2 default + 512 truecolor cases, 8 reset streams) with the composed model functions compared (ansi_attr_params, ansi_color_params); 400 API "
    "histories with non-str writes and writelines compared per call (proxy_api) and evaluated against spec_units of the accepted writes.  "
    "Tie: ~180k (quick) / ~1.5M (thorough) generated cases compared model-vs-rich for _ansi_tokenize, re_csi removal, decode_line / decode "
    "(final decoder style included), Style.render / _render_buffer, and FileProxy histories (what the proxy asks console.print to print, per call), "
    "plus direct evaluation on rich's own output with oracles independent of the model: harness/term.py tokenizer + an ECMA-48 reading of SGR "
    "for the per-character meaning of streams, and a 15-line specification of the units a history must print; real Live / Progress redirect stdout "
    "and stderr.",
    "note": "The proxy model stops at console.print (what is asked of the console); what the console then writes is only evaluated directly on the "
    "real output, on a wide console (wrapping is C02's, tab expansion and CR handling are outside the statement).  Assumed / parameters: "
    "the Style._ansi cache is not part of the encoder model but is exercised, not assumed transparent (every round-trip case first renders the same Style "
    "objects / parse-cached definitions through standard, 256, windows and no-colour consoles in the same process, then encodes for truecolor); link ids; str.isdigit / int / get_int_max_str_digits / "
    "str.splitlines of the running Python (generated or validated per run); lru_cache on Style.parse transparent; console.print of a Text with "
    "markup off does not raise.  Round-trip hypotheses: no ESC, BS, VT, FF, CR in text; no ESC / LF / CR / BEL in links and link ids (BEL ends an OSC string since fix 37dd303); no `;` in link ids; colours "
    "canonical (a WINDOWS-type colour reads back as STANDARD: compared by terminal meaning in the harness, outside the theorem); AnsiDecoder.decode "
    "additionally splits at VT FF FS GS RS NEL LS PS (str.splitlines), so a printed text containing those decodes into more lines than were printed "
    "(observed, outside the statement's texts).  Variant flags (1 = rich 9.10.0 as found, 0 = repaired; all eight fixes are in /repo): INT_RAISES = 0 (F10, fix 8dc20cb), "
    "FLUSH_RAW = 0 (F20, fix c4ae818), EMPTY_IGNORED = 0 (F27, fix eb349e5), RESET_DROPS_LINK = 0 (F28, fix c143415), OFF_SINGLE = 0 (F29, fix b9c1000), CR_ERASES = 0 "
    "(F31, fix 70d7986), SGR_LAZY = 0 (F32, fix a4759bf), OSC_ST_ONLY = 0 (F33, fix 37dd303).  No `known:` finding is open for C19: the check prints no KNOWN-FINDING line; the "
    "slugs in the classifiers (decode-int-valueerror, flush-prints-raw, sgr-empty-param-ignored, sgr-reset-drops-link, sgr-off-keeps-double, decode-trailing-cr-erases-line, "
    "csi-swallows-text, osc-bel-terminator) name the eight repaired findings.  The deviations of the decoder from ECMA-48 on foreign streams in rich 9.10.0 as found were findings "
    "with flags and witnesses, all repaired: omitted parameter "
    "ignored (F27), SGR 0 dropped the hyperlink (F28), 24 / 25 kept the double variants (F29), a line ending in CR decoded to nothing (F31), any `ESC [` "
    "was read as SGR up to the next m so other CSI sequences swallowed the text after them (F32); an OSC string ended by BEL — the common form of OSC 8 / OSC 0 — was not recognised: link lost, "
    "`8;;url` printed (F33).  Outside the statement, not findings: a CR that is not at the end of a line keeps what follows the last one that is followed by text "
    "(decode_cr_keeps_last_segment; evaluated on real rich: equal to what a terminal shows whenever the later text covers the earlier, counted otherwise); "
    "control strings DCS / SOS / PM / APC lose introducer and terminator and their payload is printed as text, 8-bit C1 controls and two-character escapes "
    "outside ESC @.._ are kept verbatim, ISO 8613-6 colon sub-parameters are ignored (all four: classified outside the statement in the header of "
    "Props/C19.lean, compared with the model and counted as observed:escape:* on every run; a re_csi that consumes whole control strings would be the repair); rows 24 / 25 of the model's table come from the flag, not from "
    "the translated table (tied by the per-code correspondence); 26 (ECMA-48: proportional spacing; rich: not blink2) and unknown colour-space selectors "
    "after 38 / 48 are outside the theorem.  OUTSIDE THE STATEMENT, observed only (ctx.note, no check, no slug): where a partial line pending at stop() lands — it is "
    "neither a line written nor something a flush was asked to emit.  Since fix 4c3921f (found through C10) Live.stop / Progress.stop flush the proxies before "
    "the last refresh, so it lands above the final frame (counter observed:pending_at_stop:on_screen_above_the_final_frame: all cases); before, it appeared "
    "after the final frame or when the proxy object was collected.  A change of the proxies' behaviour is still seen: the two-stream "
    "histories are compared with the model per operation (proxy_run2) and the screen under a running Live is replayed after every write; "
    "FileProxy.write returns 0 instead of the number of characters (io contract; not in the property, noted only).  What the console writes for a proxied "
    "Text under a running Live is evaluated directly by replaying the console's file on harness/term.py after every write (cell by cell with attributes / "
    "colours / links, frame last).  On the Lean side C10's Model/Live.lean is composed with the proxy for line texts only (live_write_is_proxy_write, "
    "live_screen_with_proxied_streams: which lines stand above the last frame, per stream; escape-free lines unchanged); the cells the console writes for a "
    "decoded, styled Text are not in that composition.  "
    "Fourth round, still partial: the joint theorems with C10 remain about line TEXTS — C10's `Live.Line` is `List Char` and `Screen` cells carry no style, so "
    "'with its ANSI styling preserved, above the live frame' is proved up to console.print (proxy_lines: the decoded Text per unit) and from there only evaluated "
    "(terminal replay cell by cell with attributes / colours / links after every write under a real Live); composing it in Lean needs a styled cell type in "
    "Model/Live.lean + Model/Term.lean and C03's encoder model (`Model/AnsiRender`) under `Live.doPrint`, i.e. changes to definitions other properties import.  "
    "`__getattr__` passthrough has no model (stateless): `name` / `rich_proxied_file` are evaluated; `fileno()` / `isatty()` are NOT passed through (io.TextIOBase "
    "defines them: UnsupportedOperation / False whatever the wrapped file answers) — observed and counted (observed:proxy_fileno / proxy_isatty), outside the "
    "statement.  BEL outside an OSC string is an ordinary character of the decoded text (strip_control_codes removes BS VT FF CR only).  "
    "Trusted: Lean kernel; axioms propext / Classical.choice / Quot.sound; translators harness/tables.py + harness/gen/sgr_map.py; the correspondence harness.",
    "design_ref": "DESIGN.md section 7, C19",
}
