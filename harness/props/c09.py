"""C09 — measurements are sound bounds on what rendering produces.

Correspondence: `Measurement.get(console, tree, w)` of real rich vs `measure` of the Lean composition model
(Model/Layout.lean) for random renderable trees (the generator of C01, plus renderables without `__rich_measure__` and objects
cast through `__rich__`) at every available width 0..60 (and some up to 200), including widths below the content's needs; the
renderings at the reported maximum / minimum are compared as well; `Text.__rich_measure__` and "is a text wrapped at its
maximum" against the model's `textRichMeasure` / `textLines`.
Direct evaluation on rich's own answers: 0 <= minimum <= maximum <= available; rendering at the reported maximum (minimum)
produces no line wider than that value when it is at or above the structural minimum; for tab-free text minimum = widest word,
maximum = widest line, and at its maximum the text is not wrapped.
"""
import multiprocessing
import os
import re

import lib_layout as L
import lib_syntax_measure  # C17's builder: the clause for rich.syntax.Syntax, evaluated directly on rich
from core import enc_str
# CODE VARIANT FLAGS
# MEASURE_SPLITLINES (finding `text-measure-splitlines`, found by this check's builder): 1 = rich 9.10.0 as found — Text.__rich_measure__
# takes its maximum over text.splitlines() (FS / GS / RS / NEL / LS / PS also break a line there, not in Text.wrap), 0 = since fix 542a59e
# (text.split("\n")).  Sent in front of every `layout_text_spec` request (model: `textRichMeasureV`).  Overridable for replaying the
# as-found code: VERIF_C09_MEASURE_SPLITLINES=1 with VERIF_REPO=<a checkout of 52ad8fd>.
MEASURE_SPLITLINES = int(os.environ.get("VERIF_C09_MEASURE_SPLITLINES", "0"))
# the other flags: none of its own — shared with C01 (see harness/props/c01.py, which follows props/c08.py, c02.py, c07.py); current
# value "0,00000000,0000000" = frames variant, text / wrap flags, table flags, all repaired (1 = rich 9.10.0 as found)
from props.c01 import FLAGS, corner_specs

PROPERTY = "C09"


def classify(dom):
    return "progressbar-no-newline" if dom == "f23" else None


def _measure_job(args):
    """worker: (spec, console_width, widths) -> cases / checks / notes"""
    spec, cwidth, widths = args[:3]
    shared = len(args) > 3 and args[3]
    console = L.make_console(cwidth)
    obj = L.guarded(lambda: L.build(spec)) if shared and not L.has_styled_rule(spec) else None
    if isinstance(obj, str):
        obj = None
    cases, checks, notes = [], [], {}

    def note(k):
        notes[k] = notes.get(k, 0) + 1

    tree = L.enc(spec, console)
    sm = L.smin(spec)
    note("kind:" + spec[0])
    seen_render = set()
    rendered_vals = set()
    for w in widths:
        m = L.real_measure(console, spec, w, obj=obj)
        if isinstance(m, str):
            cases.append(("layout_measure", [FLAGS, L.env_enc(cwidth), w, tree], m, "error", None))
            checks.append((False, "Measurement.get", (spec, cwidth, w), f"measuring raised {m[4:]}", None))
            continue
        mn, mx = m
        cases.append(("layout_measure", [FLAGS, L.env_enc(cwidth), w, tree], f"m:{mn},{mx}", "below" if w < sm else "w-smin<=12" if w <= sm + 12 else "wide",
                      f"Measurement.get(Console({cwidth}), {spec!r}, {w})"))
        ok = 0 <= mn <= mx <= max(w, 0)
        if spec[0] == "GRP" and spec[1] and w >= 1:
            # a fitted group reports the largest minimum and the largest maximum among its members (measured independently here)
            ms = [L.real_measure(console, c, w) for c in spec[2]]
            if all(not isinstance(x, str) for x in ms):
                exp = (max([x[0] for x in ms], default=0), max([x[1] for x in ms], default=0))
                okg = (mn, mx) == exp
                checks.append((okg, "RenderGroup.__rich_measure__", (spec, cwidth, w) if not okg else None,
                               f"group measured ({mn}, {mx}) but its members measure {ms}: expected {exp}", None))
        checks.append((ok, "Measurement.get", (spec, cwidth, w) if not ok else None, f"measurement ({mn}, {mx}) is not 0 <= minimum <= maximum <= {w}", None))
        for which, val in (("maximum", mx), ("minimum", mn)):
            if val < 1 or (val, which) in seen_render:
                continue
            seen_render.add((val, which))
            out = L.real_text(console, spec, {}, val, obj=obj)
            impl = out if out.startswith("err:") else "ok:" + enc_str(out)
            if val not in rendered_vals:
                rendered_vals.add(val)
                cases.append(("layout_render", [FLAGS, L.env_enc(cwidth), L.enc_opts({}), val, tree], impl, "at-" + which, None))
            if val >= sm:
                # the same `Dom` as C01 (Props/C09.lean's render_at_max_fits / render_at_min_fits quantify over it), at the width rendered at
                dom = L.domain(spec, {}, console, val)
                note("render-at-%s:%s" % (which, dom.split(":")[0]))
                if dom == "out" or dom.startswith("floor:"):
                    continue
                # 'open' = outside Dom only through a condition Props/C01.lean marks NOT DISCHARGED: evaluated under its own site name
                site = "render at measured " + which + (" (outside Dom: condition not discharged, no counterexample known)" if dom.startswith("open") else "")
                if out.startswith("err:"):
                    checks.append((False, site, (spec, cwidth, w, val), f"rendering raised {out[4:]}", None))
                    continue
                lw = L.line_widths(out)
                ok = all(x <= val for x in lw)
                slug = "progressbar-no-newline" if dom in ("f23", "open:f23") else None
                checks.append((ok, site, (spec, cwidth, w, val) if not ok else None,
                               f"measured {which} {val} (available {w}, structural minimum {sm}) but a line is {max(lw)} cells wide", slug if not ok else None))
            else:
                note("render-at-%s:below-smin" % which)
    return {"cases": cases, "checks": checks, "notes": notes}


RE_WORD = re.compile(r"\S+")
# the `str.splitlines` separators that survive Text.__init__ (VT / FF / CR are stripped) besides the line feed
SEPS = ["\x1c", "\x1d", "\x1e", "\x85", "\u2028", "\u2029"]


def sep_slug(plain):
    return "text-measure-splitlines" if any(c in plain for c in SEPS) else None


def corner_texts():
    """every separator between words, alone, leading, trailing, next to a line feed, next to double-width characters"""
    out = []
    for sp in SEPS:
        for pat in ("aaa%sbbb cc", "%s", "a%s", "%sb c", "あ%sい う", "a\n b%sc", "x y%s%sz", "long words here%sand there\nshort"):
            out.append({"plain": pat.replace("%s", sp)})
    return out


def _text_job(args):
    """worker: a text spec -> Text.__rich_measure__ vs the independent oracle; wrapping at the maximum"""
    d, = args
    console = L.make_console(80)
    cases, checks, notes = [], [], {}
    t = L.build_text(d)
    plain = t.plain
    m = t.__rich_measure__(console, 80)
    mn, mx = m.minimum, m.maximum
    notes["text:tab" if "\t" in plain else "text:notab"] = 1
    if "\t" not in plain:
        words = RE_WORD.findall(plain)
        lines = plain.split("\n")
        if plain.strip():
            exp = (max(L.cells(x) for x in words), max(L.cells(x) for x in lines))
        else:
            exp = (L.cells(plain), L.cells(plain))
        ok = (mn, mx) == exp
        checks.append((ok, "Text.__rich_measure__", d if not ok else None, f"measured ({mn}, {mx}); widest word / widest line are {exp}",
                       sep_slug(plain) if not ok else None))
    if any(c in plain for c in SEPS):
        notes["text:other-separator"] = 1
    wrapped = "0"
    if mx >= 1:
        dd = dict(d)
        dd.pop("overflow", None)
        t2 = L.build_text(dd)

        def go():
            return list(t2.wrap(console, mx, justify=t2.justify, overflow=t2.overflow, tab_size=8, no_wrap=t2.no_wrap))

        ls = L.guarded(go)
        if isinstance(ls, str):
            wrapped = "E"
        else:
            npar = plain.count("\n") + 1
            wrapped = "0" if len(ls) == npar else "1"
            if "\t" not in plain:
                ok = len(ls) == npar
                if ok and (t2.justify in (None, "default", "left")):
                    ok = all(a.plain.rstrip() == b.rstrip() for a, b in zip(ls, plain.split("\n")))
                checks.append((ok, "Text.wrap at measured maximum", (d, mx) if not ok else None,
                               f"text given its measured maximum {mx} was wrapped into {[x.plain for x in ls]!r}: {len(ls)} lines for "
                               f"{npar} newline-separated line(s)", sep_slug(plain) if not ok else None))
        dd2 = dict(dd)
        cases.append(("layout_text_spec", [str(MEASURE_SPLITLINES), FLAGS, L.enc_text(dd2), mx], f"{mn},{mx},{wrapped}", None, f"Text({plain!r}).__rich_measure__ / wrap at {mx}"))
    return {"cases": cases, "checks": checks, "notes": notes}


def measure_job(args):
    try:
        return _measure_job(args)
    except BaseException as ex:  # noqa: BLE001 - building / encoding the tree on real rich raised: an observation, not a harness error
        if isinstance(ex, (KeyboardInterrupt, SystemExit)):
            raise
        return {"cases": [], "checks": [(False, "building or encoding the renderable", args[0], f"raised {type(ex).__name__}: {ex}", None)], "notes": {}}


def text_job(args):
    try:
        return _text_job(args)
    except BaseException as ex:  # noqa: BLE001 - building / encoding the tree on real rich raised: an observation, not a harness error
        if isinstance(ex, (KeyboardInterrupt, SystemExit)):
            raise
        return {"cases": [], "checks": [(False, "building or encoding the renderable", args[0], f"raised {type(ex).__name__}: {ex}", None)], "notes": {}}


def account(ctx, results):
    for r in results:
        for fn, args, impl, shape, sample in r["cases"]:
            ctx.case(fn, args, impl, shape=shape, sample=sample)
        for ok, site, inp, what, finding in r["checks"]:
            ctx.check(ok, site, inp, what, finding=finding)
        for k, n in r["notes"].items():
            ctx.note(k, n)


def run(ctx):
    rng = ctx.rng
    quick = ctx.quick
    jobs = []
    for spec in corner_specs():
        jobs.append((spec, 80, list(range(0, 41)) + [60, 100]))
    n = 1600 if quick else 16000
    for _ in range(n):
        d = rng.choice([1, 2, 2, 3, 3, 4])
        spec = L.gen_tree(rng, d)
        if rng.random() < 0.15:
            spec = (rng.choice(["CAST", "OPQ"]), spec) if spec[0] != "CAST" else ("OPQ", spec)
        cwidth = rng.choice([80, 80, 40, 12, 200])
        if rng.random() < 0.25:
            cwidth = (cwidth, rng.random() < 0.5, rng.random() < 0.5, rng.choice([None, "standard", "truecolor"]))
        if d <= 2 or not quick:
            ws = list(range(0, 61)) if (not quick or rng.random() < 0.3) else sorted(set(rng.sample(range(0, 61), 14) + [0, 1, 2]))
        else:
            ws = sorted(set(rng.sample(range(0, 61), 6) + [0, 1]))
        ws += [rng.randint(61, 200)]
        jobs.append((spec, cwidth, ws, rng.random() < 0.3))
    tjobs = []
    for _ in range(4000 if quick else 80000):
        d = L.gen_text(rng)
        d.pop("overflow", None)
        if rng.random() < 0.15 and not d.get("spans"):
            # one of the other `str.splitlines` separators (finding text-measure-splitlines): in place of a blank, or anywhere
            p = d["plain"]
            sp = rng.choice(SEPS)
            if " " in p and rng.random() < 0.6:
                idx = rng.choice([i for i, c in enumerate(p) if c == " "])
                p = p[:idx] + sp + p[idx + 1:]
            else:
                idx = rng.randint(0, len(p))
                p = p[:idx] + sp + p[idx:]
            d = dict(d, plain=p)
        tjobs.append((d,))
    tjobs = [(d,) for d in corner_texts()] + tjobs
    ctx.note("jobs", len(jobs))
    procs = max(1, min(14, (os.cpu_count() or 2) - 1))
    with multiprocessing.get_context("fork").Pool(procs) as pool:
        chunk = []
        for res in pool.imap(measure_job, jobs, chunksize=8):
            chunk.append(res)
            if len(chunk) >= 300:
                account(ctx, chunk)
                ctx.flush()
                chunk = []
        account(ctx, chunk)
        ctx.flush()
        account(ctx, list(pool.imap(text_job, tjobs, chunksize=64)))
    ctx.flush()
    lib_syntax_measure.run(ctx, 0.6 if quick else 6.0)  # Syntax.__rich_measure__ (last, so that the seeded trees above stay as they were)
    ctx.rule = (
        lib_syntax_measure.RULE +
        "the C01 corner trees x available widths 0..40,60,100, then seeded random renderable trees (generator of C01, depth <= 4, all options, "
        "plus __rich__ casts and objects without __rich_measure__ at the root) x available widths 0..60 (dense for small trees) and one in 61..200 "
        "x console widths {12,40,80,200}; renderings at every reported maximum / minimum; random texts (words over ASCII, CJK, emoji, combining and "
        "zero-width code points, newlines, tabs; spans; justify; no_wrap) for the text measurement; distinct = distinct canonical requests"
    )
    ctx.assumptions += [
        "console: tab_size 8, safe_box on, no_color off; UTF-8 or ASCII-only encoding, legacy Windows on / off and the colour systems None / standard / "
        "truecolor are all generated and modelled",
        "'render at the reported maximum/minimum fits' is evaluated for values at or above the structural minimum and inside C01's domain "
        "(see harness/props/c01.py; a table whose min_width binds is only compared); the text statements are evaluated for tab-free texts; the "
        "correspondence covers every width",
    ]


def replay(ctx, case):
    print("site:", case.get("site"))
    print("input:", case.get("input"))
    print("what:", case.get("what"))
    print("re-run `./check C09` to re-evaluate (the generators are seeded: VERIF_SEED=%s)" % case.get("seed"))
    return False


MANIFEST = {
    "text": "Lean 4 theorems (Props/C09.lean) about the composition model Model/Layout.lean (shared with C01): `measurement_get_normal` "
    "(whatever __rich_measure__ returns, Measurement.get answers 0 <= min <= max <= max(available,0)), `measure_normal` (the same for "
    "`measure` of every renderable tree incl. objects without __rich_measure__ and __rich__ casts, every Python-int width), "
    "`group_measure_is_max` (a fitted group reports the largest minimum / maximum of its members), `text_render_at_measure_fits` / "
    "`tree_render_at_measure_fits` (no structural-minimum proviso for text and trees), `panel_measure_below_borders_is_only_the_clamp` "
    "(witness that framed renderables need the proviso), "
    "`render_at_max_fits` / `render_at_min_fits` (rendering at the reported maximum / minimum produces no line wider than that value when "
    "it is at or above the structural minimum: corollaries of C01.render_fits, which holds at every width), `text_measure_spec` (minimum = "
    "widest whitespace-separated word, maximum = widest line, attained, min <= max), `text_at_max_not_wrapped` + `divide_line_nil_of_fits` "
    "(divide_line finds no break in any paragraph at a width >= the measured maximum), and the witness "
    "`known_group_with_progressbar_measure_unsound` (F23).  Tie: Measurement.get of real rich vs the model on ~60k (quick) / ~1.6M "
    "(thorough) cases: corner trees and seeded random trees (generator of C01 plus casts / measure-less roots) at every available width 0..60 "
    "and beyond, renderings at every reported maximum/minimum, random texts for Text.__rich_measure__ and wrapping at the maximum; the "
    "statements evaluated directly on rich's answers.",
    "note": "Variant flags: none of its own; FLAGS is imported from props/c01.py, which follows props/c08.py, c02.py, c07.py — current value "
    "0,00000000,0000000 (FRAMES_VARIANT 0, TEXT_FLAGS 00000000, TABLE_FLAGS 0000000: all repaired; 1 = rich 9.10.0 as found).  "
    "Partial / assumed: render-at-max/min is claimed inside C01's domain (see C01 note) and for values at or above the structural "
    "minimum, as the property says; a group containing a ProgressBar that is not last is the known finding progressbar-no-newline (F23, not "
    "repaired): its measurement is unsound, and the check prints KNOWN-FINDING lines for it (sites render at measured maximum / minimum).  `text_at_max_not_wrapped` assumes `\\n` is the only line-break character of the text (str.splitlines, used by "
    "the measurement, also breaks at FS/GS/RS/NEL/LS/PS; wrap does not).  Table.__rich_measure__ is modelled here (`tableRichMeasure` of Model/Layout.lean; C07's Model/Table.lean has gained its own "
    "`Table.richMeasure` since, compared per table by ./check C07).  Quirk modelled: an object whose __rich__ returns a str is "
    "measured (0, available), because Measurement.get converts a str before it follows __rich__.  Documented non-claims (outside C09's quantifier): Syntax.__rich_measure__ is one cell short with line numbers + code_width (C17), Pretty.__rich_measure__ is sound since fix db5535b (C16; fix f3605d0 made it account for the margin — no Pretty measurement is evaluated in this check).  Follow-up of the fourth deepening round: content alphabets and corner trees now include range-boundary characters of rich's width table (shared with c01.py; widths from the table parsed from the source, not rich.cells).  FINDING `text-measure-splitlines` (found by this check's builder, accepted, fixed in /repo by 542a59e; flag MEASURE_SPLITLINES = 0 = fixed, model `textRichMeasureV`, sent in front of every `layout_text_spec` request; 15 % of the random texts and 48 corner texts contain FS/GS/RS/NEL/LS/PS; direct evaluations `Text.__rich_measure__` = widest word / widest newline-separated line by an independent reading, and `a tab-free text rendered at its measured maximum has exactly as many lines as it has newline-separated lines`, slug text-measure-splitlines; on the commit before the fix with the flag at 1 the check exits 1 with a failing input and no mismatch): as found, Text.__rich_measure__ takes its maximum over str.splitlines() while Text.wrap splits at '\\n' only, so a tab-free text containing FS/GS/RS/NEL/LS/PS is wrapped at its own measured maximum (Text('aaa\\x1cbbb cc'): measured (3, 6), rendered at 6 as two lines; soundness 'no line wider than the maximum' still holds).  Theorems: `separator_text_is_wrapped_at_its_maximum` (witness, all six separators, decide +kernel, confirmed on real rich), `text_at_max_not_wrapped_repaired` (with text.split('\\n') the statement holds for every text, no hypothesis), `repaired_measure_agrees_without_other_separators`, `tab_text_is_wrapped_at_its_maximum` (why the statement excludes tabs: expanded before wrapping, counted 0 when measuring); theorems on the flag: `text_at_max_not_wrapped_fixed`, witness `old_text_measure_splitlines_wraps_at_maximum`; repair pending_fixes/C09-text-measure-splitlines.diff (430/430 baseline tests pass with it; applied as 542a59e).  The tree functions `measure` / `render` keep the as-found `textRichMeasure` (they agree with the fixed code on every text without those separators; tree generators produce none).  Outside the model: styles.  Trusted base as C01.",
    "design_ref": "DESIGN.md section 7, C01/C07/C08/C09",
}
