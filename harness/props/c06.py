"""C06 — styles form a consistent algebra, round-trip through text, and hash consistently.

Correspondence: Lean model (Model/ColorParse, Model/Style) vs rich.color.Color.parse / rich.style.Style, in-process,
over all code points: the model is run with the character tables of the running Python (`StrTables.real`, translated on
every run by harness/gen/str_tables.py, compared entry by entry with the real str methods in section 0 of `run`); only
strings containing GREEK CAPITAL SIGMA (context-dependent lower()) are answered `unmodelled`.
Direct evaluation (3d): the executable statements of the theorems in Props/C06.lean on real Style objects,
with oracles that do not use the model (keyword reconstruction, the documented spellings, docs/appendix colours).
"""
import itertools
import os
import re

from core import REPO, enc_str
import lib_style as L
from lib_style import ATTRS

PROPERTY = "C06"

# CODE VARIANT FLAGS — which variant of the code the model is compared with (the seven fields of `StyleVariant` in
# lean/RichModel/Model/ColorParse.lean, in this order).  1 = rich 9.10.0 as found, 0 = repaired = what /repo contains now
# (fixes c34676b [F9], a639ea2 [F3-F6], cf948b2 [F26], c566893 [F30]; the diffs under /verif/pending_fixes were their
# proposals).  All seven are 0: every repair has landed, nothing is left to flip.
RGB_VALUEERROR = 0      # F9 (owned by C14): Color.parse("rgb(1,,2)") raises ValueError, not ColorParseError
ADD_HASH = 0            # F3: Style.__add__ stores the right operand's hash
FROM_COLOR_HASH = 0     # F4: Style.from_color hashes (color, bgcolor, None, None, None)
WITHOUT_COLOR_HASH = 0  # F5: Style.without_color copies the old hash
UPDATE_LINK_HASH = 0    # F6: Style.update_link copies the old hash
UPDATE_LINK_DEF = 0     # F26: Style.update_link copies the cached _style_definition
EMPTY_LINK = 0          # F30: Style(link="") / update_link("") store "" (falsy, yet != None for ==): NULL_STYLE + Style(link="") != Style(link="")
FLAGS = "".join(str(int(bool(x))) for x in (RGB_VALUEERROR, ADD_HASH, FROM_COLOR_HASH, WITHOUT_COLOR_HASH, UPDATE_LINK_HASH, UPDATE_LINK_DEF, EMPTY_LINK))
# development aid only (comparing against another checkout, VERIF_REPO=<worktree>): VERIF_C06_FLAGS=0000000 overrides the constants above
FLAGS = os.environ.get("VERIF_C06_FLAGS") or FLAGS
assert len(FLAGS) == 7 and set(FLAGS) <= {"0", "1"}

# The documented spellings (docs/source/style.rst + the Style docstring): word -> attribute it names.
SPELLINGS = {
    "bold": "bold", "b": "bold", "dim": "dim", "d": "dim", "italic": "italic", "i": "italic",
    "underline": "underline", "u": "underline", "blink": "blink", "blink2": "blink2",
    "reverse": "reverse", "r": "reverse", "conceal": "conceal", "c": "conceal", "strike": "strike", "s": "strike",
    "underline2": "underline2", "uu": "underline2", "frame": "frame", "encircle": "encircle",
    "overline": "overline", "o": "overline",
}
STANDARD16 = ["black", "red", "green", "yellow", "blue", "magenta", "cyan", "white"]
STANDARD16 += ["bright_" + n for n in STANDARD16]

WS = [" ", "\t", "\n", "\x0b", "\x0c", "\r", "\x1c", "\x1d", "\x1e", "\x1f"]

# one-word links inside Style.wf: upper case, %-escapes, non-ASCII (incl. characters whose lower() differs, is longer,
# or is context dependent), keywords of the style grammar, very long
LINK_WORDS = ["HTTPS://Example.COM/Path?Q=%20&x=%C3%89", "%", "%s%d%%", "\u00dcn\u00efcode://\u00df\u1e9e/\u0130\u212a", "\U0001f600", "BOLD", "NOT", "ON", "None", "#FF0000",
              "http://x/" + "aB%2F" * 1200]


def documented_colors():
    """(number, name) rows of docs/source/appendix/colors.rst — the documentation, not the code."""
    path = os.path.join(REPO, "docs", "source", "appendix", "colors.rst")
    try:
        text = open(path, encoding="utf-8").read()
    except OSError:
        return []
    return [(int(n), name) for n, name in re.findall(r'>\s*(\d+)\s*</span>│<span[^>]*>\s*"([^"]+)"', text)]


# ------------------------------------------------------------------------------------------ generators
def color_strings(rng, names, quick):
    """Colour definitions: bounded-exhaustive per syntactic form + seeded mutations + malformed."""
    out = ["", " ", "default", "DEFAULT", " default ", "Default\n", "defaul", "defaultx", "none", "#", "color", "rgb", "color()", "rgb()", "()", "on"]
    for n in names:
        out.append(n)
    picks = names if not quick else rng.sample(names, 40) + STANDARD16
    for n in picks:
        out += [n.upper(), n.title(), " " + n, n + "\t", "\x1c" + n + "\x1f", n + "x", n[:-1], "x" + n, n.replace("_", " "), n.replace("_", "")]
    # #rrggbb : every length 0..8 over a class alphabet is too many; lengths 5,6,7 over representatives, sampled
    hexalpha = "09afgAFG "
    for ln in (5, 6, 7):
        for _ in range(60 if quick else 600):
            out.append("#" + "".join(rng.choice(hexalpha[:4] if rng.random() < 0.7 else hexalpha) for _ in range(ln)))
    for v in ("000000", "ffffff", "0a0b0c", "FF00ff", "123456", "abcdef", "ABCDEF", "00000g", "12345", "1234567"):
        out += ["#" + v, " #" + v + " ", "#" + v + "\n", "##" + v, v]
    # color(n)
    for body in ["", "0", "7", "15", "16", "007", "255", "256", "999", "1000", "0000", "a", "1a", " 1", "1 ", "-1", "+1", "1_0", "٣"]:
        out += [f"color({body})", f"COLOR({body})", f" color({body}) ", f"color({body}", f"color{body})", f"color({body}))", f"color ({body})", f"xcolor({body})", f"color({body})x"]
    for n in range(0, 300) if not quick else list(range(0, 20)) + [99, 100, 200, 254, 255, 256, 257, 299]:
        out.append(f"color({n})")
    # rgb(...)
    comps = ["", "0", "255", "256", " 1", "1 ", "1 2", "\x1c1", "1\x1f", "007", "1\t", "\n9", "1000", " "]
    for a, b, c in itertools.product(comps, repeat=3) if not quick else [tuple(rng.choice(comps) for _ in range(3)) for _ in range(500)]:
        out.append(f"rgb({a},{b},{c})")
    for body in ["", " ", ",", ",,", ",,,", "1", "1,2", "1,2,3,4", "1,2,3", "1.0,2,3", "1;2;3", "-1,2,3", "a,b,c", "1,2,3 ", "1,2,3)", "(1,2,3"]:
        out += [f"rgb({body})", f"RGB({body})", f" rgb({body})\n", f"rgb({body}", f"rgb{body})", f"rgb ({body})", f"rgba({body})", f"rgb({body})x", f"rgb({body}))"]
    for _ in range(200 if quick else 5000):
        out.append("rgb(%d,%d,%d)" % (rng.randint(0, 300), rng.randint(0, 260), rng.randint(0, 256)))
        out.append("#%02x%02x%02x" % (rng.randint(0, 255), rng.randint(0, 255), rng.randint(0, 255)))
    # seeded mutations of valid definitions
    valid = ["red", "bright_blue", "grey93", "default", "#ff8000", "color(42)", "rgb(10,20,30)", "rgb( 1 , 2 , 3 )"]
    alpha = "0123456789abcdefgxrolABCF#(),_ \t\x1c\n"
    for _ in range(1500 if quick else 40000):
        s = list(rng.choice(valid))
        for _ in range(rng.randint(1, 3)):
            k = rng.random()
            pos = rng.randint(0, len(s))
            if k < 0.34 and s:
                del s[min(pos, len(s) - 1)]
            elif k < 0.67:
                s.insert(pos, rng.choice(alpha))
            elif s:
                s[min(pos, len(s) - 1)] = rng.choice(alpha)
        out.append("".join(s))
    # all code points: characters whose lower() is ASCII (KELVIN SIGN -> k, I WITH DOT -> i + U+0307), non-ASCII
    # white space (NEL, NBSP, IDEOGRAPHIC SPACE ...), non-ASCII decimal digits (\d and int() accept them), final sigma
    uni_ws = ["\x85", "\xa0", "\u1680", "\u2003", "\u2028", "\u202f", "\u205f", "\u3000"]
    uni_digits = ["\u0660", "\u0663", "\u06f5", "\u0966", "\uff10", "\uff15", "\uff19", "\U0001d7d8", "\u00b2", "\u2460", "\u0661\u0662", "1\u0663", "\uff12\uff15\uff15", "\uff12\uff15\uff16"]
    out += ["r\u00e9d", "\uff32\uff25\uff24", "blac\u212a", "BLAC\u212a", "\u212a", "rgb(\uff11,\uff12,\uff13)", "red\u00a0", "\u3000red", "\u3000 red\x85", "re\u00a0d", "defa\u0130ult", "\u0130",
            "w\u0130", "whi\u0167e", "bright_blac\u212a", "\u03a3\u0391\u03a3", "red\u03a3", "rgb(1,2,\u03a3)", "#ff00\uff46f", "color(\uff11)", "color(1\u0663)", "rgb(1\u20282,3,4)", "RGB(\u0661,\u0662,\u0663)"]
    # characters that str.casefold() / an ASCII-only lower() would treat differently from str.lower()
    subs = [("s", "\u017f"), ("fl", "\ufb02"), ("fi", "\ufb01"), ("ff", "\ufb00"), ("ss", "\u00df"), ("st", "\ufb06"), ("k", "\u212a"), ("i", "\u0130"), ("a", "\u00c5"), ("e", "\u00c9")]
    for n in names + ["default"]:
        for a_, b_ in subs:
            if a_ in n:
                out.append(n.replace(a_, b_, 1))
    for d in uni_digits:
        out += [f"rgb({d},2,3)", f"rgb(1,{d},3)", f"rgb(1,2,{d})", f"rgb({d}{d}{d},0,0)", f"rgb(25{d},0,0)"]
    for w_ in uni_ws:
        out += [f"rgb({w_}1,2,3)", f"rgb(1{w_},2,3)", f"rgb(1,{w_}2{w_},3)", f"rgb(1{w_}2,3,4)", f"{w_}red{w_}", f"r{w_}ed", f"rgb({w_},2,3)", f"rgb(1,2,3){w_}", f"color(1{w_})"]
        out += [f"rgb(\x1c1,2,{w_}3)", f"rgb(\uff11{w_},2,3)", f"rgb({w_}\u0661,2,3)"]
    # int()'s digit limit (sys.get_int_max_str_digits(), 4300 by default): one component right at / over it
    import sys as _sys
    lim = getattr(_sys, "get_int_max_str_digits", lambda: 0)() or 4300
    for n in (lim - 1, lim, lim + 1):
        out += ["rgb(" + "0" * (n - 1) + "7,2,3)", "rgb(1," + "0" * n + ",3)", "rgb(1,2, " + "0" * (n - 2) + "12 )", "rgb(" + "\u0660" * (n - 1) + "7,2,3)"]
    for _ in range(150 if quick else 4000):
        s = list(rng.choice(["red", "bright_blue", "default", "#ff8000", "color(42)", "rgb(10,20,30)", "rgb( 1 , 2 , 3 )", "BLACK", "DEFAULT", "Rgb(1,2,3)"]))
        for _ in range(rng.randint(1, 2)):
            pos = rng.randint(0, len(s))
            ch = rng.choice(uni_ws + uni_digits[:8] + ["\u212a", "\u0130", "\u017f", "\u00df", "\u1e9e", "\u03a3", "\u00e9", "\u0131", "\ufb01", "\U0001f600", "\u0345"])
            if rng.random() < 0.5 and s:
                s[min(pos, len(s) - 1)] = ch
            else:
                s.insert(pos, ch)
        out.append("".join(s))
    return out


WORDS = (
    list(SPELLINGS) + ["not", "on", "link", "none", "red", "blue", "default", "color(3)", "#0000ff", "rgb(1,2,3)", "bright_cyan", "grey37"]
    + ["Bold", "NOT", "On", "LINK", "RED", "B", "UU", "Dim", "x", "https://x.y/z", "rgb(1,,2)", "color(256)", "#12345", "nots", "onn", "links", "boldd", "italics", "None"]
)
CORE_WORDS = ["bold", "b", "dim", "not", "on", "link", "none", "red", "#0000ff", "Bold", "NOT", "RED", "x", "uu", "overline", "rgb(1,,2)", "default", "blink2"]


def join_words(rng, ws):
    """Join with random white space (incl. leading/trailing) — `str.split()` must not care."""
    if rng.random() < 0.6:
        return " ".join(ws)
    sep = lambda: "".join(rng.choice(WS) for _ in range(rng.randint(1, 2)))
    lead = sep() if rng.random() < 0.3 else ""
    tail = sep() if rng.random() < 0.3 else ""
    return lead + "".join(w + (sep() if i + 1 < len(ws) else "") for i, w in enumerate(ws)) + tail


def definitions(rng, quick):
    out = ["", " ", "\t\n", "none", " none ", "none\n", "NONE", "None", "none none", "bold none", "none bold", "\x1cnone\x1f", "not", "on", "link", "not not", "on on", "link link", "link on", "on link", "not link"]
    for n in (1, 2, 3):
        pool = WORDS if n == 1 else CORE_WORDS
        if n == 3 and quick:
            combos = [tuple(rng.choice(pool) for _ in range(3)) for _ in range(3000)]
        else:
            combos = itertools.product(pool, repeat=n)
        for ws in combos:
            out.append(" ".join(ws))
    for _ in range(4000 if quick else 120000):
        n = rng.randint(1, 9)
        ws = []
        for _ in range(n):
            r = rng.random()
            if r < 0.45:
                w = rng.choice(list(SPELLINGS))
                if rng.random() < 0.3:
                    ws.append(rng.choice(["not", "not", "NOT", "Not"]))
                if rng.random() < 0.1:
                    w = w.upper()
            elif r < 0.65:
                w = rng.choice(["red", "blue", "default", "color(%d)" % rng.randint(0, 260), "#%06x" % rng.randint(0, 0xFFFFFF), "rgb(%d,%d,%d)" % (rng.randint(0, 255), rng.randint(0, 257), rng.randint(0, 255)), "bright_white", "grey100", "RED", "#FFFFFF"])
                if rng.random() < 0.4:
                    ws.append(rng.choice(["on", "ON", "on"]))
            elif r < 0.8:
                ws.append(rng.choice(["link", "LINK"]))
                w = rng.choice(["https://a.b/c", "x", "X", "bold", "on", "link", "not"])
            else:
                w = rng.choice(WORDS)
            ws.append(w)
        out.append(join_words(rng, ws))
    # all code points (see color_strings)
    out += ["bold \uff52ed", "b\u00f3ld", "bold\u00a0red", "bold\u3000red\x85", "link h\u00e9llo", "lin\u212a x", "LIN\u212a x bold", "\u212a", "not \u212a", "bol\u0130d",
            "on blac\u212a", "ON BLAC\u212a", "blac\u212a", "rgb(\u0661,\u0662,\u0663)", "on rgb(\uff11,\uff12,\uff13)", "none\u3000", "\u2003none", "n\u00a0one", "bold \u03a3", "\u03a3", "link \u03a3",
            "link \u212a", "not\u2028bold", "\u017ftrike", "\u017f", "U\u016a", "bold\u200bred", "\uff42old", "italic\u1680on\u1680red", "rgb(1,,\u0662)", "rgb(1,\x1c2,\u0663)"]
    uni = ["\u212a", "\u0130", "\u017f", "\u00a0", "\u3000", "\x85", "\u0663", "\uff11", "\u00e9", "\u03a3", "\u2028"]
    for _ in range(600 if quick else 20000):
        ws = [rng.choice(WORDS) for _ in range(rng.randint(1, 4))]
        k = rng.randrange(len(ws))
        w = list(ws[k])
        pos = rng.randint(0, len(w))
        if rng.random() < 0.5 and w:
            w[min(pos, len(w) - 1)] = rng.choice(uni)
        else:
            w.insert(pos, rng.choice(uni))
        ws[k] = "".join(w)
        out.append(join_words(rng, ws) if rng.random() < 0.5 else rng.choice(["\u00a0", "\u3000", " ", "\x85"]).join(ws))
    return out


class Pools:
    def __init__(self, rng):
        from rich.color import Color, ColorSystem, ColorType
        from rich.color_triplet import ColorTriplet

        self.rng = rng
        good = ["red", "blue", "bright_white", "grey0", "default", "#ff0000", "#0a0b0c", "color(5)", "color(200)", "rgb(1,2,3)", "rgb(255,0,0)", "color(15)", "color(16)", "#000000", "#ffffff"]
        self.canon_colors = [Color.parse(x) for x in good]
        # colour constructor calls (evaluated by L.mk_color on rich, by the model on the Lean side)
        self.ctor_calls = [("default",), ("ansi", 0), ("ansi", 15), ("ansi", 16), ("ansi", 17), ("ansi", 255), ("ansi", 256), ("trip", 0, 0, 0), ("trip", 255, 15, 16),
                           ("trip", 9, 10, 160), ("rgb", 3, 4, 1023), ("rgb", 1020, 63, 64), ("trip", 256, 0, 0)]
        self.odd_colors = [
            Color.parse("rgb(1, 2, 3)"),  # a name with white space
            Color.from_ansi(3), Color.from_ansi(77), Color.from_triplet(ColorTriplet(1, 2, 3)), Color.default(),
            Color.parse("#ff0000").downgrade(ColorSystem.STANDARD),  # name "#ff0000" but a STANDARD colour
            Color.parse("#8040c0").downgrade(ColorSystem.EIGHT_BIT),
            Color("RED", ColorType.STANDARD, 1), Color("red", ColorType.WINDOWS, 1), Color("red", ColorType.STANDARD, 2), Color("bold", ColorType.STANDARD, 1),
        ]
        self.color_strs = good + ["RED", " red ", "Bright_White", "#FF0000", "nope", "", "rgb(1,,2)", "color(256)", "rgb(1, 2, 3)"]
        self.links = [None, None, None, "", "x", "https://a.b/c?d=e", "a b", "A", "link", "on", "not", "bold", "none", "\x1cx", "x\n"] + LINK_WORDS + ["a\u3000b", " x", "x\u2028"]

    def color(self, canon=False):
        r = self.rng
        if r.random() < 0.45:
            return None
        if canon or r.random() < 0.7:
            return r.choice(self.canon_colors)
        return r.choice(self.odd_colors)

    def colorarg(self):
        r = self.rng
        k = r.random()
        if k < 0.45:
            return None
        if k < 0.7:
            return ("S", r.choice(self.color_strs if r.random() < 0.4 else self.color_strs[:11]))
        if k < 0.8:
            return ("C", self.ctor())
        return ("C", self.color() or self.canon_colors[0])

    def kw(self, dense=None):
        r = self.rng
        p = r.choice([0.0, 0.1, 0.3, 0.7]) if dense is None else dense
        return tuple((r.random() < 0.5) if r.random() < p else None for _ in range(13))

    def link(self, wf=False):
        r = self.rng
        return r.choice(self.links[:3] + ["x", "https://a.b/c?d=e", "A"] + LINK_WORDS) if wf else r.choice(self.links)

    def ctor(self):
        """A colour constructor call: the fixed corner cases or a random in-range one."""
        r = self.rng
        k = r.random()
        if k < 0.5:
            return r.choice(self.ctor_calls)
        if k < 0.7:
            return ("ansi", r.randint(0, 255))
        if k < 0.85:
            return ("trip", r.randint(0, 255), r.randint(0, 255), r.randint(0, 255))
        return ("rgb", r.randint(0, 1023), r.randint(0, 1023), r.randint(0, 1023))

    def leaf(self):
        r = self.rng
        k = r.random()
        if k < 0.08:
            return ("N",)
        if k < 0.55:
            return ("I", self.colorarg(), self.colorarg(), self.kw(), self.link())
        if k < 0.68:
            return ("F", self.color(), self.color())
        if k < 0.75:
            return ("F", self.ctor() if r.random() < 0.7 else None, self.ctor() if r.random() < 0.5 else None)
        ws = []
        for _ in range(r.randint(0, 4)):
            w = r.choice(list(SPELLINGS) + ["red", "on blue", "link x", "not bold", "not u", "#010203", "on color(9)", "default", "link A"])
            ws.append(w)
        return ("P", r.choice(["none", "", " "]) if not ws and r.random() < 0.7 else " ".join(ws))

    def route(self, depth):
        r = self.rng
        if depth <= 0 or r.random() < 0.25:
            return self.leaf()
        k = r.random()
        if k < 0.35:
            return ("A", self.route(depth - 1), self.route(depth - 1))
        if k < 0.42:
            return ("O", self.route(depth - 1))
        if k < 0.52:
            return ("C", self.route(depth - 1))
        if k < 0.67:
            return ("U", self.link(), self.route(depth - 1))
        if k < 0.77:
            return ("W", self.route(depth - 1))
        if k < 0.89:
            return ("T", self.route(depth - 1))
        if k < 0.94:
            return ("H", r.random() < 0.5, [self.route(depth - 1) for _ in range(r.randint(0 if r.random() < 0.1 else 1, 3))])
        if k < 0.96:
            return ("K", [None if r.random() < 0.4 else self.route(depth - 1) for _ in range(r.randint(0 if r.random() < 0.1 else 1, 3))])
        if k < 0.98:
            return ("M", self.route(depth - 1), [self.route(depth - 1) for _ in range(r.randint(0, 2))])
        return ("B", self.route(depth - 1))

    # ---- routes to one given style
    def spec(self):
        r = self.rng
        link = self.link(wf=r.random() < 0.8)
        while link == "":  # route-pair targets avoid link "": as found it broke the identity law (F30, flag EMPTY_LINK); since fix c566893 it is stored as None
            link = self.link()
        return (self.color(canon=r.random() < 0.8), self.color(canon=r.random() < 0.8), self.kw(), link)

    def routes_to(self, spec):
        """Several construction routes that must all give the style `spec` = (color, bgcolor, kw, link)."""
        from rich.color import Color

        r = self.rng
        c, b, kw, link = spec
        carg = lambda x: None if x is None else ("C", x)
        none13 = (None,) * 13
        base = ("I", carg(c), carg(b), kw, link)
        out = [base]

        def canon(x):
            try:
                return x is None or (Color.parse(x.name) == x and not any(ch.isspace() for ch in x.name))
            except Exception:
                return False

        if canon(c) and canon(b):
            out.append(("I", None if c is None else ("S", c.name), None if b is None else ("S", b.name), kw, link))
            if link is None or (link and not any(ch.isspace() for ch in link)):
                ws = [(n if v else "not " + n) for n, v in zip(ATTRS, kw) if v is not None]
                ws += ([c.name] if c else []) + (["on " + b.name] if b else []) + (["link " + link] if link else [])
                r.shuffle(ws)
                out.append(("P", " ".join(ws) or "none"))
        # the same colours built through the public colour constructors (Color.from_ansi / from_triplet / from_rgb / default)
        kc, kb = ctor_of(c, r), ctor_of(b, r)
        if (c is None or kc is not None) and (b is None or kb is not None) and (c is not None or b is not None):
            out.append(("I", carg(kc), carg(kb), kw, link))
            if link or link is None:
                out.append(("A", attrs_only_of(kw, link), ("F", kc, kb)))
                out.append(("M", ("F", kc, None), [attrs_only_of(kw, link), ("F", None, kb)]))
            if c is None and all(v is None for v in kw) and link is None:
                out.append(("B", ("I", carg(self.canon_colors[0]), carg(kb), self.kw(), self.link())))
        out.append(("K", [None, base, ("N",)]))
        linkless = ("I", carg(c), carg(b), kw, None)
        out.append(("U", link, linkless))
        out.append(("U", link, ("I", carg(c), carg(b), kw, "other")))
        attrs_only = ("I", None, None, kw, link)
        colours = ("F", c, b)
        if link or link is None:
            out.append(("A", attrs_only, colours))
            out.append(("A", colours, attrs_only))
        # without_color of a coloured style, colours added back
        coloured = ("I", carg(self.canon_colors[0]), carg(self.canon_colors[4]), kw, link)
        if c is None and b is None:
            out.append(("W", coloured))
        elif link or link is None:
            out.append(("A", ("W", coloured), colours))
        # attributes split in two, the right operand overriding flipped values
        cut = r.randint(0, 13)
        left = tuple((v if i < cut else (None if v is None or r.random() < 0.5 else (not v))) for i, v in enumerate(kw))
        right = tuple((None if i < cut else v) for i, v in enumerate(kw))
        if link or link is None:
            out.append(("A", ("I", carg(c), None, left, link if r.random() < 0.5 else None), ("I", None, carg(b), right, link)))
            pieces = [("I", None, None, tuple(v if j == i else None for j in range(13)), None) for i, v in enumerate(kw) if v is not None]
            pieces += [("F", c, None), ("F", None, b), ("I", None, None, none13, link)]
            r.shuffle(pieces)
            out.append(("H", r.random() < 0.5, pieces))
        # wrappers that must not change the style
        k = r.randint(1, 3)
        for _ in range(k):
            x = r.choice(out)
            w = r.choice(["C", "T", "O", "AN", "NA", "A0"])
            if w in "CTO":
                out.append((w, x))
            elif w == "AN":
                out.append(("A", x, ("N",)))
            elif w == "NA":
                out.append(("A", ("N",), x))
            else:
                out.append(("A", ("I", None, None, none13, None), x))
        return out


def ctor_of(c, rng):
    """A constructor call that must build exactly the Color `c` (None if there is none): oracle = the documented
    meaning of the constructors, not the code."""
    from rich.color import ColorType

    if c is None:
        return None
    if c.type == ColorType.DEFAULT and c.name == "default":
        return ("default",)
    if c.type in (ColorType.STANDARD, ColorType.EIGHT_BIT) and c.name == f"color({c.number})" and (c.type == ColorType.STANDARD) == (c.number < 16):
        return ("ansi", c.number)
    if c.type == ColorType.TRUECOLOR and c.triplet is not None and c.name == "#%02x%02x%02x" % tuple(c.triplet):
        t = c.triplet
        if rng.random() < 0.5:
            return ("trip", t[0], t[1], t[2])
        return ("rgb", 4 * t[0] + rng.randint(0, 3), 4 * t[1] + rng.randint(0, 3), 4 * t[2] + rng.randint(0, 3))
    return None


def attrs_only_of(kw, link):
    return ("I", None, None, kw, link)


def pools_ctor_random(rng):
    k = rng.random()
    if k < 0.3:
        return ("ansi", rng.randint(0, 255))
    if k < 0.65:
        return ("trip", rng.randint(0, 255), rng.randint(0, 255), rng.randint(0, 255))
    return ("rgb", rng.randint(0, 1023), rng.randint(0, 1023), rng.randint(0, 1023))


def flatten_chain(r):
    """Route with every chain/combine written as the left fold of + that `sum()` performs."""
    t = r[0]
    if t == "K":
        first = next((x for x in r[1] if x is not None), None)
        return r if first is None else flatten_chain(first)
    if t == "M":
        acc = flatten_chain(r[1])
        for x in r[2]:
            acc = ("A", acc, flatten_chain(x))
        return acc
    if t == "H":
        rs = [flatten_chain(x) for x in r[2]]
        acc = rs[0]
        for x in rs[1:]:
            acc = ("A", acc, x)
        return acc
    if t == "A":
        return ("A", flatten_chain(r[1]), flatten_chain(r[2]))
    if t in "OCWTB":
        return (t, flatten_chain(r[1]))
    if t == "U":
        return ("U", r[1], flatten_chain(r[2]))
    return r


def canonical(s):
    """The same style built with keywords from what the public accessors report."""
    from rich.style import Style

    return Style(color=s.color, bgcolor=s.bgcolor, link=s.link, **{a: getattr(s, a) for a in ATTRS if getattr(s, a) is not None})


def hash_ok(s):
    return hash(s) == hash(canonical(s))


def blame(route):
    """Narrow classifier: which constructor produced the stale hash of build(route)?  -> (site, slug) or (None, None)."""
    route = flatten_chain(route)
    try:
        s = L.build(route)
    except Exception:
        return None, None
    if hash_ok(s):
        return None, None
    t = route[0]
    if t in "TCO":
        return blame(route[1])
    if t == "A":
        a, b = L.build(route[1]), L.build(route[2])
        if not b:
            return blame(route[1])
        if not a:
            return blame(route[2])
        if s == b and not hash_ok(b):
            return blame(route[2])
        return "Style.__add__", "hash-add-takes-right-operand-hash"
    if t == "U":
        child = L.build(route[2])
        if child.link == route[1] and not hash_ok(child):
            return blame(route[2])
        return "Style.update_link", "hash-update-link-keeps-old-hash"
    if t == "W":
        child = L.build(route[1])
        if child.color is None and child.bgcolor is None and not hash_ok(child):
            return blame(route[1])
        return "Style.without_color", "hash-without-color-keeps-old-hash"
    if t == "F":
        return "Style.from_color", "hash-from-color-none-attributes"
    return None, None


def stale_definition(route):
    """Narrow classifier for a failed round trip: str() returned a cached definition that is not what
    __str__ computes for these fields (only a stale `_style_definition` can do that) and the route
    contains an update_link — the one constructor that copies the cache while changing a field."""
    s = L.build(route)
    if str(s) == str(canonical(s)):
        return False

    def has_u(r):
        t = r[0]
        if t == "U":
            return True
        if t == "A":
            return has_u(r[1]) or has_u(r[2])
        if t in "OCWTB":
            return has_u(r[1])
        if t == "H":
            return any(has_u(x) for x in r[2])
        if t == "K":
            return any(x is not None and has_u(x) for x in r[1])
        if t == "M":
            return has_u(r[1]) or any(has_u(x) for x in r[2])
        return False

    return has_u(route)


# ------------------------------------------------------------------------------------------ the check
def run(ctx):
    import rich.style as style_mod
    from rich.color import ANSI_COLOR_NAMES, Color, ColorParseError, ColorType
    from rich.color_triplet import ColorTriplet
    from rich.errors import StyleSyntaxError
    from rich.style import Style

    rng = ctx.rng
    quick = ctx.quick
    wf = L.wf
    NULL = style_mod.NULL_STYLE
    str(NULL)  # NULL_STYLE in its steady state (its definition cache filled), as the model has it
    ctx.assumptions += [
        "hash(): modelled by the tuple that is hashed; equal tuples hash equally (Python guarantee); the harness compares hash equality with key equality",
        "str.isspace / \\s, str.isdecimal / \\d / int(), str.lower and the int() digit limit of the running Python are parameters of the model "
        "(tables translated on every run by harness/gen/str_tables.py, proved `Lawful` in Lean: real_tables_lawful); every table entry and every `Lawful` side "
        "condition (agreement with the ASCII rules below 128, lower() idempotent, lower() creates no white space) is also validated on all 1,112,064 code points (surrogates excluded) "
        "on every run, on the Lean tables (driver request tables_lawful) and on the real str methods",
        "str.lower() of a string containing GREEK CAPITAL SIGMA is context dependent (final-sigma rule): such requests are answered `unmodelled`; the direct evaluation still runs on them",
        "functools.lru_cache on Color.parse / Style.parse / Style.normalize is transparent (routes bypass it for Style.parse so that every object is fresh; the cached entry points are exercised by style_parse / normalize cases)",
        "NULL_STYLE is modelled in its steady state (_style_definition already 'none')",
        "_link_id (random) and _ansi are not modelled",
        "Style(link='') (F30) is modelled faithfully behind the flag EMPTY_LINK; the text round trip is stated for links that are None or one non-empty word (Style.wf)",
    ]
    names = list(ANSI_COLOR_NAMES)

    # ---- 0. the interpreter's character tables: every entry, and the side conditions the theorems assume
    import sys as _sys

    n_ws = n_dec = n_low = 0
    py_bad = None
    for cp in range(0x110000):
        if 0xD800 <= cp <= 0xDFFF:
            continue
        c = chr(cp)
        sp, low = c.isspace(), c.lower()
        d = int(c) if c.isdecimal() else None
        n_ws += sp
        n_dec += d is not None
        if cp != 0x3A3:
            n_low += low != c
            if sp or d is not None or low != c or cp % 997 == 0 or cp < 256:
                ctx.case("str_table", [cp], f"{int(sp)} {'-' if d is None else d} {enc_str(low)}", shape="ws" if sp else "dec" if d is not None else "low" if low != c else "plain")
            # Lawful, on the real str: lower() idempotent, creates no white space; ASCII rules below 128
            ok = low.lower() == low and (sp or not any(x.isspace() for x in low))
            if cp < 128:
                ok = ok and sp == (9 <= cp <= 13 or 28 <= cp <= 32) and low == (chr(cp + 32) if 65 <= cp <= 90 else c) and d == (cp - 48 if 48 <= cp <= 57 else None)
            if not ok and py_bad is None:
                py_bad = cp
    lim = getattr(_sys, "get_int_max_str_digits", lambda: 0)()
    ctx.case("str_table_counts", [""], f"{n_ws} {n_dec} {n_low} {lim}")
    ctx.case("tables_lawful", [0, 0x110000], "ok" if py_bad is None else f"python-str-not-lawful:{py_bad}")
    ctx.flush()

    # ---- 1. Color.parse
    def real_color_parse(s):
        try:
            return "ok:" + L.enc_color(Color.parse(s))
        except Exception as e:  # noqa: BLE001 — the error kind is the answer
            return L.enc_err(e)

    cstrings = color_strings(rng, names, quick)
    for s in cstrings:
        ans = real_color_parse(s)
        ctx.case("color_parse", [FLAGS, enc_str(s)], ans, shape=ans.split(":")[0] + ":" + (ans.split(":")[1] if ans.startswith("err") else ""), sample=f"Color.parse({s!r})")
        if ans.startswith("ok:"):
            c = Color.parse(s)
            # parse is idempotent on the name it stores (needed by the round trip) and the name is normalised
            ctx.check(c.name == s.lower().strip(), "Color.parse", s, f"name {c.name!r} is not the lower-cased stripped input")
            ctx.check(Color.parse(c.name) == c, "Color.parse", s, f"parsing the stored name {c.name!r} gives a different colour")
    ctx.flush()


    # ---- 1b. the public colour constructors: Color.from_ansi / from_triplet / from_rgb / default — every number 0..255
    # (and just outside), boundary triplets; compared STRUCTURALLY (name, ColorType, number, triplet) with the model and
    # with an oracle written from the documentation; then every route from such a colour to a one-colour style
    # (theorems from_ansi_is_parsed_color, from_triplet_is_parsed_hex, made_color_routes_agree, made_color_roundtrip)
    def color_fields(c):
        return (c.name, int(c.type), type(c.type).__name__, c.number, None if c.triplet is None else tuple(c.triplet))

    calls = [("default",)] + [("ansi", n) for n in range(0, 260)] + [("ansi", 1000)]
    edge = [0, 1, 9, 10, 15, 16, 17, 99, 100, 127, 128, 159, 160, 254, 255]
    calls += [("trip", r_, g_, b_) for r_ in edge for g_ in (0, 15, 16, 255) for b_ in (0, 9, 10, 255)]
    for v in range(256):
        calls += [("trip", v, 0, 0), ("trip", 0, v, 0), ("trip", 0, 0, v)]
    calls += [("trip", 256, 0, 0), ("trip", 0, 300, 0), ("trip", 0, 0, 4096), ("trip", 255, 255, 256)]
    q4 = [0, 1, 3, 4, 5, 39, 40, 63, 64, 67, 1019, 1020, 1021, 1023]
    calls += [("rgb", a_, b_, c_) for a_ in q4 for b_ in (0, 63, 64, 1023) for c_ in (3, 4, 1020)] + [("rgb", 1024, 0, 0), ("rgb", 0, 0, 1027)]
    for _ in range(300 if quick else 20000):
        calls.append(pools_ctor_random(rng))
    for call in calls:
        try:
            c = L.mk_color(call)
        except BaseException as e:  # noqa: BLE001 — the constructors do not validate; nothing is documented to raise
            ctx.check(False, "Color." + call[0], L.show_color(call), f"raised {type(e).__name__}: {e}")
            continue
        # oracle from the documentation of the constructors
        if call[0] == "ansi":
            n = call[1]
            want = Color(f"color({n})", ColorType.STANDARD if n < 16 else ColorType.EIGHT_BIT, n, None)
            in_range = n <= 255
        elif call[0] == "default":
            want, in_range = Color("default", ColorType.DEFAULT, None, None), True
        else:
            comps = call[1:] if call[0] == "trip" else tuple(x // 4 for x in call[1:])
            want = Color("#" + "".join("%02x" % x for x in comps), ColorType.TRUECOLOR, None, ColorTriplet(*comps))
            in_range = all(x <= 255 for x in comps)
        ctx.note("color_ctor:" + call[0] + (":in-range" if in_range else ":out-of-range"))
        ctx.check(color_fields(c) == color_fields(want) and isinstance(c, Color), "Color." + call[0], L.show_color(call),
                  f"built {color_fields(c)}, documented {color_fields(want)}")
        try:
            back = Color.parse(c.name)
            okp = color_fields(back) == color_fields(c)
        except ColorParseError:
            back, okp = None, False
        except BaseException as e:  # noqa: BLE001
            back, okp = e, None
        if in_range:
            # the stored name is a definition of this very colour: same name, ColorType, number, triplet
            ctx.check(okp is True, "Color." + call[0] + ":name-parses-back", L.show_color(call), f"Color.parse({c.name!r}) = {back!r} is not the colour {c!r} ({color_fields(c)})")
        else:
            ctx.check(okp is False and back is None, "Color." + call[0] + ":out-of-range", L.show_color(call), f"Color.parse({c.name!r}) of an out-of-range colour did not raise ColorParseError: {back!r}")
        ans = L.enc_color(c) + " wf=" + ("1" if okp and not any(ch.isspace() for ch in c.name) else "0") + " hex="
        ans += "-" if c.triplet is None else enc_str(c.triplet.hex) + " rgb=" + enc_str(c.triplet.rgb)
        ctx.case("color_ctor", [FLAGS, L.enc_color(call)], ans, shape=call[0] + (":in" if in_range else ":out"), sample=L.show_color(call))
        if c.triplet is not None and in_range:
            try:
                viargb = Color.parse(c.triplet.rgb)
                okr = (viargb.type, viargb.triplet, viargb.number) == (c.type, c.triplet, c.number) and type(viargb.type) is ColorType
            except BaseException:  # noqa: BLE001
                okr = False
            ctx.check(okr, "ColorTriplet.rgb", L.show_color(call), f"Color.parse({c.triplet.rgb!r}) is not the same truecolor")
        if not in_range:
            continue
        # every route from this colour to a one-colour style gives the same style (==, hash, dict/set) and it round trips
        for fg in (True, False):
            key = "color" if fg else "bgcolor"
            text = c.name if fg else "on " + c.name
            try:
                group = [
                    ("Style(%s=<ctor>)" % key, Style(**{key: c})),
                    ("Style(%s=name)" % key, Style(**{key: c.name})),
                    ("Style.parse(text)", L.build(("P", text))),
                    ("Style.from_color", Style.from_color(c, None) if fg else Style.from_color(None, c)),
                    ("Style(%s=Color(...))" % key, Style(**{key: Color(want.name, want.type, want.number, want.triplet)})),
                    ("NULL + s", NULL + Style(**{key: c})),
                    ("copy", Style(**{key: c}).copy()),
                ]
                if not fg:
                    group.append(("background_style", Style(color="red", bgcolor=c, bold=True, link="x").background_style))
            except BaseException as e:  # noqa: BLE001
                ctx.check(False, "Color." + call[0] + ":routes", (L.show_color(call), key), f"a construction route raised {type(e).__name__}: {e}")
                continue
            ref_name, ref = group[0]
            for nm, o in group[1:]:
                same = o == ref and ref == o and hash(o) == hash(ref) and {ref: 1}.get(o) == 1 and len({ref, o}) == 1
                same = same and color_fields(getattr(o, key)) == color_fields(getattr(ref, key))
                ctx.check(same, "Color." + call[0] + ":routes", (L.show_color(call), ref_name, nm), f"{ref_name} = {ref!r} and {nm} = {o!r} differ in ==, hash, dict/set behaviour or colour fields {color_fields(getattr(o, key))} / {color_fields(getattr(ref, key))}")
            for nm, o in group:
                ctx.check(wf(o), "Color." + call[0] + ":wf", (L.show_color(call), nm), "a style whose colour comes from a public constructor (in range) is not well-formed: its name does not parse back to it")
                try:
                    okb = Style.parse(str(o)) == o and Style.normalize(str(o)) == str(o) and str(o) == text
                except BaseException:  # noqa: BLE001
                    okb = False
                ctx.check(okb, "Color." + call[0] + ":roundtrip", (L.show_color(call), nm), f"str() = {str(o)!r} does not parse back to the style / is not {text!r}")
    ctx.flush()

    # ---- 2. documented spellings (oracle: the documentation, hand-copied / docs appendix)
    def only(s, **want):
        for a in ATTRS:
            if getattr(s, a) != want.get(a):
                return False
        return True

    for w, attr in SPELLINGS.items():
        for variant in {w, w.upper(), w.title(), " " + w + " "}:
            try:
                s = Style.parse(variant)
                ok = only(s, **{attr: True}) and s.color is None and s.bgcolor is None and s.link is None
            except Exception:
                ok = False
            ctx.check(ok, "Style.parse:spelling", variant, f"does not parse to {attr}=True")
        for neg in ("not " + w, "NOT " + w, "not\t" + w):
            try:
                s = Style.parse(neg)
                ok = only(s, **{attr: False}) and s.color is None and s.bgcolor is None
            except Exception:
                ok = False
            ctx.check(ok, "Style.parse:spelling", neg, f"does not parse to {attr}=False")
    docs = documented_colors()
    ctx.note("documented_colors", len(docs))
    table = [(i, n) for i, n in enumerate(STANDARD16)] + docs
    for num, name in table:
        want = Color(name, ColorType.STANDARD if num < 16 else ColorType.EIGHT_BIT, num)
        for text, fg in ((name, True), (name.upper(), True), ("on " + name, False), ("bold on " + name.title(), False)):
            try:
                s = Style.parse(text)
                got = s.color if fg else s.bgcolor
                other = s.bgcolor if fg else s.color
                ok = got == want and other is None
            except Exception:
                ok = False
            ctx.check(ok, "Style.parse:colour-name", text, f"does not give colour {num} named {name!r}")
    for n in range(256):
        want = Color(f"color({n})", ColorType.STANDARD if n < 16 else ColorType.EIGHT_BIT, n)
        try:
            ok = Style.parse(f"color({n})").color == want and Style.parse(f"on color({n})").bgcolor == want and Color.parse(f"COLOR({n})") == want
        except Exception:
            ok = False
        ctx.check(ok, "Style.parse:color(n)", n, "color(n) does not give colour number n")
    chans = [(v, 0, 0) for v in range(256)] + [(0, v, 0) for v in range(256)] + [(0, 0, v) for v in range(256)]
    chans += [(rng.randint(0, 255), rng.randint(0, 255), rng.randint(0, 255)) for _ in range(300 if quick else 20000)]
    for r_, g_, b_ in chans:
        t = ColorTriplet(r_, g_, b_)
        hx, rgb = "#%02x%02x%02x" % t, "rgb(%d,%d,%d)" % t
        try:
            ok = Style.parse(hx).color == Color(hx, ColorType.TRUECOLOR, None, t) and Style.parse("on " + hx.upper()).bgcolor == Color(hx, ColorType.TRUECOLOR, None, t)
            ok = ok and Style.parse(rgb).color == Color(rgb, ColorType.TRUECOLOR, None, t)
        except Exception:
            ok = False
        ctx.check(ok, "Style.parse:rgb", (r_, g_, b_), "#rrggbb / rgb(r,g,b) does not give that triplet")
    try:
        ok = Style.parse("default on default") == Style(color=Color("default", ColorType.DEFAULT), bgcolor=Color("default", ColorType.DEFAULT))
        ok = ok and Style.parse("link https://google.com").link == "https://google.com" and not Style.parse("none") and not Style.parse("")
    except Exception:
        ok = False
    ctx.check(ok, "Style.parse:spelling", "default on default / link / none", "documented example does not parse as documented")


    # ---- 2b. links (theorems link_word_verbatim, link_with_space_no_roundtrip): any ONE word — upper case, %, non-ASCII
    # (incl. GREEK CAPITAL SIGMA, whose lower() is context dependent), very long — is kept verbatim by parse / normalize / str();
    # a link with white space inside cannot round trip (the grammar takes the next word only)
    sig_links = ["\u0391\u03a3", "\u03a3", "a\u03a3b", "\u039f\u0394\u039f\u03a3://\u03a3"]
    for W in LINK_WORDS + sig_links + ["x", "https://a.b/c?d=e"]:
        for tpl in ("link {}", "LINK {}", "bold link {} red", "on blue  Link\t{}\nnot italic", "link x link {}"):
            d = tpl.format(W)
            try:
                st = Style.parse(d)
                nz = Style.normalize(d)
                ok = st.link == W and W in nz.split() and nz == str(st) and Style.parse(nz) == st and Style.parse(nz).link == W
            except BaseException as e:  # noqa: BLE001
                ok, nz = False, repr(e)
            ctx.check(ok, "Style.parse:link-verbatim", d if len(d) < 200 else d[:60] + "...(%d chars)" % len(d), f"the word after `link` is not kept verbatim through parse / normalize / str(): {str(nz)[:120]!r}")
        try:
            st = Style(link=W, bold=True)
            ok = Style.parse(str(st)) == st and hash(Style.parse(str(st))) == hash(st) and str(st) == "bold link " + W and st.update_link(W) == st and (NULL + st).link == W
        except BaseException:  # noqa: BLE001
            ok = False
        ctx.check(ok, "Style(link=word)", W if len(W) < 200 else W[:60] + "...", "a one-word link does not round trip through str() / parse")
    for W in ["a b", " x", "x ", "a\tb", "a\u3000b", "x\u2028y", "a b c", "bold italic", "\x1cx"]:
        st = Style(link=W)
        try:
            back = Style.parse(str(st))
            ok = back != st and back.link != W
        except StyleSyntaxError:
            ok = True
        except BaseException:  # noqa: BLE001
            ok = False
        ctx.check(ok and not wf(st), "Style(link=with-space)", W, "a link containing white space round tripped (the theorem says it cannot) or raised an undocumented exception")

    # ---- 3. Style.parse / normalize on definitions (the cached, public entry points)
    defs = definitions(rng, quick)
    for d in defs:
        try:
            s = Style.parse(d)
            ans = "ok:" + L.enc_style(s) + "|n" + ("0" if s else "1")
        except Exception as e:  # noqa: BLE001
            s, ans = None, L.enc_err(e)
        ctx.case("style_parse", [FLAGS, enc_str(d)], ans, shape=ans[:3] + (ans.split(":")[-1] if s is None else str(min(len(d.split()), 4))), sample=f"Style.parse({d!r})")
        try:
            nz = Style.normalize(d)
            nans = "ok:" + enc_str(nz)
        except Exception as e:  # noqa: BLE001
            nz, nans = None, L.enc_err(e)
        ctx.case("normalize", [FLAGS, enc_str(d)], nans, shape=nans[:3], sample=f"Style.normalize({d!r})")
        if s is not None:
            # the string form parses back to an equal style; normalize is a fixed point after one step
            try:
                back = Style.parse(str(s))
                okb = back == s
            except Exception:
                okb = False
            ctx.check(okb, "Style.parse(str())", d, f"parse(str(parse(d))) != parse(d); str = {str(s)!r}")
            try:
                okn = nz is not None and Style.parse(nz) == s and Style.normalize(nz) == nz and nz == str(s)
            except Exception:
                okn = False
            ctx.check(okn, "Style.normalize", d, f"normalize(d) = {nz!r} does not parse back to parse(d) or is not a fixed point")
            ctx.check(hash(s) == hash(canonical(s)) and s == canonical(s), "Style.parse:hash", d, "parsed style differs from / hashes differently than the keyword-built equal style")
    ctx.flush()

    # ---- 4. construction routes: model vs rich on the full modelled state
    pools = Pools(rng)
    built = []  # (route, real object) of successfully built styles, for the algebra section

    def real_state(route):
        try:
            s = L.build(route)
        except Exception as e:  # noqa: BLE001
            return None, L.enc_err(e)
        return s, "ok:" + L.enc_state(s)

    def route_case(route):
        s, ans = real_state(route)
        ctx.case("route", [FLAGS, L.enc_route(route)], ans, shape=route[0] + (":err" if s is None else ""), sample=L.show(route))
        if s is not None:
            ctx.note("route_result:" + ("null" if not s else "nonnull"))
        return s

    # bounded-exhaustive: every unary constructor over a pool of base routes, every binary + over pool x pool
    base = [("N",), ("I", None, None, (None,) * 13, None), ("I", None, None, (None,) * 13, ""), ("F", None, None)]
    base += [("I", ("S", "red"), None, (True,) + (None,) * 12, None), ("I", None, ("S", "blue"), (False, None, True) + (None,) * 10, "x")]
    base += [("F", pools.canon_colors[0], None), ("F", None, pools.canon_colors[5]), ("P", "not bold italic on #010203 link y"), ("P", "none"), ("P", " ")]
    base += [("I", None, None, (None,) * 12 + (True,), None), ("I", None, None, (None,) * 3 + (True, False, True, False, True, False) + (None,) * 4, None), ("I", None, None, (None,) * 13, "x")]
    singles = [("I", None, None, tuple(v if j == i else None for j in range(13)), None) for i in range(13) for v in (True, False)]
    for x in singles:  # every attribute alone, on and off (the three group guards of __str__, every bit weight of __init__)
        s = route_case(x)
        built.append((x, s))
        for y in (singles[0], singles[25], base[4]):
            s = route_case(("A", x, y))
            built.append((("A", x, y), s))
    unary = []
    for x in base:
        unary += [x, ("T", x), ("C", x), ("W", x), ("O", x), ("B", x), ("U", None, x), ("U", "", x), ("U", "z", x), ("U", "z", ("T", x)), ("C", ("T", x)), ("W", ("T", x)), ("T", ("U", "z", ("T", x)))]
    for x in unary:
        s = route_case(x)
        if s is not None:
            built.append((x, s))
    lvl1 = base + [("T", x) for x in base[4:8]] + [("W", base[4]), ("U", "q", base[0]), ("U", None, base[5])]
    for x in lvl1:
        for y in lvl1:
            s = route_case(("A", x, y))
            if s is not None:
                built.append((("A", x, y), s))
    # every colour constructor as a construction route: all 256 numbers (+ out of range), boundary triplets, float components
    none13 = (None,) * 13
    cc = [("default",)] + [("ansi", n) for n in range(0, 258)] + [("trip", r_, g_, b_) for r_ in (0, 9, 10, 15, 16, 255) for g_ in (0, 15, 16, 255) for b_ in (0, 160, 255)]
    cc += [("rgb", 3, 4, 1023), ("rgb", 1020, 63, 64), ("rgb", 39, 40, 41), ("trip", 256, 0, 0), ("rgb", 1024, 0, 7)]
    for call in cc:
        for x in (("I", ("C", call), None, none13, None), ("F", None, call), ("I", None, ("C", call), (True,) + (None,) * 12, "x"), ("B", ("F", call, call)), ("W", ("F", call, None))):
            s = route_case(x)
            if s is not None:
                built.append((x, s))
        try:
            nm = L.mk_color(call).name
        except BaseException:  # noqa: BLE001 — judged in section 1b
            continue
        r1, r2 = ("I", ("C", call), None, none13, None), ("P", nm)
        try:
            o1, o2 = L.build(r1), L.build(r2)
            ans = f"eq={int(o1 == o2)} hasheq={int(hash(o1) == hash(o2))}"
        except BaseException as e:  # noqa: BLE001
            ans = L.enc_err(e)
        ctx.case("route_pair", [FLAGS, L.enc_route(r1), L.enc_route(r2)], ans, shape="ctor:" + call[0] + ":" + ans[:4], sample=f"{L.show(r1)}  vs  {L.show(r2)}")
    # pick_first / sum(…, start) / combine corner cases
    for x in (("K", []), ("K", [None]), ("K", [None, None]), ("K", [None, base[4], base[5]]), ("K", [base[0], None]), ("K", [None, ("P", "nope nope")]), ("K", [base[5], ("P", "nope nope")]),
              ("M", base[4], []), ("M", base[0], [base[4], base[5]]), ("M", base[4], [base[0], base[5], base[8]]), ("M", ("T", base[4]), [("N",)])):
        s = route_case(x)
        if s is not None:
            built.append((x, s))
    route_case(("H", False, []))
    route_case(("H", True, []))
    n_routes = 6000 if quick else 150000
    for _ in range(n_routes):
        route = pools.route(rng.choice([1, 2, 2, 3, 3, 4]))
        s = route_case(route)
        if s is not None and len(built) < 60000:
            built.append((route, s))
    ctx.flush()

    # ---- 5. every built style: == / hash / dict / set against the keyword-built equal style; round trip
    wf = L.wf

    def eval_style(route, s):
        k = canonical(s)
        ctx.check(k == s and s == k, "Style.__eq__", L.show(route), "style differs from the one rebuilt with keywords from its own accessors")
        same_hash = hash(k) == hash(s)
        as_key = {k: 1}.get(s) == 1 and s in {k} and k in {s}
        if not (same_hash and as_key):
            site, slug = blame(route)
            ctx.check(False, site or "Style.__hash__", L.show(route), f"== the keyword-built style {k!r} but hash differs ({hash(s)} vs {hash(k)}); dict lookup finds it: {as_key}", finding=slug)
        else:
            ctx.check(True, "Style.__hash__", None, "")
        if wf(s):
            ctx.note("roundtrip:wf")
            text = str(s)
            try:
                back = Style.parse(text)
                ok = back == s
            except Exception as e:  # noqa: BLE001
                back, ok = e, False
            if not ok:
                stale = stale_definition(route)
                ctx.check(False, "Style.update_link" if stale else "Style.__str__", L.show(route), f"str() = {text!r} parses to {back!r}, not to the style itself", finding="str-stale-after-update-link" if stale else None)
            else:
                ctx.check(True, "Style.__str__", None, "")
                nz = Style.normalize(text)
                okn = Style.parse(nz) == s and nz == text
                if not okn and stale_definition(route):
                    # str() is a stale cached definition that happens to parse back to the style
                    ctx.check(False, "Style.update_link", L.show(route), f"str() = {text!r} is not the definition of the style ({nz!r})", finding="str-stale-after-update-link")
                else:
                    ctx.check(okn, "Style.normalize", text, f"normalize(str(s)) = {nz!r} is not str(s) / does not parse back")
        else:
            ctx.note("roundtrip:not-wf")

    for route, s in built:
        eval_style(route, s)

    # ---- 6. algebra on triples of real styles (oracle: the attribute/colour/link accessors)
    def right_bias(a, b, r):
        for at in ATTRS:
            want = getattr(b, at) if getattr(b, at) is not None else getattr(a, at)
            if getattr(r, at) != want:
                return f"{at}: {getattr(r, at)} expected {want}"
        if r.color != (b.color if b.color is not None else a.color):
            return "color"
        if r.bgcolor != (b.bgcolor if b.bgcolor is not None else a.bgcolor):
            return "bgcolor"
        if (r.link or None) != (b.link or a.link or None):
            return f"link: {r.link!r} expected {(b.link or a.link)!r}"
        return None

    styles = [s for _, s in built]
    empties = [Style(color="red", bgcolor="blue").without_color, Style().update_link(None), Style.from_color(Color.parse("red")).without_color.copy()]
    empty = Style()
    n_tri = 15000 if quick else 400000
    for i in range(n_tri):
        a, b, c = rng.choice(styles), rng.choice(styles), rng.choice(styles)
        ab = a + b
        why = right_bias(a, b, ab)
        ctx.check(why is None, "Style.__add__:right-bias", (repr(a), a.link, repr(b), b.link), f"a+b = {ab!r}: {why}")
        lhs, rhs = (a + b) + c, a + (b + c)
        ctx.check(lhs == rhs, "Style.__add__:assoc", (repr(a), repr(b), repr(c)), f"(a+b)+c = {lhs!r} but a+(b+c) = {rhs!r}")
        ctx.check(bool(lhs) == bool(rhs), "Style.__add__:assoc-bool", (repr(a), repr(b), repr(c)), "truthiness of (a+b)+c and a+(b+c) differs")
        if i % 4 == 0:
            ok = (NULL + a == a) and (a + NULL == a) and (a + None == a) and (empty + a == a) and (a + empty == a) and (a + Style.null() is a)
            # narrow classifier: the only thing wrong is that the operand is the `_null` style with link ""
            slug = "empty-link-breaks-identity" if (not ok and a.link == "" and not a and a + NULL == a and (NULL + a).link is None) else None
            ctx.check(ok, "Style(link='')" if slug else "Style.__add__:identity", repr(a) + f" link={a.link!r}", "the null style is not an identity: NULL_STYLE + a != a", finding=slug)
            if a.link == "":
                continue  # copy() / without_color of the `_null` style with link "" return NULL_STYLE: the same finding
            # styles that == NULL_STYLE but are not flagged `_null` (bool() True) are identities all the same
            ctx.check(all(e == NULL and bool(e) and (a + e == a) and (e + a == a) for e in empties), "Style.__add__:non-null-empty-identity", repr(a), "a style == Style() with _null False is not an identity")
            ctx.check(Style.chain(a, b, c) == lhs and Style.combine([a, b, c]) == lhs and Style.combine(iter([a])) == a, "Style.chain", (repr(a), repr(b), repr(c)), "chain/combine differ from a+b+c")
            ctx.check(sum([b, c], a) == lhs and hash(sum([b, c], a)) == hash(lhs) and sum([], a) is a, "sum(styles, start)", (repr(a), repr(b), repr(c)), "sum([b, c], a) differs from (a+b)+c")
            ctx.check(Style.pick_first(None, a, b) is a and Style.pick_first(a) is a and Style.pick_first(None, None, c, None) is c, "Style.pick_first", (repr(a), repr(b)), "pick_first did not return the first non-None value itself")
            bs = a.background_style
            ctx.check(bs == Style(bgcolor=a.bgcolor) and hash(bs) == hash(Style(bgcolor=a.bgcolor)) and bs.bgcolor == a.bgcolor and bs.color is None and bs.link is None and all(getattr(bs, at) is None for at in ATTRS) and bool(bs) == (a.bgcolor is not None),
                      "Style.background_style", repr(a), "background_style is not Style(bgcolor=self.bgcolor)")
            ctx.check(a.transparent_background == (a.bgcolor is None or a.bgcolor.type == ColorType.DEFAULT), "Style.transparent_background", repr(a), "transparent_background is not `no background or the default colour`")
            ctx.check(a.copy() == a and a.update_link(a.link) == a, "Style.copy", repr(a), "copy / update_link(same link) changed the style")
            wc = a.without_color
            ctx.check(wc.color is None and wc.bgcolor is None and wc.link == a.link and all(getattr(wc, at) == getattr(a, at) for at in ATTRS), "Style.without_color", repr(a), "without_color changed more than the colours")
            ul = a.update_link("u")
            ctx.check(ul.link == "u" and ul.color == a.color and ul.bgcolor == a.bgcolor and all(getattr(ul, at) == getattr(a, at) for at in ATTRS), "Style.update_link", repr(a), "update_link changed more than the link")
        if lhs == rhs and i % 2 == 0:
            # equal styles reached by two different routes hash equally
            if hash(lhs) != hash(rhs):
                ctx.check(False, "Style.__add__", (repr(a), repr(b), repr(c)), "(a+b)+c == a+(b+c) but their hashes differ", finding="hash-add-takes-right-operand-hash")
            else:
                ctx.check(True, "Style.__add__", None, "")

    # ---- 7. pairs of construction routes to the same style: ==, hash, dict/set; model says the same
    n_specs = 2500 if quick else 60000
    for _ in range(n_specs):
        spec = pools.spec()
        routes = pools.routes_to(spec)
        objs = []
        for rt in routes:
            try:
                objs.append((rt, L.build(rt)))
            except Exception as e:  # noqa: BLE001
                raise RuntimeError(f"route generator produced a failing route {L.show(rt)}: {e!r}")
        ref_rt, ref = objs[0]
        picks = objs[1:] if len(objs) <= 6 else rng.sample(objs[1:], 5)
        for rt, o in picks:
            ctx.note("pair:" + rt[0])
            eq = o == ref
            ctx.check(eq, "routes-to-same-style", (L.show(ref_rt), L.show(rt)), f"two routes to the same style give unequal styles {ref!r} / {o!r}")
            heq = hash(o) == hash(ref)
            ctx.case("route_pair", [FLAGS, L.enc_route(ref_rt), L.enc_route(rt)], f"eq={int(eq)} hasheq={int(heq)}", shape=f"eq{int(eq)}h{int(heq)}", sample=f"{L.show(ref_rt)}  vs  {L.show(rt)}")
            if eq:
                # + respects ==: equal operands (whatever their _null flags / hashes / caches) give equal sums
                x = rng.choice(styles)
                if x.link != "":
                    ctx.check((ref + x == o + x) and (x + ref == x + o), "Style.__add__:respects-eq", (L.show(ref_rt), L.show(rt), repr(x)), "a == a' but a + x != a' + x or x + a != x + a'")
                d = {ref: "v"}
                behaves = heq and d.get(o) == "v" and o in {ref} and len({ref, o}) == 1
                if not behaves:
                    site, slug = blame(rt)
                    ctx.check(False, site or "Style.__hash__", (L.show(ref_rt), L.show(rt)), f"equal styles, hash equal: {heq}, found as dict key: {d.get(o) == 'v'}", finding=slug)
                else:
                    ctx.check(True, "Style.__hash__:pair", None, "")
        # near misses: exactly one compared field changed -> must be unequal (and the model must say so)
        c_, b_, kw_, link_ = spec
        k = rng.randrange(13)
        flipped = tuple((None if v is not None and rng.random() < 0.5 else (not v if v is not None else rng.random() < 0.5)) if j == k else v for j, v in enumerate(kw_))
        other_c = rng.choice([x for x in pools.canon_colors + pools.odd_colors if x != c_] + ([None] if c_ is not None else []))
        other_b = rng.choice([x for x in pools.canon_colors + pools.odd_colors if x != b_] + ([None] if b_ is not None else []))
        other_l = rng.choice([x for x in ["x", "y", "https://a.b/c?d=e", "X", None] if x != link_])
        carg = lambda x: None if x is None else ("C", x)
        for what, near in (("attribute", (c_, b_, flipped, link_)), ("color", (other_c, b_, kw_, link_)), ("bgcolor", (c_, other_b, kw_, link_)), ("link", (c_, b_, kw_, other_l))):
            nr = ("I", carg(near[0]), carg(near[1]), near[2], near[3])
            if rng.random() < 0.5:
                nr = rng.choice([("C", nr), ("T", nr), ("A", ("N",), nr), ("U", near[3], ("I", carg(near[0]), carg(near[1]), near[2], "q"))])
            no = L.build(nr)
            ne = no != ref and ref != no and not (no == ref)
            ctx.check(ne, "Style.__eq__:" + what, (L.show(ref_rt), L.show(nr)), f"styles differing in one {what} compare equal")
            ctx.case("route_pair", [FLAGS, L.enc_route(ref_rt), L.enc_route(nr)], f"eq={int(no == ref)} hasheq={int(hash(no) == hash(ref))}", shape="near:" + what)
        # random unrelated pair: the model must agree on == and on hash equality too
        r1, r2 = pools.route(2), pools.route(2)
        try:
            o1, o2 = L.build(r1), L.build(r2)
            ans = f"eq={int(o1 == o2)} hasheq={int(hash(o1) == hash(o2))}"
        except Exception as e:  # noqa: BLE001
            ans = L.enc_err(e)
        ctx.case("route_pair", [FLAGS, L.enc_route(r1), L.enc_route(r2)], ans, shape="random:" + ans[:4])
    ctx.flush()

    ctx.rule = (
        "Color.parse: every table name + case/space/near-miss variants, per-form bounded enumeration (#hex lengths 5-7, color(n) bodies, "
        "rgb component triples over 14 component classes) + seeded mutations; Style.parse/normalize: all 1-3 word definitions over the word pools "
        "+ seeded random definitions with random white space; colour constructors: from_ansi 0..259 + 1000, from_triplet boundary grid 15x4x4 + three 0..255 sweeps "
        "+ out-of-range, from_rgb over 14x4x3 quarter values, default, seeded random; routes: every unary constructor over 14 base styles, + over 21x21, 5 routes per "
        "constructor colour (258 numbers, 72 triplets), pick_first / sum corner cases, seeded random route terms of depth <= 4 (14 term kinds); route pairs: 10+ construction "
        "routes per random target style incl. constructor-built colours; distinct = distinct canonical requests"
    )


def replay(ctx, case):
    print("site:", case.get("site"))
    print("input:", case.get("input"))
    print("what:", case.get("what"))
    print("re-run `./check C06` to re-evaluate (the generators are seeded: VERIF_SEED=%s)" % case.get("seed"))
    return False


MANIFEST = {
    "text": "Lean 4 theorems (Props/C06.lean) about an executable model of rich.style.Style / Color.parse, unbounded over all styles "
    "(13 tri-state attributes as two bit masks x arbitrary colours x optional link), all construction routes and ALL code points "
    "(the parsers are parametric in the interpreter's character tables; every text theorem holds for every lawful table, and the tables "
    "translated from the running Python on each run are proved lawful — real_tables_lawful, decide +kernel over the regenerated tables): "
    "add_assoc ((a+b)+c = a+(b+c) as full object state, every variant), add_null_right/left, add_right_bias_attr/color/link, chain_is_fold, "
    "add_is_merge / add_respects_eq / empty_style_is_identity (the stored _null flag is unobservable through + and ==); "
    "parse_render_roundtrip / parse_str_roundtrip (parse(str(s)) == s for every style satisfying the decidable predicate Style.wf), "
    "parse_result_wf (every parse result satisfies it), parse_str_parse, normalize_roundtrip, normalize_idempotent (on definitions that parse); "
    "documented spellings: all 22 attribute words and `not <word>`, every ANSI_COLOR_NAMES entry (table translated from rich/color.py each run) "
    "alone and after `on`, color(n) for n<=255, default, #rrggbb for all hex digits of either case, rgb(r,g,b) for all r,g,b<=255; "
    "eq_hash: for every two styles reachable through __init__/from_color/parse/+/chain/combine/copy/update_link/without_color/str(), "
    "a == b implies equal stored hash keys (induction on the construction route); the remaining public constructors are modelled and inside the "
    "constructible styles: background_style_spec (= Style(bgcolor=self.bgcolor)), pick_first_combine_sum / pick_first_sum_reachable (pick_first returns the first "
    "non-None value itself, ValueError if none; combine = chain; sum(styles, start) = left fold of +), transparent_background_spec. "
    "Colour constructors as construction routes (Model/StyleCtor.lean: Color.from_ansi / from_triplet / from_rgb / default, ColorTriplet.hex / .rgb): "
    "from_ansi_is_parsed_color (Color.parse('color(n)') IS Color.from_ansi(n), field by field incl. ColorType, all n <= 255; from_ansi_out_of_range: 256 is not), "
    "from_triplet_is_parsed_hex (all 2^24 triplets; from_rgb of floats truncating to it), made_color_wf, made_color_routes_agree (Style(color=c), Style(color=c.name), "
    "Style.parse(c.name), Style.from_color(c), and the bgcolor / `on` / background_style forms are one style with one hash key), made_color_roundtrip. "
    "Links: link_word_verbatim (any one word after `link` - upper case, %, non-ASCII, any length - is stored verbatim; normalize keeps it), "
    "link_with_space_no_roundtrip (a link containing white space cannot round trip, whatever its str() parses to) + link_two_words_witness. "
    "Decide-checked witnesses for the six defects found "
    "(old_*_hash_wrong x4, old_update_link_stale_str, old_empty_link_breaks_identity). Tie: ~55k (quick) / ~1.1M (thorough) generated cases "
    "per run compared model-vs-rich on the full modelled state (fields, _null, _style_definition, str(), the 13 getters, stored-hash "
    "consistency, wf, transparent_background) — routes now include pick_first, sum(styles, start), background_style in the model, and colours built by the "
    "model's own Color.from_ansi (every number 0..259, 1000) / from_triplet (boundary grid + three 0..255 sweeps) / from_rgb (quarter-valued floats) / default, "
    "compared structurally (name, ColorType, number, triplet: request color_ctor, ~1.7k quick) and evaluated directly against an oracle written from the "
    "documentation (every in-range constructor colour: name parses back to the same four fields; 7-8 construction routes per colour and ground agree on ==, "
    "hash, dict/set and colour fields; wf; str() round trip) — over all code points (KELVIN SIGN, non-ASCII digits and white space, the int() 4300-digit limit), every entry of the "
    "character tables against the real str methods, plus the theorems' executable statements evaluated on real Style objects with "
    "model-independent oracles (keyword reconstruction, docs/source/appendix/colors.rst, dict/set behaviour).",
    "note": "Code variant flags (1 = rich 9.10.0 as found, 0 = repaired, what /repo contains): RGB_VALUEERROR=0 (F9, owned by C14, fix c34676b), "
    "ADD_HASH=0, FROM_COLOR_HASH=0, WITHOUT_COLOR_HASH=0, UPDATE_LINK_HASH=0 (F3-F6, fix a639ea2), UPDATE_LINK_DEF=0 (F26, fix cf948b2), "
    "EMPTY_LINK=0 (F30, fix c566893). All of these defects are fixed in /repo: known_findings.txt has no `known:` line for C06 and the check prints no "
    "KNOWN-FINDING lines. eq_hash / hash_from_fields need the four hash flags 0, parse_str_roundtrip needs UPDATE_LINK_DEF=0, add_null_left / "
    "add_is_merge / add_respects_eq / empty_style_is_identity need EMPTY_LINK=0 (add_null_left_of_link holds in every variant for links other than ''); "
    "every other theorem holds for every variant. "
    "Partial: hash() itself is the Python runtime — modelled by the tuple that is hashed; assumption `equal tuples hash equally`, and the harness "
    "compares hash equality with key equality on every route pair. str.lower() of a string containing GREEK CAPITAL SIGMA is context dependent "
    "(final-sigma rule): answered `unmodelled` (counted) while the direct evaluation still runs on it. lru_cache on parse/normalize assumed "
    "transparent; NULL_STYLE modelled in its steady state; _link_id and _ansi not modelled. The text round trip is stated for links that are None "
    "or one non-empty word (proved necessary: link_with_space_no_roundtrip). Colour constructors: negative / non-numeric arguments are outside the model "
    "(from_rgb components are sent as non-negative quarters); Style.pick_first with str values (returned as they are) and Style.test / render are not modelled; "
    "there is no Style.__radd__ (sum(styles) without a Style start raises TypeError) - only sum(styles, start) is modelled. The final-sigma target of deepening "
    "round 4 was NOT done: GREEK CAPITAL SIGMA requests are still `unmodelled` (direct evaluation runs on them, incl. links containing it). normalize is NOT idempotent on definitions that do not parse (`italic not Bold`: witness theorem "
    "normalize_not_idempotent_unparseable) — outside the statement. bool(style) follows the stored _null flag, which == ignores — outside the statement. "
    "Trusted: Lean kernel; axioms propext/Classical.choice/Quot.sound; translator plug-ins harness/gen/color_names.py and harness/gen/str_tables.py "
    "(the latter translates facts about CPython's str, re-validated on all code points each run); the correspondence harness.",
    "design_ref": "DESIGN.md section 7, C06; pre-findings F3-F6 (section 8) + F26 (update_link copies the cached _style_definition) + F30 (Style(link='') breaks the identity law)",
}
