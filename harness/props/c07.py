"""C07 — tables are rectangles that show every cell in its own column.

Correspondence: the Lean table model (Model/Table.lean; cells are oracles tabulated on real rich, see lib_table) vs
`Table._calculate_column_widths` and `Console.render(table)` character for character; the width arithmetic
(rich/_ratio.py, `_collapse_widths`) via lib_ratio; the padding rules of `_get_cells`/`_get_padding_width`; the row
builders of rich/box.py against the literals translated from rich/box.py.
Direct evaluation (3d): the executable statements of the theorems of Props/C07.lean on rich's own output
(rectangle, expand exactness, width fits, rows in order, every cell inside its column's span, fold keeps characters).
"""
import itertools

from core import enc_str
from lib_ratio import enc_ints, run_ratio
import lib_table
import lib_tablerows
from lib_table import Bundle

PROPERTY = "C07"

# CODE VARIANT FLAGS — the value that matches /repo as it is now (see Model/Table.lean `Flags`): 1 = rich 9.10.0 as found,
# 0 = repaired; all seven flags are repaired in /repo (fixes dd342b5, c798468, b5d172f, 1d61bac, ab98098, f955c6c, 75c2776), so every value is 0
# 1 = `_render` emits `get_row(widths, "mid") * leading` as ONE line (F16); 0 = one separator line per leading (fix dd342b5)
LEADING_REPEAT = int(__import__("os").environ.get("VERIF_C07_LEADING_REPEAT", "0"))
# 1 = `_calculate_column_widths` caps the pad target by `min_width - extra` even when the table expands; 0 = repaired (fix c798468)
MIN_WIDTH_CAPS_EXPAND = int(__import__("os").environ.get("VERIF_C07_MIN_WIDTH_CAPS_EXPAND", "0"))
# 1 = with ratio columns the width reserved for the other columns is sum(_range.maximum), not sum(_range.maximum or 1); 0 = repaired (fix b5d172f)
FIXED_RAW_MAXIMUM = int(__import__("os").environ.get("VERIF_C07_FIXED_RAW_MAXIMUM", "0"))
# 1 = `_calculate_column_widths` of a table WITHOUT columns reaches `ratio_distribute(.., [])` and its `assert total_ratio > 0`
#     (Table(expand=True) / Table(width=10) / Table(min_width=10) raise AssertionError); 0 = `return []` at once
#     (fix 1d61bac = pending_fixes/C14-table-no-columns.diff)
NO_COLUMNS_ASSERTS = int(__import__("os").environ.get("VERIF_C07_NO_COLUMNS_ASSERTS", "0"))
# 1 = flexible widths are used as ratio_distribute returns them (a trailing ratio=0 column gets what is left: negative when there
#     is no room, so widths can be negative / sum to 0 and the final ratio_distribute asserts); 0 = clamped with max(0, width)
#     (fix ab98098 = pending_fixes/C14-table-flexible-width-nonnegative.diff)
FLEX_NEGATIVE = int(__import__("os").environ.get("VERIF_C07_FLEX_NEGATIVE", "0"))
# 1 = `table_width` is not recomputed after the collapse block re-measures the columns, so an expanding table whose columns shrank
#     on the re-measure is never padded back to max_width; 0 = `table_width = sum(widths)` after the re-measure
#     (fix f955c6c = pending_fixes/C07-table-expand-stale-width.diff)
STALE_TABLE_WIDTH = int(__import__("os").environ.get("VERIF_C07_STALE_TABLE_WIDTH", "0"))
# 1 = (read only when FLEX_NEGATIVE = 0) the flexible widths are clamped with max(0, width), the clamp fix ab98098 put in: a zero-ratio
#     column that finds no room gets 0 cells, and one back from the `maximum or 1` re-measure after the collapse, so an expanding table
#     is ONE CELL TOO WIDE; 0 = max(minimum, width): a zero-ratio column keeps its flex minimum like every other flexible column
#     (fix 75c2776 = pending_fixes/C01-table-ratio-zero-column.diff)
FLEX_CLAMP_ZERO = int(__import__("os").environ.get("VERIF_C07_FLEX_CLAMP_ZERO", "0"))
FLAGS = (LEADING_REPEAT, MIN_WIDTH_CAPS_EXPAND, FIXED_RAW_MAXIMUM, NO_COLUMNS_ASSERTS, FLEX_NEGATIVE, STALE_TABLE_WIDTH, FLEX_CLAMP_ZERO)

BOXES = [None, "HEAVY_HEAD", "CUSTOM", "ASCII", "SQUARE", "MINIMAL", "SIMPLE", "ROUNDED", "DOUBLE_EDGE", "HORIZONTALS", "SIMPLE_HEAVY",
         "MINIMAL_DOUBLE_HEAD", "ASCII_DOUBLE_HEAD", "HEAVY", "DOUBLE", "SQUARE_DOUBLE_HEAD", "MINIMAL_HEAVY_HEAD", "SIMPLE_HEAD",
         "HEAVY_EDGE", "ASCII2"]
PADDINGS = [(0, 1), (0, 0), (1, 1), (0, 2, 0, 1), (1, 0, 1, 3), (0, 0, 0, 2), (1, 2), (0, 3, 1, 0), 2, (1,)]
TEXTS = ["a", "bb", "", "ccc dd", "some longer words in a cell", "あい", "あ b いう", "x\ny", "one two\nthree", "ẍy z", "averyveryverylongword",
         "x  y", "あいうえおかき", "q\n\nr",
         # an over-long double-width word that must be folded, then a short word (len() != cell_len() after the fold)
         "あいうえおかきくけこ ab", "ｗｉｄｅｗｏｒｄｓ go on", "xあいうえおかきy z", "ab あいうえおかきくけこさし c d"]
# words separated by NON-ASCII whitespace (U+3000 IDEOGRAPHIC SPACE: one character, two cells; U+00A0, U+2003: one cell), zero-width
# U+200B inside words (not whitespace: it must survive), wide characters that are a one-entry range of the width table (U+2B50, U+2705,
# U+2B55: boundary cases of the lookup) - wherever len() and cell_len() of the WHITESPACE or of the last character differ
SPACE_TEXTS = ["你好\u3000世界\u3000再见", "ab\u3000cd\u3000ef", "abc\u00a0def\u00a0gh", "一二\u2003三四\u2003五", "ab\u200bcd ef\u200bgh\u3000i",
               "ab\u2b50 cd\u2705 \u2b50\u2b50 x", "\u2705\u3000\u2b50\u3000ok\u3000\u2b55", "x\u3000\u3000y\u00a0\u2003z", "\u3000lead 尾\u3000", "好\u3000\u3000\u3000界 a\u3000"]
# one unbreakable word made of SEVERAL differently styled segments, double-width characters in a non-final one
MARKUP_WORDS = ["[b]一二三[/b]abcdefgh", "ab[i]한글한글[/i]cd[u]漢字[/u]efghij", "[red]あいうえお[/red]x[b]y[/b]", "pre [b]一二[/b]三四五六 post"]
WIDE_WORDS = ["あいうえおかきくけこ ab", "ｗｉｄｅｗｏｒｄｓ go on", "ab あいうえおかきくけこさし c d", "averyveryverylongword ab", "あいう"]
# the ConsoleOptions the table is rendered WITH (console.print(table, no_wrap=True), a parent's options, ...)
RENDER_OPTS = [{"no_wrap": True}, {"no_wrap": None}, {"no_wrap": True, "overflow": "crop"}, {"justify": "right"}, {"justify": "center", "overflow": "ellipsis"},
               {"overflow": "fold", "no_wrap": True, "justify": "full"}, {"highlight": True}, {"highlight": True, "no_wrap": True}]


def cell_of(rng, nested=True):
    r = rng.random()
    if r < 0.08:
        return ("s", rng.choice(SPACE_TEXTS))
    if r < 0.56:
        return ("s", rng.choice(TEXTS))
    if r < 0.62:
        return ("m", rng.choice(MARKUP_WORDS))
    if r < 0.80:
        return ("t", rng.choice(TEXTS), rng.choice([None, "left", "right", "center", "full"]))
    if not nested or r < 0.84:
        return ("none",)
    if r < 0.90:
        return ("panel", rng.choice(TEXTS[:8]))
    if r < 0.93:
        return ("fit", rng.choice(TEXTS[:6]))
    if r < 0.95:
        return ("ntable", [rng.choice(WIDE_WORDS + TEXTS[:6]) for _ in range(rng.choice([1, 2]))])
    if r < 0.975:
        return ("table", rng.choice([1, 2]))
    return ("pad", rng.choice(TEXTS[:8]), rng.choice([1, 2]))


def base_spec(rng, ncols, nrows, nested=True, plain_cols=False):
    cols = []
    for _ in range(ncols):
        c = {"header": cell_of(rng, nested), "footer": cell_of(rng, nested)}
        if not plain_cols:
            c["justify"] = rng.choice(["left", "left", "right", "center", "full"])
            c["overflow"] = rng.choice(["fold", "fold", "crop", "ellipsis", "ignore"])
            c["no_wrap"] = rng.random() < 0.15
        else:
            c["overflow"] = "fold"
        cols.append(c)
    rows = [{"cells": [cell_of(rng, nested) for _ in range(ncols)], "end_section": rng.random() < 0.2} for _ in range(nrows)]
    for c in cols:
        if c["header"][0] == "none":
            c["header"] = ("s", "")
        if c["footer"][0] == "none":
            c["footer"] = ("s", "")
    return {"cols": cols, "rows": rows, "opts": {}, "avail": 20}


def random_opts(rng):
    o = {
        "box": rng.choice(BOXES[:5] + BOXES),
        "show_header": rng.random() < 0.75,
        "show_footer": rng.random() < 0.35,
        "show_edge": rng.random() < 0.7,
        "show_lines": rng.random() < 0.3,
        "leading": rng.choice([0, 0, 0, 1, 2, 3]),
        "pad_edge": rng.random() < 0.7,
        "collapse_padding": rng.random() < 0.3,
        "expand": rng.random() < 0.4,
        "title": rng.choice([None, None, "T", "A longer title for the table", ""]),
        "caption": rng.choice([None, None, None, "cap", "caption that is long enough to wrap"]),
        "title_justify": rng.choice(["center", "left", "right"]),
    }
    return o


def column_options(rng, spec, level):
    """per-column width options; level 0 = none, 1 = some"""
    for c in spec["cols"]:
        for k in ("width", "min_width", "max_width", "ratio"):
            c.pop(k, None)
        if level and rng.random() < 0.5:
            k = rng.choice(["width", "min_width", "max_width", "ratio", "ratio", "width+ratio", "min+max"])
            if k == "width":
                c["width"] = rng.choice([0, 1, 3, 6, 10])
            elif k == "min_width":
                c["min_width"] = rng.choice([0, 2, 5, 9])
            elif k == "max_width":
                c["max_width"] = rng.choice([0, 1, 4, 8])
            elif k == "ratio":
                c["ratio"] = rng.choice([0, 1, 1, 2, 3])
            elif k == "width+ratio":
                c["width"] = rng.choice([0, 2, 5])
                c["ratio"] = rng.choice([1, 2])
            else:
                c["min_width"] = rng.choice([2, 5])
                c["max_width"] = rng.choice([3, 8])


def structural_min(spec):
    """borders + one cell per column (the statement's 'structural minimum' for wrappable columns)"""
    o = spec["opts"]
    n = len(spec["cols"])
    extra = 0
    if o.get("box") is not None:
        extra = (n - 1) + (2 if o.get("show_edge", True) else 0)
    return extra + n


def natural_width(spec):
    """width of the table when nothing constrains it (not expanding, no explicit width / min_width)"""
    spec = dict(spec, opts=dict(spec["opts"], expand=False, width=None, min_width=None))
    t = lib_table.build_table(spec)
    console = lib_table.make_console(200)
    try:
        return sum(t._calculate_column_widths(console, 200 - t._extra_width)) + t._extra_width
    except Exception:
        return 30


def run_small(ctx):
    """padding rules, padding width, box rows: bounded-exhaustive."""
    from rich import box as rbox
    from rich.table import Table

    console = lib_table.make_console(40)
    pads = [(0, 0, 0, 0), (0, 1, 0, 1), (1, 2, 0, 1), (2, 1, 1, 3), (0, 3, 2, 0), (1, 0, 0, 0), (0, 0, 1, 0), (3, 1, 1, 1)]
    for pad in pads:
        for pe, cp in itertools.product([False, True], repeat=2):
            for ncols in (1, 2, 3):
                for nrows in (0, 1, 2, 3):
                    for sh, sf in itertools.product([False, True], repeat=2):
                        t = Table(*["h"] * ncols, padding=pad, pad_edge=pe, collapse_padding=cp, show_header=sh, show_footer=sf)
                        for _ in range(nrows):
                            t.add_row(*["c"] * ncols)
                        for ci, column in enumerate(t.columns):
                            cells = list(t._get_cells(console, ci, column))
                            for ri, cell in enumerate(cells):
                                r = cell.renderable
                                got = "-" if isinstance(r, str) else f"{r.top} {r.right} {r.bottom} {r.left}"
                                ctx.case("table.cell_padding", [*pad, int(pe), int(cp), int(ci == 0), int(ci == ncols - 1), int(ri == 0), int(ri == len(cells) - 1)],
                                         got, shape=f"pe{int(pe)}cp{int(cp)}", sample=f"Table(padding={pad},pad_edge={pe},collapse_padding={cp})._get_cells col {ci}/{ncols} row {ri}/{len(cells)}")
                            ctx.case("table.padding_width", [*pad, int(cp), ci], t._get_padding_width(ci), sample=f"Table(padding={pad},collapse_padding={cp})._get_padding_width({ci})")
    from rich.cells import cell_len

    names = sorted(n for n in dir(rbox) if isinstance(getattr(rbox, n), rbox.Box))
    width_sets = [[], [0], [3], [1, 2], [2, 0, 1], [4, 1, 1, 2]]
    for name in names:
        bx = getattr(rbox, name)
        ctx.check(all(cell_len(ch) == 1 for line in str(bx).splitlines() for ch in line) and [len(l) for l in str(bx).splitlines()] == [4] * 8,
                  "box-literal-shape", name, "a box literal is not 8 lines of 4 characters of cell width 1")
        for ws in width_sets:
            ctx.case("box.row", [name, "top", 1, enc_ints(ws)], enc_str(bx.get_top(ws)), sample=f"box.{name}.get_top({ws})")
            ctx.case("box.row", [name, "bottom", 1, enc_ints(ws)], enc_str(bx.get_bottom(ws)), sample=f"box.{name}.get_bottom({ws})")
            for level in ("head", "row", "mid", "foot"):
                for edge in (0, 1):
                    got = bx.get_row(ws, level, edge=bool(edge))
                    ctx.case("box.row", [name, level, edge, enc_ints(ws)], enc_str(got), sample=f"box.{name}.get_row({ws},{level!r},edge={bool(edge)})")
                    ctx.check(cell_len(got) == sum(ws) + max(len(ws) - 1, 0) + 2 * edge, "box_row_width", (name, level, edge, ws), f"get_row gives {got!r}")
    ctx.flush()


def run_collapse_keep(ctx):
    """The fact proved as `collapse_widths_keep` (hypothesis `hkeep` of `width_fits_of_keep`): when every column may wrap, every width is >= 1
    and max_width >= the number of columns, `_collapse_widths` leaves every column at least one cell (and, with the model,
    sums to exactly max_width).  Evaluated on the real function: exhaustive for <= 4 columns of widths 1..6, seeded beyond."""
    from rich.table import Table

    def one(widths, mw):
        got = Table._collapse_widths(list(widths), [True] * len(widths), mw)
        ctx.case("ratio.collapse", [enc_ints(widths), enc_ints([1] * len(widths)), mw], enc_ints(got), shape="keep")
        ctx.check(all(g >= 1 for g in got) and (sum(got) == mw if sum(widths) > mw else list(got) == list(widths)),
                  "collapse_keeps_one_cell", (widths, mw), f"_collapse_widths({list(widths)}, all wrappable, {mw}) = {got}")

    for n in range(1, 5):
        for widths in itertools.product(range(1, 7 if n < 4 else 5), repeat=n):
            for mw in range(n, sum(widths) + 1):
                one(widths, mw)
    rng = ctx.rng
    for _ in range(3000 if ctx.quick else 60000):
        n = rng.randint(1, 8)
        widths = [rng.choice([1, 1, 2, 3, 5, 8, 13, 30, 31, 32, 64]) for _ in range(n)]
        one(widths, rng.randint(n, max(n, sum(widths))))
    ctx.flush()


def history_befores(spec):
    """every EARLIER state (kind, spec_before) from which the same table object reaches `spec` by one change a user can make between
    two renders: an option set, a column attribute or header / footer replaced, a cell replaced, a row or a column added"""
    import copy

    def base():
        b = copy.deepcopy({k: v for k, v in spec.items() if k not in ("pre", "avail")})
        return b

    out = []
    o = spec["opts"]
    for k in ("pad_edge", "show_header", "show_footer", "show_edge", "collapse_padding", "show_lines", "expand"):
        b = base()
        b["opts"][k] = not o.get(k, lib_table.OPT_DEFAULTS[k])
        out.append((k, b))
    for k, alts in (("padding", [(0, 1), (0, 0), (1, 2), (0, 3, 0, 1)]), ("box", [None, "ASCII", "HEAVY_HEAD", "MINIMAL"]),
                    ("min_width", [None, 9, 30]), ("width", [None, 14]), ("leading", [0, 1])):
        cur = o.get(k, lib_table.OPT_DEFAULTS[k])
        for alt in alts:
            if alt != (tuple(cur) if isinstance(cur, list) else cur):
                b = base()
                b["opts"][k] = alt
                out.append((k, b))
                break
    early = [i for i, c in enumerate(spec["cols"]) if not c.get("late")]
    for i in early[:2] + early[-1:]:
        for k, alt in (("header", ("s", "other header text")), ("footer", ("s", "ff")), ("min_width", 7), ("max_width", 3), ("width", 5), ("no_wrap", True)):
            b = base()
            if b["cols"][i].get(k) == alt:
                continue
            b["cols"][i][k] = alt
            if k in ("min_width", "max_width", "width", "no_wrap") and spec["cols"][i].get(k) not in (None, False):
                b["cols"][i].pop(k)
            out.append(("column." + k, b))
    if spec["rows"] and not spec.get("has_extra"):
        b = base()
        b["rows"] = b["rows"][:-1]
        b["cols"] = [c for c in b["cols"] if not c.get("late")]     # a column added after the rows comes after this row too
        out.append(("add_row", b))
        b = base()
        r = b["rows"][0]
        if r["cells"]:
            r["cells"][0] = ("s", "a replaced cell with several words") if r["cells"][0] != ("s", "a replaced cell with several words") else ("s", "z")
            out.append(("cell", b))
    if spec["cols"] and spec["cols"][-1].get("late"):
        b = base()
        b["cols"] = b["cols"][:-1]
        out.append(("add_column", b))
    return out


def with_history(rng, spec):
    """spec, to be rendered as the SECOND render of an object first rendered in a neighbouring state (same or another width)"""
    if spec.get("has_extra") or spec.get("via_grid") or not spec["cols"]:
        return spec
    kind, before = rng.choice(history_befores(spec))
    return dict(spec, pre={"kind": kind, "spec": before, "avail": spec["avail"] if rng.random() < 0.6 else max(1, spec["avail"] + rng.choice([-5, -2, 3, 9]))})


def widths_for(rng, spec, count, dense):
    smin = structural_min(spec)
    nat = natural_width(spec)
    cands = list(range(smin, min(smin + dense, 61))) + [min(max(nat + d, smin), 60) for d in (-3, -1, 0, 1, 4)]
    cands += [rng.randint(smin, max(smin, min(nat + 8, 60))) for _ in range(count)]
    out = []
    for w in cands:
        if w not in out:
            out.append(w)
    rng.shuffle(out)
    return out[:count]


def table_jobs(ctx):
    """the list of bundle jobs (wtab, flags, [spec, ...]) — everything random is drawn here, from ctx.rng"""
    rng = ctx.rng
    quick = ctx.quick
    jobs = []
    # ---- A: one factor at a time (and interacting pairs) around plain small tables, every width from the structural
    #         minimum up (the bounded-exhaustive part)
    contents = [(1, 1), (2, 2), (3, 1), (2, 0), (2, 1)]
    factor_values = {
        "box": BOXES if not quick else BOXES[:8],
        "show_header": [False], "show_footer": [True], "show_edge": [False], "show_lines": [True],
        "leading": [1, 2, 3], "pad_edge": [False], "collapse_padding": [True], "expand": [True],
        "padding": PADDINGS[1:], "title": ["T", "A longer title for the table"], "caption": ["caption text"],
        "min_width": [6, 14, 30], "width": [8, 17],
    }
    for ci_, (ncols, nrows) in enumerate(contents):
        spec = base_spec(rng, ncols, nrows, nested=False, plain_cols=True)
        if ci_ == 1:
            # fold columns holding over-long wide words followed by short ones, and a nested folding table in a no_wrap column
            spec["rows"][0]["cells"] = [("s", WIDE_WORDS[0]), ("t", WIDE_WORDS[2], None)]
            spec["rows"][1]["cells"] = [("ntable", [WIDE_WORDS[1], "ab cd"]), ("s", WIDE_WORDS[3])]
            spec["cols"][0]["no_wrap"] = False
        if ci_ == 4:
            # nested folding tables inside columns that do NOT fold themselves (no_wrap / crop / ellipsis): the inner column's own
            # settings must win over the options the outer column hands down
            spec["cols"][0].update(no_wrap=True, overflow="crop", justify="right")
            spec["cols"][1].update(no_wrap=False, overflow="ellipsis", justify="center")
            spec["rows"][0]["cells"] = [("ntable", [WIDE_WORDS[0], "ab cd"]), ("ntable", [WIDE_WORDS[3]])]
        variants = [{}]
        for k, vals in factor_values.items():
            variants += [{k: v} for v in vals]
        variants += [{"box": "SQUARE", "leading": 2, "show_lines": True}, {"show_header": False, "show_footer": True},
                     {"show_footer": True, "show_lines": True}, {"show_footer": True, "leading": 1}, {"box": None, "show_edge": False},
                     {"pad_edge": False, "collapse_padding": True, "padding": (1, 2, 1, 3)}, {"expand": True, "min_width": 8},
                     {"expand": True, "box": None}, {"box": "ASCII", "show_edge": False, "show_lines": True},
                     {"width": 17, "min_width": 6}, {"width": 20, "min_width": 30}, {"width": 12, "min_width": 8, "box": None},
                     {"width": 15, "min_width": 5, "show_edge": False, "box": "SQUARE"}, {"width": 24, "min_width": 12, "expand": False},
                     {"box": "CUSTOM", "show_footer": True, "show_lines": True}, {"box": "CUSTOM", "show_footer": True, "leading": 1},
                     {"box": "CUSTOM", "show_header": False, "show_edge": False, "show_lines": True}]
        specs = []
        for ov in variants + [{"_ro": ro} for ro in RENDER_OPTS] + [{"_ro": ro, "title": "A longer title for the table", "box": None} for ro in RENDER_OPTS[:3]]:
            ov = dict(ov)
            ro = ov.pop("_ro", None)
            s = dict(spec, opts=dict(ov))
            if ro is not None:
                s["render_opts"] = ro
            smin = structural_min(s)
            nat = natural_width(s)
            top = min(max(nat + 3, smin + 4), 36)
            ws = range(smin, top + 1) if not quick else sorted(set(list(range(smin, min(smin + 4, top + 1))) + [min(top, max(smin, nat - 2)), min(top, max(smin, nat)), top]))
            specs += [dict(s, avail=w) for w in ws]
        for i in range(0, len(specs), 60):
            jobs.append((40, FLAGS, specs[i:i + 60]))
    # ---- A2: ratio (flexible) columns of an expanding table next to fixed / empty / capped columns, every width
    ratio_specs = []
    for cols in (
        [{"header": ("s", "abc"), "footer": ("s", ""), "ratio": 1}, {"header": ("s", ""), "footer": ("s", "")}],
        [{"header": ("s", "abc def"), "footer": ("s", ""), "ratio": 2}, {"header": ("s", "x"), "footer": ("s", ""), "ratio": 1}, {"header": ("s", "kk"), "footer": ("s", "")}],
        [{"header": ("s", "ab"), "footer": ("s", ""), "ratio": 1, "width": 4}, {"header": ("s", "some words here"), "footer": ("s", "")}],
        [{"header": ("s", ""), "footer": ("s", ""), "ratio": 1}, {"header": ("s", "q"), "footer": ("s", ""), "ratio": 3, "min_width": 3}, {"header": ("s", ""), "footer": ("s", ""), "max_width": 2}],
        # a ratio column whose share is below its flex minimum (1 + padding): collapse, then the re-measure shrinks it
        [{"header": ("s", "aaaa"), "footer": ("s", "")}, {"header": ("s", ""), "footer": ("s", ""), "ratio": 1}],
    ):
        for c in cols:
            c["overflow"] = "fold"
        rows = [{"cells": [("s", "x" if i == 0 else "") for i in range(len(cols))], "end_section": False}]
        for ov in ({"expand": True, "padding": (0, 0), "box": None, "show_header": False}, {"expand": True}, {"expand": True, "padding": (0, 0)},
                   {"expand": True, "padding": (0, 2, 0, 1), "collapse_padding": True, "box": "HORIZONTALS"}, {"expand": True, "padding": (0, 3), "box": None},
                   {"width": 24, "padding": (0, 0), "box": "ASCII"}, {"expand": False, "padding": (0, 0)}):
            s = {"cols": cols, "rows": rows, "opts": dict(ov)}
            smin = structural_min(s)
            ratio_specs += [dict(s, avail=w) for w in (range(smin, 34) if not quick else list(range(smin, smin + 5)) + [20, 30])]
    for i in range(0, len(ratio_specs), 60):
        jobs.append((40, FLAGS, ratio_specs[i:i + 60]))
    # ---- A3: tables WITHOUT columns, and ratio=0 columns at very narrow widths (the two assertion defects found by C14)
    edge_specs = []
    for ov in ({}, {"expand": True}, {"width": 10}, {"min_width": 10}, {"box": None, "expand": True}, {"show_edge": False}, {"title": "T", "expand": True},
               {"box": "ASCII", "show_header": False, "caption": "cap"}, {"width": 0}, {"min_width": 0}, {"expand": True, "min_width": 3, "width": 4}):
        for w in (0, 1, 2, 3, 7, 20):
            edge_specs.append({"cols": [], "rows": [], "opts": dict(ov), "avail": w})
    for cols in (
        [{"header": ("s", ""), "footer": ("s", ""), "ratio": 1}, {"header": ("s", ""), "footer": ("s", ""), "ratio": 0}],
        [{"header": ("s", "ab"), "footer": ("s", ""), "ratio": 2}, {"header": ("s", "c"), "footer": ("s", ""), "ratio": 0}, {"header": ("s", "some words"), "footer": ("s", "")}],
        [{"header": ("s", "x"), "footer": ("s", ""), "ratio": 0}, {"header": ("s", "yy"), "footer": ("s", ""), "ratio": 1}],
        [{"header": ("s", "abc"), "footer": ("s", ""), "ratio": 0}, {"header": ("s", ""), "footer": ("s", ""), "ratio": 0}],
    ):
        for c in cols:
            c["overflow"] = "fold"
        rows = [{"cells": [("s", "q" if i == 0 else "") for i in range(len(cols))], "end_section": False}]
        for ov in ({"expand": True, "min_width": 5, "padding": (0, 0), "pad_edge": False}, {"expand": True, "padding": (0, 0)},
                   {"expand": True}, {"expand": True, "box": None, "padding": (0, 0), "min_width": 5}, {"width": 6, "padding": (0, 0)},
                   {"expand": True, "show_edge": False, "padding": (0, 0), "min_width": 2}):
            for r in ([], rows):
                for w in list(range(0, 12)) + [16, 25]:
                    edge_specs.append({"cols": cols, "rows": r, "opts": dict(ov), "avail": w})
    for i in range(0, len(edge_specs), 80):
        jobs.append((40, FLAGS, edge_specs[i:i + 80]))
    # ---- A3b: EXPANDING tables whose columns carry min_width / no_wrap / width / max_width, at every available width from two below
    #          the structural minimum of the theorems (natural widths of the unshrinkable columns + 1 per shrinkable one) to past the
    #          natural width (table_expand_exact_no_wrap / _above_floors; the min_width floor the collapse goes below)
    kind_specs = []
    long_a, long_b, short = ("s", "aa aa aa aa aa"), ("s", "bb bbb bb bb bb"), ("s", "cc")
    for cols in (
        [{"no_wrap": True}, {}], [{}, {"no_wrap": True}], [{"no_wrap": True}, {"no_wrap": True}], [{"no_wrap": True}, {}, {"max_width": 4}],
        [{"min_width": 10}, {}], [{}, {"min_width": 10}], [{"min_width": 3}, {}], [{"min_width": 10}, {"min_width": 12}],
        [{"min_width": 8, "no_wrap": True}, {}], [{"min_width": 6}, {"no_wrap": True}, {}], [{"width": 5}, {"min_width": 9}, {}],
        [{"min_width": 20}, {}], [{"width": 4}, {"no_wrap": True}],
    ):
        cols = [dict({"header": ("s", "h%d" % i), "footer": ("s", ""), "overflow": "fold"}, **c) for i, c in enumerate(cols)]
        cells = [long_a, long_b, short][:len(cols)]
        rows = [{"cells": cells, "end_section": False}]
        for ov in ({"expand": True, "box": None, "padding": (0, 0), "show_header": False}, {"expand": True}, {"expand": True, "box": "ASCII", "padding": (0, 2, 0, 1), "collapse_padding": True},
                   {"width": 26, "box": "SQUARE"}, {"expand": True, "min_width": 12, "show_edge": False}):
            s = {"cols": cols, "rows": rows, "opts": dict(ov)}
            smin = structural_min(s)
            nat = min(natural_width(s), 44)
            wsq = sorted(set([smin, smin + 3, max(smin, nat // 2), max(smin, nat - 6), max(smin, nat - 3), max(smin, nat - 1), nat, nat + 2]))
            kind_specs += [dict(s, avail=w) for w in (range(smin, nat + 3) if not quick else wsq)]
    for i in range(0, len(kind_specs), 70):
        jobs.append((48, FLAGS, kind_specs[i:i + 70]))
    # ---- A3c: fold columns whose words are separated by non-ASCII whitespace / hold zero-width and range-final wide characters, at EVERY
    #          available width from the structural minimum to past the natural width (so every break position is hit, in particular
    #          words exactly filling the column with the wide space overhanging): fold_keeps_characters against the SOURCE text
    space_specs = []
    for ti, txt in enumerate(SPACE_TEXTS):
        for cols, cells in (
            ([{"header": ("s", ""), "footer": ("s", ""), "overflow": "fold"}], [("s", txt)]),
            ([{"header": ("s", "h"), "footer": ("s", ""), "overflow": "fold"}, {"header": ("s", txt), "footer": ("s", ""), "overflow": "fold", "justify": "right"}],
             [("t", txt, None), ("s", SPACE_TEXTS[(ti + 1) % len(SPACE_TEXTS)])]),
        ):
            rows = [{"cells": cells, "end_section": False}]
            for ov in ({"box": None, "padding": (0, 0), "show_header": False}, {"box": "SQUARE"}):
                if len(cols) == 2 and "show_header" in ov:
                    ov = dict(ov, show_header=True)
                s = {"cols": cols, "rows": rows, "opts": dict(ov)}
                smin = structural_min(s)
                nat = min(natural_width(s), 46)
                space_specs += [dict(s, avail=w) for w in range(smin, nat + 2)]
    for i in range(0, len(space_specs), 70):
        jobs.append((48, FLAGS, space_specs[i:i + 70]))
    # ---- A4: Column objects handed to the constructor (their `_index` is assigned by Table.__init__), fixed widths, collapsing padding
    #         with left > right (where the first column differs from the others); Table.grid; consoles that substitute the box
    #         (legacy_windows / ascii_only / safe_box); cells whose renderables raise
    misc = []
    for ncols in (1, 2, 3):
        cols = [{"header": ("s", "h%d" % i), "footer": ("s", ""), "width": 2 + i, "overflow": "fold"} for i in range(ncols)]
        rows = [{"cells": [("s", "x")] * ncols, "end_section": False}]
        for pad in ((0, 1, 0, 3), (0, 0, 0, 2), (0, 3, 0, 1), (1, 2)):
            for cp in (False, True):
                for via in (False, True):
                    for w in (8, 30):
                        misc.append({"cols": cols, "rows": rows, "opts": {"padding": pad, "collapse_padding": cp, "box": "ASCII"},
                                     "via_column_objects": via, "avail": w})
    gcols = [{"header": ("s", ""), "footer": ("s", ""), "overflow": "fold"}, {"header": ("s", ""), "footer": ("s", ""), "overflow": "fold", "ratio": 1},
             {"header": ("s", ""), "footer": ("s", ""), "overflow": "fold", "justify": "right"}]
    grows = [{"cells": [("s", "left"), ("s", "the middle cell has words"), ("s", "r")], "end_section": False},
             {"cells": [("s", "あい"), ("none",), ("t", "x\ny", None)], "end_section": True}]
    for g in ({}, {"expand": True}, {"padding": 1}, {"padding": (0, 2), "collapse_padding": False}, {"pad_edge": True, "expand": True, "padding": (1, 1)}):
        for w in (3, 6, 11, 20, 33):
            misc.append({"cols": gcols, "rows": grows, "opts": {}, "via_grid": dict(g), "avail": w})
    bcols = [{"header": ("s", "a"), "footer": ("s", "f"), "overflow": "fold"}, {"header": ("s", "bb"), "footer": ("s", ""), "overflow": "fold"}]
    brows = [{"cells": [("s", "some words"), ("s", "y")], "end_section": True}, {"cells": [("s", "z"), ("panel", "in")], "end_section": False}]
    for env in ({"legacy_windows": True}, {"ascii": True}, {"legacy_windows": True, "ascii": True}, {"legacy_windows": True, "console_safe_box": False}):
        for box in ("HEAVY_HEAD", "ROUNDED", "SQUARE", "ASCII2", "CUSTOM", "DOUBLE", "HEAVY_EDGE", None):
            for sb in (None, True, False):
                misc.append({"cols": bcols, "rows": brows, "opts": {"box": box, "safe_box": sb, "show_footer": True, "show_lines": True},
                             "env": dict(env), "avail": 18})
    for mode in ("measure", "render", "both", "narrow"):
        for where in ("header", "cell", "footer-hidden", "late-row"):
            cols = [{"header": ("s", "a"), "footer": ("s", ""), "overflow": "fold"}, {"header": ("s", "b"), "footer": ("s", ""), "overflow": "fold"}]
            rows = [{"cells": [("s", "some words"), ("s", "y")], "end_section": False}, {"cells": [("s", "z"), ("s", "w")], "end_section": False}]
            if where == "header":
                cols[1]["header"] = ("boom", mode)
            elif where == "cell":
                rows[0]["cells"] = [("s", "some words"), ("boom", mode)]
            elif where == "footer-hidden":
                cols[0]["footer"] = ("boom", mode)      # show_footer is off: never consulted, the table must NOT raise
            else:
                rows[1]["cells"] = [("boom", mode), ("s", "w")]
            for ov in ({}, {"width": 6}, {"expand": True}, {"show_header": False}):
                for w in (4, 9, 25):
                    misc.append({"cols": cols, "rows": rows, "opts": dict(ov, box="ASCII"), "avail": w})
    # cells that must be CROPPED: an unbreakable multi-segment word (markup) with wide characters in a column that does not fold
    for ov_col in ("ignore", "crop", "ellipsis"):
        for word in MARKUP_WORDS:
            cols = [{"header": ("s", "h"), "footer": ("s", ""), "overflow": ov_col}, {"header": ("s", "k"), "footer": ("s", ""), "overflow": "fold"}]
            rows = [{"cells": [("m", word), ("s", "xy")], "end_section": False}]
            for ov in ({"box": "SQUARE", "expand": True}, {"box": None}, {"box": "ASCII", "padding": (0, 0)}):
                for w in range(8, 21, 2):
                    misc.append({"cols": cols, "rows": rows, "opts": dict(ov), "avail": w})
    # add_row with TWO OR MORE surplus cells on a table that already has rows: each created column gets its own back-fill
    for n0 in (1, 2):
        cols = [{"header": ("s", "c%d" % i), "footer": ("s", ""), "overflow": "fold"} for i in range(n0)]
        rows = [{"cells": [("s", "r0")] * n0, "end_section": False},
                {"cells": [("s", "r1")] * n0, "extra": [("s", "x1"), ("s", "y1")], "end_section": False},
                {"cells": [("s", "r2")] * n0, "extra": [("s", "x2"), ("s", "y2"), ("s", "z2"), ("s", "w2")], "end_section": False},
                {"cells": [("s", "r3")] * n0, "extra": [("s", "x3")], "end_section": False}]
        for ov in ({"box": "ASCII"}, {"box": None, "show_header": False}, {"box": "SQUARE", "show_lines": True}):
            for w in (12, 30, 50):
                misc.append({"cols": cols, "rows": rows, "opts": dict(ov), "has_extra": True, "avail": w})
    # RE-RENDER histories: the same Table object rendered, changed in one respect, rendered again (same width and another one): the
    # second render must be what a freshly built table in the final state renders, and satisfy every clause of the property
    for hcols, hrows, hopts in (
        ([{"header": ("s", "h"), "footer": ("s", "f"), "overflow": "fold"}, {"header": ("s", "k"), "footer": ("s", "g"), "overflow": "fold"}],
         [{"cells": [("s", "a"), ("s", "b")], "end_section": False}, {"cells": [("s", "c"), ("s", "d")], "end_section": False}], {"box": "ASCII"}),
        ([{"header": ("s", "name"), "footer": ("s", ""), "overflow": "fold"}, {"header": ("s", "q"), "footer": ("s", ""), "overflow": "fold", "justify": "right"},
          {"header": ("s", "late"), "footer": ("s", "x"), "overflow": "fold", "late": True}],
         [{"cells": [("s", "some words here"), ("s", "1")], "end_section": True}], {"box": None, "pad_edge": False, "padding": (0, 2)}),
    ):
        final = {"cols": hcols, "rows": hrows, "opts": hopts}
        for kind, before in history_befores(final):
            for w0, w1 in ((20, 20), (9, 20), (20, 9), (30, 12)):
                misc.append(dict(final, avail=w1, pre={"kind": kind, "spec": before, "avail": w0}))
    # styles: table / border / header / footer / row_styles / per-row / per-column styles, cells with their own styles and control
    # segments, a whitespace-divider box (background rule), rows with FEWER cells than columns, show_lines with end_section
    scols = [{"header": ("s", "name"), "footer": ("st", "sum", "underline"), "overflow": "fold", "style": "cyan", "header_style": "red"},
             {"header": ("st", "qty", "italic"), "footer": ("s", "9"), "overflow": "fold", "justify": "right", "footer_style": "on blue"},
             {"header": ("s", ""), "footer": ("s", ""), "overflow": "fold"}]
    srows = [{"cells": [("st", "alpha beta", "bold red"), ("s", "1")], "end_section": False, "style": "on green"},
             {"cells": [("ctl", "ring"), ("t", "22\n3", None), ("s", "x")], "end_section": True},
             {"cells": [("s", "last")], "end_section": False, "style": "dim"}]
    for ov in ({}, {"style": "on black"}, {"border_style": "blue"}, {"style": "yellow", "border_style": "bold"}, {"row_styles": ["dim", "none"]},
               {"row_styles": ["on red"], "box": "SIMPLE"}, {"header_style": None, "footer_style": "bold magenta", "show_footer": True},
               {"row_styles": ["on red", "on blue", "italic"], "box": "MINIMAL", "show_lines": True, "show_footer": True},
               {"show_lines": True, "box": "SQUARE"}, {"leading": 1, "box": "HEAVY", "row_styles": ["on white"]}, {"box": None, "style": "bold"}):
        for w in (12, 22, 40):
            misc.append({"cols": scols, "rows": srows, "opts": dict({"box": "ASCII"}, **ov), "avail": w})
    for i in range(0, len(misc), 70):
        jobs.append((40, FLAGS, misc[i:i + 70]))
    # ---- B: seeded structured random tables: all options, column options, nested cells, ragged columns
    n_bundles = 64 if quick else 1500
    for bi in range(n_bundles):
        ncols = rng.choice([1, 2, 2, 3, 3, 4, 5, 6]) if rng.random() > 0.03 else 0
        nrows = (rng.choice([0, 1, 1, 2, 3, 4, 8]) if ncols <= 3 else rng.choice([0, 1, 2, 3])) if ncols else 0
        spec = base_spec(rng, ncols, nrows, nested=True)
        if rng.random() < 0.12 and ncols >= 2:
            spec["cols"][-1]["late"] = True
        elif rng.random() < 0.08 and nrows >= 1:
            # a row with more cells than columns: add_row creates the column and back-fills the earlier rows
            k = rng.randrange(nrows)
            spec["rows"][k]["extra"] = [cell_of(rng, nested=False) for _ in range(rng.choice([1, 2, 2, 3]))]
            if nrows >= 2 and rng.random() < 0.5:
                spec["rows"][nrows - 1]["extra"] = [cell_of(rng, nested=False) for _ in range(rng.choice([2, 3, 4]))]
            spec["has_extra"] = True
        spec["via_column_objects"] = rng.random() < 0.2
        pad_choices = [rng.choice(PADDINGS), rng.choice(PADDINGS[:3])]
        specs = []
        for vi in range(7 if quick else 10):
            o = random_opts(rng)
            o["padding"] = rng.choice(pad_choices)
            column_options(rng, spec, level=rng.random() < 0.5)
            s = {"cols": [dict(c) for c in spec["cols"]], "rows": spec["rows"], "opts": o, "via_column_objects": spec["via_column_objects"],
                 "has_extra": spec.get("has_extra", False)}
            if rng.random() < 0.35:
                s["render_opts"] = dict(rng.choice(RENDER_OPTS))
            if rng.random() < 0.25:
                o.update(rng.choice([{"style": "on black"}, {"border_style": "green"}, {"row_styles": ["dim", "none"]},
                                     {"row_styles": ["on red"], "header_style": "italic"}, {"footer_style": None, "style": "cyan"}]))
            if rng.random() < 0.12:
                s["env"] = dict(rng.choice([{"legacy_windows": True}, {"ascii": True}, {"legacy_windows": True, "console_safe_box": False}]))
                o["safe_box"] = rng.choice([None, None, True, False])
            if rng.random() < 0.2:
                o["min_width"] = rng.choice([0, 5, 12, 25, 50])
            if rng.random() < 0.15:
                o["width"] = rng.choice([structural_min(s), structural_min(s) + 3, 12, 25, 40])
            specs += [(with_history(rng, dict(s, avail=w)) if rng.random() < 0.3 else dict(s, avail=w)) for w in widths_for(rng, s, 3, dense=3)]
            if rng.random() < 0.15:   # far below the structural minimum: nothing may raise or go negative there either
                specs.append(dict(s, avail=rng.randint(0, max(1, structural_min(s)))))
        jobs.append((64, FLAGS, specs))
    return jobs


def run_tables(ctx):
    import multiprocessing
    import os

    jobs = table_jobs(ctx)
    ctx.note("table:bundles", len(jobs))
    procs = max(1, min(14, (os.cpu_count() or 2) - 1))
    with multiprocessing.get_context("fork").Pool(procs) as pool:
        chunk = []
        for res in pool.imap(lib_table.run_job, jobs):
            chunk.append(res)
            if len(chunk) >= 24:
                lib_table.account(ctx, chunk)
                chunk = []
        lib_table.account(ctx, chunk)


def run(ctx):
    run_ratio(ctx, scale=1.0 if ctx.quick else 25.0)
    ctx.flush()
    run_small(ctx)
    run_collapse_keep(ctx)
    lib_tablerows.run_rows(ctx)
    lib_tablerows.run_styles(ctx)
    run_tables(ctx)
    ctx.flush()
    ctx.rule = (
        "ratio/collapse arithmetic: bounded-exhaustive + seeded random (lib_ratio); _get_cells padding rules exhaustive over 8 paddings x "
        "pad_edge x collapse_padding x position; every box x 6 width vectors x 6 row kinds; tables: one-factor-at-a-time and interacting pairs "
        "of all table options (incl. width + min_width pairs and 8 incoming ConsoleOptions) around 5 small tables (two of them with over-long "
        "wide words / nested folding tables) at every available width from the structural minimum up; fixed groups: ratio columns beside "
        "fixed / empty / capped columns, tables without columns and ratio=0 columns from available width 0 up, Column objects, Table.grid, substituted "
        "boxes (legacy_windows / ascii_only / safe_box), raising cells, multi-segment wide words in columns that do not fold, add_row with "
        "two or more surplus cells, styles; then seeded random tables "
        "(0..6 declared columns, 0..8 rows, all table and column options, nested Panel/Table/Padding cells, wide and zero-width characters, "
        "ragged and add_row-created columns) x several available widths; distinct = distinct canonical requests (pool + variant)"
    )
    ctx.assumptions += [
        "cells are oracles: the model sees each padded cell only through Measurement.get and console.render_lines tabulated on real rich "
        "for widths 0..W (contract checked per entry: every rendered line has exactly the requested cell width; 0 <= min <= max <= w)",
        "styles, links and control segments are not part of the model (lines are compared as plain text; the styles of every printed "
        "character are checked by direct evaluation only: cell_styles / border_styles)",
        "console: legacy_windows=False, ascii_only=False (Box.substitute is the identity) and highlight=False by default; consoles with "
        "legacy_windows / ascii_only / safe_box=False are exercised too, Box.substitute then being answered by the driver through C08's "
        "Frames.substituteBox (the table theorems take the substituted box as given); incoming highlight=True options only reach the cell oracles",
    ]


def replay(ctx, case):
    spec = case.get("input")
    print("site:", case.get("site"))
    print("what:", case.get("what"))
    if isinstance(spec, (list, tuple)) and spec and isinstance(spec[0], dict):
        spec = spec[0]
    if isinstance(spec, dict) and "cols" in spec:
        for c in spec["cols"]:
            for k in ("header", "footer"):
                c[k] = tuple(c[k])
        for r in spec["rows"]:
            r["cells"] = [tuple(x) for x in r["cells"]]
        if "padding" in spec["opts"]:
            spec["opts"]["padding"] = tuple(spec["opts"]["padding"])
        before = len(ctx.failures)
        lib_table.account(ctx, [lib_table.run_job((64, FLAGS, [spec]))])
        t = lib_table.build_table(spec)
        c = lib_table.make_console(spec["avail"])
        c.print(t)
        print(c.file.getvalue())
        return len(ctx.failures) == before
    return False


MANIFEST = {
    "text": "Lean 4 theorems (Props/C07.lean; no bound on columns, rows, widths or cell content) about an executable model of "
    "rich/table.py + the row builders of rich/box.py in which every cell is an oracle (measure / render_lines of the padded cell): "
    "table_rect (every body line = _extra_width + sum of widths, any options, any box whose characters are one cell wide - re-proved "
    "by `decide +kernel` for all box literals translated from rich/box.py each run); table_expand_exact (+ _free, table_exact_collapsed): "
    "an expanding table is exactly as wide as asked when the natural widths fit, or when all columns wrap and re-measuring is stable; "
    "collapse_widths_keep + width_fits (free columns, available >= one cell per column: table width <= available and every column "
    ">= 1 cell - the even split with banker's rounding never starves a column); rows_in_order + rows_header_cells_footer (cell lines "
    "appear row by row, header / insertion order / footer, each on lines of its own); fold_cells_in_column + every_cell_line_shown (on a "
    "row's line k, column j's span - at a proved cell offset and width - holds exactly line k of that cell's own rendering, verbatim, or "
    "blanks); plus the arithmetic core (ratio_distribute sums to total, ratio_reduce bounds, _collapse_widths termination and "
    "post-condition).  calc_widths_total / table_render_total / rich_measure_total (with the two assertion defects repaired - fixes 1d61bac, ab98098, in /repo now - "
    "`_calculate_column_widths`, `__rich_console__` and `__rich_measure__` never reach `assert total_ratio > 0` for ANY table with "
    "non-negative options and cells measuring >= 0 - zero columns, ratio 0 columns, any available width included).  "
    "cell_characters_in_column / cell_span_is_part / text_cell_characters_in_column (the property's sentence on rendered CHARACTERS: "
    "the parts of column j on the lines of row i, read top to bottom without whitespace, are exactly the non-whitespace characters of the "
    "cell's source, each part at the proved cell offset and width; for text cells literally, via C02's wrap_fold_keeps_nonspace / "
    "wrap_lines_fit).  width_bound_general / width_fits_general (ARBITRARY columns - fixed width, min_width, max_width, no_wrap: at or above "
    "the structural minimum 'first widths of the unshrinkable columns + 1 per shrinkable column' every column keeps >= 1 cell, the "
    "last-resort ratio_reduce is never used and the table is at most max_width + the sum of the min_width floors wide; "
    "below_structural_minimum_overflows and min_width_overflows show both limits are attained).  table_exact_collapsed_textlike (the "
    "re-measure stability hypothesis derived for text-like cells; remeasure_can_shrink: it is not automatic), collapse_widths_le, "
    "width_fits_any_ratio / table_expand_exact_any_ratio (ratio columns incl. ratio 0).  "
    "Witnesses by `decide` for the six defects of rich 9.10.0 as found and for the clamp that came with fix ab98098: old_table_rect_fails (F16, leading >= 2), old_expand_exact_fails (expand + min_width), "
    "old_expand_ratio_fails (ratio column beside a zero-width column) - at Flags.today; old_expand_stale_width_fails (stale table_width after the "
    "re-measure), old_no_columns_asserts, old_flex_negative_asserts - at Flags.repaired; old_ratio_zero_column_too_wide (ratio=0 column one cell too wide, "
    "before fix 75c2776) - at Flags.allRepaired with flexClampZero on.  Flags.repaired repairs the first three defects only "
    "(leading, min_width, raw maximum); Flags.allRepaired repairs all seven flags and is the variant /repo contains now.  "
    "Deepening round 4: table_expand_exact_general / _above_floors / _no_wrap (exact expansion for ARBITRARY sane columns - no_wrap, fixed width, "
    "max_width: unconditionally at or above the structural minimum 'natural widths of the unshrinkable columns + 1 per shrinkable one'; min_width "
    "columns: whenever _collapse_widths leaves every column at or above its min_width + padding floor) and the witness "
    "expand_min_width_column_overflows (FINDING table-column-min-width-overflow: the collapse ignores min_width, the re-measure puts it back, the "
    "expanding table is wider than asked although the floors fit); Model/TableRows.lean = Table.add_row statement by statement (padding with None, "
    "created columns back-filled with Text(''), NotRenderableError raised mid-loop) with add_row_raises_iff, add_row_spec, "
    "add_rows_in_insertion_order (any sequence of calls: rectangular, Row per call in call order, every argument at its row and column for ever), "
    "add_row_error_state (the half-updated table a raising call leaves), built_table_rows (a table built by add_row shows header, calls in order, "
    "footer); styles as symbolic source lists (get_row_style, rowKind, cellStyle, fillStyle, dividerStyle, borderStyle) with row_styles_cycle, "
    "row_style_without_row_styles, cell_style_spec, row_kind_spec, divider_style_spec, fill_is_cell_prefix.  "
    "Tie: the model's column widths and rendered lines equal `_calculate_column_widths` / `Console.render(table)` character for "
    "character on ~5k (quick; committed evidence/C07.json, seed 2: 4,955 tables rendered and 4,955 measured) / ~50k (thorough) generated tables (0..6 declared columns, 0..8 rows, all table and column options, nested "
    "Panel/Table/Padding cells, wide and zero-width characters, ragged and add_row-created columns, nested folding tables, over-long wide words; rendered WITH varying incoming ConsoleOptions "
    "(no_wrap / justify / overflow / highlight), the cell options being derived from the documented rule 'the column's own setting wins', "
    "title / caption inheriting overflow / no_wrap; about a fifth of the tables are RE-RENDERS - the same object rendered, changed "
    "in one respect (an option, a column attribute, a header / footer / cell replaced, add_row, add_column), rendered again at the same or "
    "another width: the second render must equal a freshly built table's and is what the model and every clause are compared with) with each real cell's oracle "
    "tabulated on real rich for all widths 0..W; `_get_cells` padding rules, `_get_padding_width` and every box row builder compared "
    "exhaustively; the theorems' executable statements evaluated on rich's own output.",
    "note": "OPEN FINDING (deepening round 4, no `known:` line yet, so ./check C07 prints VIOLATION): table-column-min-width-overflow - "
    "Table(expand=True, box=None, padding=0, show_header=False) with add_column(min_width=10), add_column(), add_row('aa aa aa aa aa', 'bb bb bb bb bb') "
    "at width 16 gets widths [10, 8] (18 cells; [10, 6] fits): _collapse_widths knows nothing of min_width, the re-measure puts the floor back "
    "(direct evaluation expand_exact_min_width_column; Lean witness expand_min_width_column_overflows; no small safe repair - one more collapse pass "
    "is not enough with two min_width columns, a floor-aware collapse changes the layout of tables that render correctly today).  "
    "Round-g miss closed: cell texts whose words are separated by NON-ASCII whitespace (U+3000 - one character, two cells -, U+00A0, U+2003), "
    "zero-width U+200B inside words and one-entry-range wide characters (U+2B50, U+2705, U+2B55) are now in the random alphabet (SPACE_TEXTS) and in a "
    "fixed group rendered at EVERY available width (fold_keeps_characters against the SOURCE text); the direct evaluation measures cells by a linear "
    "scan of rich/_cell_widths.py, not by rich.cells.  "
    "New correspondences: table.add_rows (bounded-exhaustive: 0..3 declared columns x every sequence of <= 2 calls of <= 3 arguments over "
    "{None, object, not renderable} = 6,724, + 1,500 quick / 30,000 thorough random sequences of up to 6 calls of up to 6 arguments, the "
    "half-updated state after NotRenderableError included) and table.styles (~210 quick / ~580 thorough tables: the model's symbolic style of "
    "every character - border, edge, divider incl. whitespace dividers, cell, fill line - folded with real Style.__add__ and compared character "
    "by character with Console.render(table)); new direct evaluations add_row_raises_iff, add_rows_in_insertion_order, add_row_error_state, "
    "add_rows_render_order, row_styles_cycle, expand_exact_columns (every expanding table without active ratio at or above the theorems' "
    "structural minimum whose collapsed widths stay above the min_width floors, floors judged with the REAL _collapse_widths).  Styles: the "
    "composition (which sources, in which order) is modelled and compared; Style.__add__ itself is C06's; a cell's OWN styles stay inside the oracle.  "
    "PARTIAL: exact expansion (`table_expand_exact_*`) is proved for free columns (no width/min_width/no_wrap) incl. any ratios, and since round 4 for "
    "arbitrary columns without active ratio at or above the structural minimum provided no min_width floor is undercut by the collapse "
    "(table_expand_exact_above_floors / _no_wrap); below a floor the code is too wide (the finding) and the bound is width_bound_general; "
    "`table_exact_collapsed` keeps its stability hypothesis, discharged for text-like cells by `table_exact_collapsed_textlike`; ratio (flexible) columns are covered by table_rect / rows / columns, by table_expand_exact's general form (hypotheses on the first-pass "
    "widths) and, for free columns with any non-negative ratios, by width_fits_any_ratio / table_expand_exact_any_ratio (flexNegative = flexClampZero = false), not by the `_free` corollaries; non-wrappable columns can exceed the available width below the structural minimum (ratio_reduce caps: "
    "`ratioReduce 50 [1,1] [100,1] [100,1] = [75,0]`; below_structural_minimum_overflows) - outside the statement.  Cells, title and caption are oracles (contract checked per "
    "tabulated entry: rendered lines have exactly the requested width, 0 <= min <= max <= w); that a fold column's cell keeps every "
    "non-whitespace character is a hypothesis of cell_characters_in_column, discharged for text cells (Padding(Text), overflow fold, content width >= 2) by text_cell_characters_in_column from C02's theorems; for every other cell it is evaluated on real output (the characters found inside the column's span are compared with the cell's SOURCE text).  Styles are not in the Lean model; they are checked by direct evaluation (cell_styles / border_styles: every printed character carries "
    "table.style + row style + header/column/footer style + its own style, blank fill and separators likewise), as are add_row's "
    "cells (every column's cells ARE, by identity and position, the objects passed to add_row; created columns back-filled) and rectangularity and a fixed column's width + padding BY POSITION.  Box.substitute (legacy_windows / ascii_only / safe_box) is modelled "
    "through C08's Frames.substituteBox; a cell whose renderable raises makes the table raise exactly when it is consulted; control segments "
    "are transparent; Table.grid and Column objects are exercised; Column has no vertical alignment in 9.10.  Table.__rich_measure__ is modelled (`Table.richMeasure`) and compared per table.  "
    "Tables without columns are compared (widths, lines, measure, the AssertionError) but are outside the rectangle statement.  Domain of the direct evaluation: 'no negative column width' everywhere; the rest at available width >= structural "
    "minimum (1 cell per free column, width/min_width + padding otherwise, 1 + padding for a ratio column), no negative ratio or padding (ratio 0 is inside since fix 75c2776).  Trusted: Lean kernel, axioms "
    "propext/Classical.choice/Quot.sound, translators harness/tables.py + harness/gen/table_boxes.py, the correspondence harness.  "
    "Code-variant flags in this file (LEADING_REPEAT, MIN_WIDTH_CAPS_EXPAND, FIXED_RAW_MAXIMUM, NO_COLUMNS_ASSERTS, FLEX_NEGATIVE, STALE_TABLE_WIDTH, FLEX_CLAMP_ZERO) match /repo as it is now: the six defects of rich 9.10.0 as found (F16 table-leading-multi dd342b5, "
    "table-expand-min-width c798468, table-expand-ratio-zero-width-column b5d172f, table-no-columns 1d61bac, flexible-width-negative ab98098, "
    "table-expand-stale-width f955c6c) and the follow-up table-ratio-zero-column 75c2776 are repaired there and every flag is 0; known_findings.txt has no `known:` line for C07, so the check "
    "prints no KNOWN-FINDING line; a regression of a fix shows as a correspondence mismatch and a "
    "direct-evaluation failure (the env variables VERIF_C07_<FLAG> override a flag for a run against another checkout).",
    "design_ref": "DESIGN.md section 7 (C01, C07, C08, C09 - layout), section 8 F16; lean/RichModel/Model/TABLE_API.md",
}
