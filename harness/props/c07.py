"""C07 — tables are rectangles.  Present content: the width arithmetic (rich/_ratio.py, _collapse_widths).
The table renderer's correspondence is added by the layout layer (lib_layout)."""
from lib_ratio import run_ratio

PROPERTY = "C07"


def run(ctx):
    run_ratio(ctx, scale=1.0 if ctx.quick else 25.0)
    try:
        import lib_layout
    except ImportError:
        lib_layout = None
    if lib_layout is not None and hasattr(lib_layout, "run_c07"):
        lib_layout.run_c07(ctx)
    ctx.flush()
