"""C02 — word wrapping keeps every character, in order, with its own style.

Correspondence: Lean model (Model/Wrap.lean on top of Model/Text.lean, Model/Cells.lean) vs rich._wrap.words,
rich._wrap.divide_line, Text.get_style_at_offset, Lines.justify and Text.wrap, in-process.  The answer of a
wrap / justify case is the complete state of every produced line (plain, _length, base style, spans in order,
attributes) *and* its rendering through the real `Text.render` with styles in the free monoid of style names.

Direct evaluation (DESIGN 3d): the four statements of the property evaluated on rich's own output with oracles
that look neither at the Lean model nor at rich's span bookkeeping (see `evaluate_wrap`, `evaluate_divide_line`).

Histories (`history_case`): the model is a pure function (`wrap_history_pure`); that the real `Text.wrap` is one too -
it does not touch its receiver, and the Lines it returns share nothing with the receiver, with each other or with
the results of other calls - is checked by wrapping the SAME Text object several times, asking the model with the
state recorded before the first call, and re-observing the receiver and every earlier result after every call and
after editing a returned line.

Real styles (`real_case`, driver entry `wrap_wrap_real`): a slice of the wrap cases runs with real `Style` objects
(bold / italic / colours / links, equal styles built differently) so that the real `Style.__add__`, `copy` and
`__eq__` are the ones compared with the model (C06 style model) and evaluated directly (`wrap:real-style`); the
theorems behind it are `normal_form_sound`, `real_styles_idempotent`, `wrap_fold_keeps_real_styles`.
"""
import itertools
import os

from core import enc_bool, enc_str
import lib_wrap as W

PROPERTY = "C02"

# CODE VARIANT FLAGS  (1 = rich 9.10.0 as released, 0 = repaired; see Model/Wrap.lean `WVariant`)
try:  # the six flags of the Text model and the rstrip_end flag belong to property C05 / C08; follow them
    from props.c05 import FLAGS as TEXT_FLAGS
    from props.c05 import RSTRIP_END_CHARS
except Exception:  # pragma: no cover
    TEXT_FLAGS = "000000"
    RSTRIP_END_CHARS = 1  # fallback only (props.c05 not importable): 1 = rich 9.10.0 as found, Text.rstrip_end compares the character count with the cell width; /repo now has the repair (fix f5f2be9 = pending_fixes/C08-rstrip-end-counts-cells.diff) and props.c05 holds 0
JUSTIFY_NEG = 0  # Lines.justify center/right: pad_left(negative) when the line stays wider than the width (overflow "ignore"); repaired by /repo commit 90b2e96
FLAGS = TEXT_FLAGS + str(JUSTIFY_NEG) + str(RSTRIP_END_CHARS)
# development aid only (was used to validate the pending_fixes diffs against a patched checkout before they became fix: commits): VERIF_C02_FLAGS=00000000 VERIF_REPO=<worktree>
FLAGS = os.environ.get("VERIF_C02_FLAGS", FLAGS)

ALPHA = ["a", "b", " ", "あ", "̀", "\t", "\n"]
# further classes the code branches on: a 2-cell whitespace, a 0-cell whitespace, a 1-cell non-ASCII whitespace,
# the ellipsis itself, a 2-cell punctuation
EXTRA = ["　", "\x1f", "\xa0", "…", "、", "c"]
STYLES = ["s1", "s2", "s3"]
JUSTIFY = [None, "default", "left", "center", "right", "full"]
OVERFLOW = [None, "fold", "crop", "ellipsis", "ignore"]
NOWRAP = [None, False, True]


def all_strings(alpha, maxlen, minlen=0):
    for n in range(minlen, maxlen + 1):
        for t in itertools.product(alpha, repeat=n):
            yield "".join(t)


def all_spans(n, styles):
    return [(a, b, st) for a in range(n + 1) for b in range(a, n + 1) for st in styles]


def gen_spans(rng, n, kmax=2):
    """span sets: nested, overlapping, duplicated, empty, touching the ends"""
    k = rng.choice([0, 1, 1, 2, 2, 2, 3, 4]) if kmax > 2 else rng.choice([0, 1, 2, 2])
    spans = []
    for _ in range(k):
        r = rng.random()
        if spans and r < 0.2:
            spans.append(rng.choice(spans))  # exact duplicate
            continue
        if spans and r < 0.35:  # same range, other style / same end
            a, b, _ = rng.choice(spans)
            spans.append((rng.randint(0, a), b, rng.choice(STYLES)))
            continue
        a = rng.randint(0, n)
        b = rng.choice([n, rng.randint(a, n), min(n, a + 1), a])
        spans.append((a, b, rng.choice(STYLES)))
    return spans


def gen_string(rng, maxlen, alpha):
    n = rng.randint(0, maxlen)
    return "".join(rng.choice(alpha) for _ in range(n))


def gen_prose(rng, maxlen):
    """words of assorted widths separated by runs of whitespace (so that long lines with many breaks occur)"""
    out = []
    while sum(len(x) for x in out) < maxlen:
        out.append("".join(rng.choice("abあ、̀cx") for _ in range(rng.choice([1, 2, 3, 5, 8, 13, 30]))))
        out.append(rng.choice([" ", " ", " ", "  ", "\n", "\t", " \n ", "　", "   "]))
    return "".join(out)[:maxlen]


def build(spec):
    from rich.text import Span, Text

    s, base, spans, tj, to, tnw, tts = spec
    return Text(s, style=base, spans=[Span(a, b, st) for a, b, st in spans], justify=tj, overflow=to, no_wrap=tnw, tab_size=tts)


# ------------------------------------------------------------------------------------------------ direct evaluation
def classify_style(eff_ov, eff_j, lines, w, out, ins, equal_required):
    """narrow classifiers of the two known defect shapes; None = anything else"""
    from rich.cells import cell_len

    if eff_ov == "ignore" and eff_j in ("center", "right") and any(cell_len(l.plain) > w for l in lines):
        return "justify-negative-pad"
    if isinstance(out, str):
        return None
    # same characters, and at every character the same *set* of names in another order
    so = [(c, frozenset(i)) for c, i in out]
    si = [(c, frozenset(i)) for c, i in ins]
    if (so == si) if equal_required else W.embeds(so, si):
        if len(lines) > 1:
            return "divide-order-alias"
    return None


def evaluate_wrap(ctx, spec, args, lines):
    from rich.cells import cell_len

    s, base, spans, tj, to, tnw, tts = spec
    w, j, ov, ts, nw = args
    eff_j = j or tj or "default"
    eff_ov = ov or to or "fold"
    nowrap = (nw if nw is not None else (tnw if tnw is not None else False)) or ov == "ignore"
    inp = (spec, args)
    ins = W.nonspace(W.input_stream(s, base, spans))
    raws = [W.raw_stream(l) for l in lines]  # one real Text.render per line; the normalised stream is derived from it
    streams = [r if isinstance(r, str) else [(c, W.norm_ids(ids)) for c, ids in r] for r in raws]
    bad_render = [x for x in streams if isinstance(x, str)]
    if bad_render:
        ctx.check(False, "wrap:style", inp, f"rendering a wrapped line raises {bad_render[0]}", finding=classify_style(eff_ov, eff_j, lines, w, bad_render[0], ins, True))
        return
    out = W.nonspace([p for st in streams for p in st])
    if (eff_ov == "fold" and not nowrap) or eff_ov == "ignore":
        # nothing may be dropped, duplicated or reordered
        okc = [c for c, _ in out] == [c for c, _ in ins]
        shown = "".join(c for c, _ in out)
        # (a negative pad_left moves span starts below 0; Text.render then repeats characters)
        fin = "justify-negative-pad" if not okc and classify_style(eff_ov, eff_j, lines, w, "", ins, True) == "justify-negative-pad" else None
        ctx.check(okc, "wrap:keeps-nonspace", inp, f"the lines {[l.plain for l in lines]!r} render the non-whitespace characters {shown!r}, not the input's", finding=fin)
        if okc:
            ok = out == ins
            ctx.check(ok, "wrap:style", inp, "a character changed its effective style: " + _first_diff(out, ins), finding=None if ok else classify_style(eff_ov, eff_j, lines, w, out, ins, True))
    else:
        okc = W.embeds([(c, ()) for c, _ in out], [(c, ()) for c, _ in ins])
        ctx.check(okc, "wrap:crop-subsequence", inp, f"lines {[l.plain for l in lines]!r} show characters that are not an in-order selection of the input's")
        if okc:
            ok = W.embeds(out, ins)
            ctx.check(ok, "wrap:style", inp, f"output (char, style) stream {out!r} is not an in-order selection of the input's {ins!r}", finding=None if ok else classify_style(eff_ov, eff_j, lines, w, out, ins, False))
    evaluate_exact(ctx, spec, args, raws, eff_j, (eff_ov == "fold" and not nowrap) or eff_ov == "ignore")
    if eff_ov != "ignore":
        wide = [l.plain for l in lines if cell_len(l.plain) > w]
        ctx.check(not wide, "wrap:lines-fit", inp, f"lines wider than {w} cells: {wide!r}")
    if eff_ov == "fold" and not nowrap and (ts is not None or "\t" not in s):
        ok, what = breaks_only_when_too_wide(s, ts, w, lines)
        ctx.check(ok, "wrap:break-only-when-too-wide", inp, what)


def evaluate_exact(ctx, spec, args, raws, eff_j, keeps_all):
    """The EXACT (name-list, no normal form) statement of wrap_fold_keeps_exact / wrap_fold_keeps_styles_exact_tabs /
    wrapLine_fold_keeps_full_exact evaluated on rich's own lines, rendered through the real Text.render in the free
    monoid of names.  Oracle (independent of the model and of rich's spans): a non-whitespace character at index i of
    a paragraph (text between newlines) has the list  base, covering spans in span order;  the base style ONCE MORE IN
    FRONT when its paragraph contains a tab;  and, for justify "full" only, possibly the null style '' in front of
    that - uniformly for all characters of one produced line, and never on the very last produced line (the last line of a
    paragraph is never rebuilt; a paragraph's last line may be blank, so only the overall last line is decidable here)."""
    s, base, spans, tj, to, tnw, tts = spec
    exp = []
    pos = 0
    for par in s.split("\n"):
        tab = "\t" in par
        for k, c in enumerate(par):
            if not c.isspace():
                ids = (base,) + tuple(st for a, b, st in spans if a <= pos + k < b)
                exp.append((c, ((base,) + ids) if tab else ids))
        pos += len(par) + 1
    inp = (spec, args)
    i = 0
    ok = True
    what = ""
    for n, r in enumerate(raws):
        marks = set()
        for c, ids in W.nonspace(r):
            if c == "…" and not keeps_all:
                continue
            while True:
                if i == len(exp):
                    ok, what = False, f"line {n}: {c!r} with styles {ids!r} is not (the next of) the input's characters"
                    break
                ec, eids = exp[i]
                i += 1
                if ec == c and ids == eids:
                    marks.add(False)
                    break
                if ec == c and eff_j == "full" and ids == ("",) + eids:
                    marks.add(True)
                    break
                if keeps_all:
                    ok, what = False, f"line {n}: {c!r} has the style list {ids!r}, exact expectation {eids!r}" + (" (or '' in front)" if eff_j == "full" else "")
                    break
            if not ok:
                break
        if not ok:
            break
        if base != "" and len(marks) == 2:
            ok, what = False, f"line {n} mixes characters with and without the null style in front: {r!r}"
            break
        if base != "" and n == len(raws) - 1 and True in marks:
            ok, what = False, f"the last line {n} of the last paragraph was rebuilt by full justification: {r!r}"
            break
    if ok and keeps_all and i != len(exp):
        ok, what = False, f"only {i} of the {len(exp)} non-whitespace characters are shown"
    ctx.check(ok, "wrap:style-exact", inp, what)


def _first_diff(out, ins):
    for k, (a, b) in enumerate(zip(out, ins)):
        if a != b:
            return f"non-space character #{k} {a[0]!r} has {a[1]!r}, had {b[1]!r}"
    return "?"


def breaks_only_when_too_wide(s, ts, w, lines):
    """A line boundary that falls between two adjacent non-whitespace characters of a paragraph is allowed only
    when the word (with the indentation before it when it starts the paragraph) is wider than the width."""
    from rich.cells import cell_len

    pars = [p.expandtabs(ts) if "\t" in p else p for p in s.split("\n")]
    cuts = set()
    c = 0
    for l in lines:
        c += sum(1 for ch in l.plain if not ch.isspace())
        cuts.add(c)
    g = 0
    for par in pars:
        pos = [i for i, ch in enumerate(par) if not ch.isspace()]
        for m in range(1, len(pos)):
            if g + m in cuts and pos[m] == pos[m - 1] + 1:
                word = W.word_with_indent(par, pos[m])
                if word is None or cell_len(word) <= w:
                    return False, f"the word {word!r} ({cell_len(word or '')} cells) was broken across lines although it fits {w} cells: {[l.plain for l in lines]!r}"
        g += len(pos)
    return True, ""


def evaluate_divide_line(ctx, s, w, fold, offs):
    from rich.cells import cell_len

    inp = (s, w, fold)
    if w >= 2:
        ok = all(0 < o < len(s) for o in offs) and all(a < b for a, b in zip(offs, offs[1:]))
        ctx.check(ok, "divide_line:offsets", inp, f"offsets {offs!r} are not strictly increasing inside (0, {len(s)})")
        if not ok:
            return
        for o in offs:
            if not s[o - 1].isspace() and not s[o].isspace():
                word = W.word_with_indent(s, o)
                ctx.check(word is not None and cell_len(word) > w, "divide_line:break-only-when-too-wide", inp, f"offset {o} breaks the word {word!r} which fits {w} cells")
        if fold:
            pts = [0] + list(offs) + [len(s)]
            pieces = [s[a:b] for a, b in zip(pts, pts[1:])]
            wide = [p for p in pieces if cell_len(p.rstrip()) > w]
            ctx.check(not wide, "divide_line:pieces-fit", inp, f"pieces {wide!r} are wider than {w} cells even without their trailing whitespace")


# ------------------------------------------------------------------------------------------------ cases
def wrap_case(ctx, spec, args, shape=None):
    s, base, spans, tj, to, tnw, tts = spec
    w, j, ov, ts, nw = args
    t = build(spec)
    req = [FLAGS, W.enc_text(t), w, W.J[j], W.O[ov], W.enc_opt(ts), W.enc_optbool(nw)]
    try:
        lines = list(t.wrap(W.FC, w, justify=j, overflow=ov, tab_size=ts, no_wrap=nw))
    except Exception as e:  # noqa: BLE001
        ctx.case("wrap_wrap", req, "err:" + type(e).__name__, shape="raises")
        ok_raise = isinstance(e, ZeroDivisionError) and ts == 0 and "\t" in s
        # (until fix 7535af5 an AssertionError was what the code did for tab_size=None on both the call and the Text; expand_tabs falls back to 8 now)
        ctx.check(ok_raise, "wrap:raises", (spec, args), f"Text.wrap raised {type(e).__name__}: {e}")
        return
    ctx.case(
        "wrap_wrap",
        req,
        W.ans_texts(lines),
        shape=shape or f"lines{min(len(lines), 5)}",
        sample=f"Text({s!r}, style={base!r}, spans={spans!r}).wrap(width={w}, justify={j!r}, overflow={ov!r}, tab_size={ts!r}, no_wrap={nw!r})",
    )
    ctx.note(f"wrap:j={j or spec[3] or 'default'}")
    ctx.note(f"wrap:ov={ov or spec[4] or 'fold'}")
    ctx.note(f"wrap:spans={len(spans)}")
    ctx.note(f"wrap:len={min(len(s), 10)}")
    evaluate_wrap(ctx, spec, args, lines)


def narrow_case(ctx, spec, args):
    """Width 1 - below the boundary of the keeps-characters theorems when the text has a 2-cell character.
    Correspondence with the model as for every wrap, and direct evaluation of what the theorems say THERE:
    wrap_lines_fit (every line <= 1 cell), and - folding, wrapping on - the non-whitespace characters shown are
    the input's without the 2-cell ones, in order, each with its style (narrow_wide_first_cropped: a line that starts
    with a 2-cell character becomes exactly one blank; every 2-cell character starts a piece of its own)."""
    from rich.cells import cell_len

    s, base, spans, tj, to, tnw, tts = spec
    w, j, ov, ts, nw = args
    t = build(spec)
    req = [FLAGS, W.enc_text(t), w, W.J[j], W.O[ov], W.enc_opt(ts), W.enc_optbool(nw)]
    inp = (spec, args)
    try:
        lines = list(t.wrap(W.FC, w, justify=j, overflow=ov, tab_size=ts, no_wrap=nw))
    except BaseException as e:  # noqa: BLE001
        ctx.case("wrap_wrap", req, "err:" + type(e).__name__, shape="narrow-raises")
        ctx.check(False, "narrow:raises", inp, f"Text.wrap at width 1 raised {type(e).__name__}: {e}")
        return
    ctx.case("wrap_wrap", req, W.ans_texts(lines), shape="narrow", sample=f"Text({s!r}, spans={spans!r}).wrap(width=1, justify={j!r}, overflow={ov!r})")
    eff_j = j or tj or "default"
    eff_ov = ov or to or "fold"
    nowrap = (nw if nw is not None else (tnw if tnw is not None else False)) or ov == "ignore"
    ctx.note(f"narrow:ov={eff_ov}")
    if eff_ov != "ignore":
        wide = [l.plain for l in lines if cell_len(l.plain) > 1]
        ctx.check(not wide, "narrow:lines-fit", inp, f"lines wider than 1 cell: {wide!r}")
    if eff_ov == "fold" and not nowrap:
        ins = [p for p in W.nonspace(W.input_stream(s, base, spans)) if cell_len(p[0]) < 2]
        streams = [W.stream(l) for l in lines]
        if any(isinstance(x, str) for x in streams):
            ctx.check(False, "narrow:wide-dropped", inp, "rendering a line wrapped at width 1 raises")
            return
        out = W.nonspace([p for st in streams for p in st])
        ctx.check(out == ins, "narrow:wide-dropped", inp, f"at width 1 the lines {[l.plain for l in lines]!r} show {out!r}; expected the input's non-whitespace characters without the 2-cell ones, {ins!r}")
        # every line that held a 2-cell character is exactly one blank (left/center/right pad to the width: still one blank)
        n_wide = sum(1 for c in s if cell_len(c) == 2 and not c.isspace())
        blanks = sum(1 for l in lines if l.plain == " ")
        ctx.check(blanks >= n_wide, "narrow:wide-becomes-blank", inp, f"{n_wide} 2-cell characters but only {blanks} one-blank lines in {[l.plain for l in lines]!r}")


def narrow_truncate_case(ctx, s, ov, spans):
    """narrow_wide_first_cropped evaluated on the real Text.truncate: a text that starts with a 2-cell character,
    truncated to 1 cell, is exactly one blank (fold / crop) or exactly the ellipsis."""
    from rich.text import Span, Text

    t = Text(s, style="s4", spans=[Span(a, b, st) for a, b, st in spans])
    try:
        t.truncate(1, overflow=ov)
        got = t.plain
    except BaseException as e:  # noqa: BLE001
        got = "err:" + type(e).__name__
    ctx.check(got == ("…" if ov == "ellipsis" else " "), "narrow:crop-wide-first", (s, ov, spans), f"Text({s!r}).truncate(1, overflow={ov!r}) gives {got!r}")
    ctx.check(not isinstance(W.stream(t), str), "narrow:crop-wide-first", (s, ov, spans), "the truncated text cannot be rendered")


def divide_case(ctx, s, w, fold):
    from rich._wrap import divide_line

    offs = divide_line(s, w, fold=fold)
    ctx.case("wrap_divide_line", [enc_str(s), w, enc_bool(fold)], W.enc_nats(offs), shape=f"offs{min(len(offs), 4)}", sample=f"divide_line({s!r},{w},fold={fold})")
    evaluate_divide_line(ctx, s, w, fold, offs)


def words_case(ctx, s):
    from rich._wrap import words

    ws = list(words(s))
    ctx.case("wrap_words", [enc_str(s)], f"{len(ws)}:" + "|".join(f"{a},{b},{enc_str(x)}" for a, b, x in ws), shape=f"n{min(len(ws), 4)}")
    # the matches tile the text up to trailing whitespace-only remainder, and each is \s*\S+\s*
    ok = "".join(x for _, _, x in ws) == (s if s.strip() else "") and all(s[a:b] == x and x.strip() and len(x.split()) == 1 for a, b, x in ws)
    ctx.check(ok, "words", s, f"words {ws!r} do not tile the text with one non-whitespace run each")


def justify_case(ctx, specs, w, j, ov):
    from rich.cells import cell_len
    from rich.containers import Lines

    texts = [build(sp) for sp in specs]
    req = [FLAGS, W.enc_texts(texts), w, W.J[j], W.O[ov]]
    before = [W.nonspace(W.stream(t)) for t in texts]
    before_cells = [cell_len(t.plain) for t in texts]
    lines = Lines(texts)
    lines.justify(W.FC, w, justify=j, overflow=ov)
    ctx.case("wrap_justify", req, W.ans_texts(lines), shape=j, sample=f"Lines({[sp[0] for sp in specs]!r}).justify({w},{j!r},{ov!r})")
    if ov != "ignore" and j in ("left", "center", "right"):
        bad = [l.plain for l in lines if cell_len(l.plain) != w]
        ctx.check(not bad, "justify:exact-width", (specs, w, j, ov), f"justified lines {bad!r} are not exactly {w} cells")
    if j == "full":
        # spreading the blanks never makes a line that fitted too wide (the blanks are counted in cells)
        bad = [l.plain for c0, l in zip(before_cells, lines) if c0 <= w < cell_len(l.plain)]
        ctx.check(not bad, "justify:full-fits", (specs, w, j, ov), f"full-justified lines {bad!r} outgrew {w} cells")
    # styles of surviving characters
    for b, l in zip(before, lines):
        st = W.stream(l)
        if isinstance(st, str) or isinstance(b, str):
            fin = "justify-negative-pad" if ov == "ignore" and j in ("center", "right") and cell_len(l.plain) > w else None
            ctx.check(not isinstance(st, str) or isinstance(b, str), "justify:style", (specs, w, j, ov), f"rendering a justified line raises {st}", finding=fin)
            continue
        a = W.nonspace(st)
        # "full" and "default" never crop, "ignore" neither; the other modes may crop at the end
        ok = (a == b) if (ov == "ignore" or j in ("full", "default")) else W.embeds(a, b)
        fin = None
        if not ok and ov == "ignore" and j in ("center", "right") and cell_len(l.plain) > w:
            fin = "justify-negative-pad"
        ctx.check(ok, "justify:style", (specs, w, j, ov), f"justified line shows {a!r}, had {b!r}", finding=fin)


def style_at_case(ctx, spec, off):
    t = build(spec)
    try:
        got = t.get_style_at_offset(W.FC, off)
    except Exception as e:  # noqa: BLE001
        ctx.case("wrap_style_at", [W.enc_text(t), off], "err:" + type(e).__name__)
        return
    ctx.case("wrap_style_at", [W.enc_text(t), off], W.enc_style(got), shape="neg" if off < 0 else "pos")


def snapshot(t):
    """everything observable about a Text: state, and rendering (or the exception it raises)"""
    return W.enc_tr(t)


def history_case(ctx, spec, calls, rng):
    """The SAME Text object wrapped several times.  `Text.wrap` must be a pure function of its receiver: the receiver
    (plain, _length, spans, attributes, rendering) is the same after every call, every call answers what a fresh
    copy of the original text would answer (the model is asked with the state recorded BEFORE the first call), and
    the Lines returned are independent objects: editing one line (pad / crop / restyle) changes neither the receiver,
    nor the other lines of the same result, nor the results of other calls."""
    s, base, spans, tj, to, tnw, tts = spec
    t = build(spec)
    original_req = W.enc_text(t)
    original = snapshot(t)
    results = []  # (args, lines, [snapshot per line])
    inp = (spec, calls)

    def recheck(what, skip=None):
        ctx.check(snapshot(t) == original, "wrap:receiver-unchanged", inp, f"{what}: the wrapped Text itself changed: {snapshot(t)} was {original}")
        for k, (a, ls, snaps) in enumerate(results):
            for i, (l, sn) in enumerate(zip(ls, snaps)):
                if skip == (k, i):
                    continue
                ctx.check(snapshot(l) == sn, "wrap:results-independent", inp, f"{what}: line {i} of result {k} (wrap{a!r}) changed: {snapshot(l)} was {sn}")

    for n, args in enumerate(calls):
        w, j, ov, ts, nw = args
        try:
            lines = list(t.wrap(W.FC, w, justify=j, overflow=ov, tab_size=ts, no_wrap=nw))
        except Exception as e:  # noqa: BLE001
            ctx.check(False, "wrap:raises", inp, f"call {n} of the history raised {type(e).__name__}: {e}")
            return
        # what a fresh text would give (the model is pure; it is asked with the ORIGINAL state)
        ctx.case("wrap_wrap", [FLAGS, original_req, w, W.J[j], W.O[ov], W.enc_opt(ts), W.enc_optbool(nw)], W.ans_texts(lines), shape=f"history{min(n, 3)}",
                 sample=f"call {n} of {len(calls)} on one Text({s!r}, spans={spans!r}): wrap(width={w}, justify={j!r}, overflow={ov!r})")
        recheck(f"after call {n} wrap{args!r}")
        evaluate_wrap(ctx, spec, args, lines)
        results.append((args, lines, [snapshot(l) for l in lines]))
        ctx.note("history:calls")
        # edit one of the returned lines, then one more time look at everything else
        if lines and rng.random() < 0.7:
            k = len(results) - 1
            i = rng.randrange(len(lines))
            l = lines[i]
            op = rng.choice(["pad_left", "pad", "truncate", "stylize", "right_crop", "append"])
            if op == "pad_left":
                l.pad_left(rng.randint(1, 3))
            elif op == "pad":
                l.pad(1)
            elif op == "truncate":
                l.truncate(max(1, w - 1), overflow="crop", pad=True)
            elif op == "stylize":
                l.stylize("s5", 0, max(1, len(l)))
            elif op == "right_crop":
                l.right_crop(1) if len(l) else l.pad_right(1)
            else:
                l.append("x", "s5")
            results[k][2][i] = snapshot(l)
            recheck(f"after {op} on line {i} of result {k}", skip=(k, i))
            ctx.note("history:edit=" + op)


# ------------------------------------------------------------------------------------------------ real Style objects
_REAL = {}


def real_palette():
    """atomic styles as REAL rich Style objects (index 0 must be the null style): attributes on and off, colours,
    links, and styles that are equal (==) but built differently, so that Style.__add__, Style.copy and Style.__eq__
    are the real ones in Text.render and Text.get_style_at_offset"""
    if not _REAL:
        from rich.console import Console
        from rich.style import Style

        _REAL["console"] = Console(width=80, color_system="truecolor", force_terminal=True)
        _REAL["styles"] = [
            Style.null(),
            Style(bold=True),
            Style(color="red"),
            Style(italic=True, color="blue"),
            Style(link="x"),
            Style(bold=False),
            Style.parse("bold"),
            Style(link="y", bold=True),
            Style(color="red", bold=True),
            Style(underline=True, link="x"),
        ]
    return _REAL["console"], _REAL["styles"]


def real_key(console, st):
    """what Style.__eq__ compares (bgcolor is never used here): fg number, attribute bits, set bits, link"""
    if isinstance(st, str):
        st = console.get_style(st)
    fg = "N" if st._color is None else str(st._color.number)
    lk = "N" if not st._link else enc_str(st._link)
    return f"{fg}/{st._attributes}/{st._set_attributes}/{lk}"


def real_case(ctx, s, base_i, spans_i, args):
    from rich.style import Style
    from rich.text import Span, Text

    console, pal = real_palette()
    w, j, ov, ts, nw = args
    t = Text(s, style=pal[base_i], spans=[Span(a, b, pal[k]) for a, b, k in spans_i])
    table = "|".join(real_key(console, p).replace("/", ";") for p in pal)
    text_req = ";".join([enc_str(s), str(len(s)), str(base_i), "/".join(f"{a},{b},{k}" for a, b, k in spans_i), "N", "N", "N", enc_str("\n"), "8"])
    req = [table, FLAGS, text_req, w, W.J[j], W.O[ov], W.enc_opt(ts), W.enc_optbool(nw)]
    lines = list(t.wrap(console, w, justify=j, overflow=ov, tab_size=ts, no_wrap=nw))

    def enc_line(l):
        try:
            segs = "/".join(enc_str(sg.text) + "~" + ("-" if sg.style is None else real_key(console, sg.style)) for sg in l.render(console, end=""))
        except Exception as e:  # noqa: BLE001
            segs = "err:" + type(e).__name__
        spans = "/".join(f"{a},{b},{real_key(console, st)}" for a, b, st in l._spans)
        return ";".join([enc_str(l.plain), str(l._length), real_key(console, l.style), spans]) + "@" + segs

    ctx.case("wrap_wrap_real", req, "ok:%d#" % len(lines) + "|".join(enc_line(l) for l in lines), shape=f"j={j}",
             sample=f"REAL styles: Text({s!r}, style=#{base_i}, spans={spans_i!r}).wrap({w}, justify={j!r}, overflow={ov!r})")
    # direct evaluation with real Style.__add__ / __eq__: the Style every non-whitespace character is rendered with
    def expected(i):
        return Style.combine([pal[base_i]] + [pal[k] for a, b, k in spans_i if a <= i < b])

    ins = [(c, expected(i)) for i, c in enumerate(s) if not c.isspace()]
    out = []
    inp = (s, base_i, spans_i, args)
    try:
        for l in lines:
            for sg in l.render(console, end=""):
                out += [(c, sg.style) for c in sg.text if not c.isspace()]
    except Exception as e:  # noqa: BLE001 - a wrapped line that cannot be rendered is a failure of the property, not of the harness
        ctx.check(False, "wrap:real-style", inp, f"rendering a line produced by Text.wrap raised {type(e).__name__}: {e}")
        return
    eff_ov = ov or "fold"
    nowrap = bool(nw) or ov == "ignore"
    if (eff_ov == "fold" and not nowrap) or eff_ov == "ignore":
        ok = len(out) == len(ins) and all(a[0] == b[0] and a[1] == b[1] for a, b in zip(out, ins))
        ctx.check(ok, "wrap:real-style", inp, f"with real Style objects the rendered (char, Style) stream {[(c, str(x)) for c, x in out]!r} differs from the input's {[(c, str(x)) for c, x in ins]!r}")
    else:
        i = 0
        ok = True
        for c, st in out:
            if c == "…":
                continue
            while i < len(ins) and not (ins[i][0] == c and ins[i][1] == st):
                i += 1
            if i == len(ins):
                ok = False
                break
            i += 1
        ctx.check(ok, "wrap:real-style", inp, "with real Style objects the rendered (char, Style) stream is not an in-order selection of the input's")


def cell_len_is2(c):
    from rich.cells import cell_len

    return cell_len(c) == 2


def gen_spec(rng, s, kmax=2, attrs=True):
    base = rng.choice(["", "", "s4", "s1"])
    spans = gen_spans(rng, len(s), kmax)
    if attrs and rng.random() < 0.25:
        tj = rng.choice(JUSTIFY)
        to = rng.choice(OVERFLOW)
        tnw = rng.choice(NOWRAP)
        tts = rng.choice([8, 4, 1, 3])
    else:
        tj, to, tnw, tts = None, None, None, 8
    return (s, base, spans, tj, to, tnw, tts)


def gen_args(rng, wmax=9):
    w = rng.randint(2, wmax)
    j = rng.choice(JUSTIFY)
    ov = rng.choice([None, "fold", "fold", "crop", "ellipsis", "ignore"])
    ts = rng.choice([8, 8, 4, 3, 2, 1, 1, 16, 40])
    nw = rng.choice([None, None, False, False, True])
    return (w, j, ov, ts, nw)


def run(ctx):
    rng = ctx.rng
    quick = ctx.quick
    ctx.assumptions += [
        "styles are opaque names; rich combines them through a console whose Style objects are sequences of names "
        "(free monoid: + is concatenation, == is equality of sequences); effective styles are compared up to the laws "
        "every rich Style satisfies: '' is neutral, x+x = x, x+y+x = y+x",
        "widths 2..200; negative widths, control characters (\\r, \\x08, \\x0b, \\x0c: property C05) and inverted spans are outside the domain",
        "str.isspace / regex \\s / str.rstrip agree on the whitespace class (checked by the translator on every run)",
    ]
    ctx.rule = (
        "distinct = distinct request lines sent to the model; a wrap request is the complete state of the text, the width and "
        "the five keyword arguments; exhaustive strings over {a, b, space, あ (2 cells), U+0300 (0 cells), tab, newline}"
    )

    # ---- 1. words / divide_line: bounded-exhaustive
    n1 = 5 if quick else 7
    for s in all_strings(ALPHA, n1):
        if len(s) <= 5 or rng.random() < 0.08:
            words_case(ctx, s)
        widths = range(1, 8) if len(s) <= 4 else (range(2, 7) if len(s) == 5 else [rng.randint(2, 6)])
        for w in widths:
            for fold in (True, False):
                divide_case(ctx, s, w, fold)
    for _ in range(2000 if quick else 60000):
        s = gen_string(rng, 10, ALPHA + EXTRA) if rng.random() < 0.5 else gen_prose(rng, rng.randint(5, 70))
        words_case(ctx, s)
        divide_case(ctx, s, rng.choice([2, 3, 4, 5, 7, 10, rng.randint(2, 200)]), rng.random() < 0.7)
    ctx.flush()

    # ---- 2. Text.wrap: small scope, sampled by seed
    small = list(all_strings(ALPHA, 4))
    n2 = 24000 if quick else 300000
    for k in range(n2):
        r = rng.random()
        if r < 0.35:
            s = rng.choice(small)
        elif r < 0.85:
            s = gen_string(rng, 7, ALPHA)
        else:
            s = gen_string(rng, 9, ALPHA + EXTRA)
        wrap_case(ctx, gen_spec(rng, s), gen_args(rng))
    ctx.flush()

    # ---- 2b. the glue: every combination of the text's own justify / overflow / no_wrap with the arguments
    glue_texts = [("aa bbbbb cc  d", "s4", [(1, 9, "s1"), (4, 12, "s2")])]
    if not quick:
        glue_texts += [("あa\tb  ̀cc\n dd", "", [(0, 5, "s1")]), ("a b c d e f", "s1", [(2, 7, "s2"), (2, 7, "s2")])]
    for s, base, spans in glue_texts:
        for tj in JUSTIFY:
            for j in JUSTIFY:
                for to in OVERFLOW:
                    for ov in OVERFLOW:
                        for tnw in NOWRAP:
                            for nw in NOWRAP:
                                wrap_case(ctx, (s, base, spans, tj, to, tnw, 8), (4, j, ov, 8, nw), shape="glue")
    ctx.flush()

    # ---- 3. exhaustive slices (thorough): every string <= 5 x every single span / every pair on short strings
    if not quick:
        for s in all_strings(ALPHA, 5):
            for w in (2, 3, 4, 5):
                wrap_case(ctx, (s, "s4", [], None, None, None, 8), (w, None, None, 8, None), shape="exh0")
        for s in all_strings(["a", " ", "あ", "\n"], 4, 2):
            sp = all_spans(len(s), ["s1", "s2"])
            if len(s) == 4:
                sp = [x for x in sp if rng.random() < 0.45]
            for a in sp:
                for b in sp:
                    for w in (2, 3):
                        wrap_case(ctx, (s, "", [a, b], None, None, None, 8), (w, rng.choice(JUSTIFY), None, 8, None), shape="exh2")
        ctx.flush()

    # ---- 4. beyond the small scope: prose up to 60 characters, widths up to 200, up to 4 spans
    n4 = 3000 if quick else 100000
    for k in range(n4):
        s = gen_prose(rng, rng.randint(8, 60) if rng.random() < 0.9 else rng.randint(60, 300))
        spec = gen_spec(rng, s, kmax=4)
        w = rng.choice([2, 3, 4, 5, 6, 8, 10, 13, 20, 40, rng.randint(2, 200)])
        _, j, ov, ts, nw = gen_args(rng)
        wrap_case(ctx, spec, (w, j, ov, ts, nw), shape="prose")
    # the two error paths of the tab expansion inside wrap
    for ts in (0, None):
        wrap_case(ctx, ("a\tb", "", [(0, 2, "s1")], None, None, None, None), (4, None, None, ts, None), shape="tabsize")
        wrap_case(ctx, ("ab", "", [], None, None, None, None), (4, None, None, ts, None), shape="tabsize")
    ctx.flush()

    # ---- 4b. histories: one Text object wrapped several times (wrap must not touch its receiver; results independent)
    n4b = 3000 if quick else 60000
    for k in range(n4b):
        r = rng.random()
        if r < 0.5:
            s = gen_string(rng, 6, ["a", "b", " ", "あ", "̀"])  # mostly single lines that fit: wrap works on copy()
        elif r < 0.8:
            s = gen_string(rng, 7, ALPHA)
        else:
            s = gen_prose(rng, rng.randint(8, 40))
        spec = gen_spec(rng, s, kmax=4)
        calls = []
        first = gen_args(rng, wmax=12)
        for c in range(rng.choice([2, 2, 3, 4])):
            q = rng.random()
            if c and q < 0.35:
                calls.append(first)  # the very same call again
            elif c and q < 0.6:
                calls.append((first[0],) + gen_args(rng)[1:])  # same width, other options
            else:
                a_ = gen_args(rng, wmax=12)
                # padding modes matter most: pad_left edits span lists in place
                if rng.random() < 0.5:
                    a_ = (a_[0], rng.choice(["center", "right"]), a_[2], a_[3], a_[4])
                calls.append(a_)
                if not c:
                    first = a_
        history_case(ctx, spec, calls, rng)
    ctx.flush()

    # ---- 4c. a slice with REAL Style objects (bold / italic / colours / links): real __add__, copy, __eq__
    n4c = 2500 if quick else 50000
    npal = len(real_palette()[1])
    for k in range(n4c):
        s = gen_string(rng, 9, ["a", "b", " ", " ", "あ", "̀", "\t", "\n"]) if rng.random() < 0.7 else gen_prose(rng, rng.randint(8, 40))
        n = len(s)
        spans_i = []
        for _ in range(rng.choice([0, 1, 2, 2, 3, 4])):
            a_ = rng.randint(0, n)
            b_ = rng.choice([n, rng.randint(a_, n), min(n, a_ + 2)])
            spans_i.append((a_, b_, rng.randrange(npal)))
        w, j, ov, ts, nw = gen_args(rng, wmax=12)
        if rng.random() < 0.5:
            j = "full"  # the only place where wrap itself compares and stores computed Style objects
        real_case(ctx, s, rng.choice([0, 0, 1, 2, 4, 8]), spans_i, (w, j, ov, ts, nw))
    ctx.flush()

    # ---- 4d. the edges: zero-width characters at line ends, wide characters at the boundary (also with no_wrap),
    #          tab sizes 1 and large, whitespace-only paragraphs, full justification of one-word and blank lines
    edge = []
    for w in (2, 3, 4, 5):
        body = "a" * w
        wide = "あ" * (w // 2) + ("a" if w % 2 else "")
        edge += [
            (body + "̀", w), (body + "̀̀ b", w), (body[:-1] + "̀" + "a", w), ("̀" + body, w), (body + " ̀", w),
            (wide, w), (wide + "あ", w), ("a" + wide, w), (wide + " " + wide, w), (wide[:-1] + " あ", w), (wide + "\x1f", w),
            (body + "\t" + body, w), ("\t" + body, w), (body + "\t", w), ("a\tあ\tb", w),
            (body + "\n   \n" + body, w), ("   ", w), (" \n", w), ("\t\n  \n", w), (body + "\n\n", w), ("\n" + " " * (w + 2), w),
            (" ".join([body] * 3), w), (body + "      " + body, w), (" ".join(["a"] * (w + 2)), w + 2), ("a b  c   " + body, w + 3),
            (body + " " * (2 * w + 1) + "b\n" + body, w), ("あ " * 4, w), ("a　b　" + wide, w),
        ]
    for s, w in edge:
        spans = [(0, len(s), "s1"), (max(0, len(s) - 2), len(s), "s2"), (1, 1, "s3")] if rng.random() < 0.8 else []
        for j in (None, "left", "center", "right", "full"):
            for ov in (None, "crop", "ellipsis", "ignore"):
                for nw in (None, True):
                    for ts in (1, 8) if "\t" in s else (8,):
                        if quick and rng.random() < 0.5:
                            continue
                        wrap_case(ctx, (s, "s4", spans, None, None, None, 8), (w, j, ov, ts, nw), shape="edge")
                        if ts == 8 and "\t" in s and rng.random() < 0.3:
                            wrap_case(ctx, (s, "s4", spans, None, None, None, 8), (w, j, ov, 40, nw), shape="edge")
    ctx.flush()
    if not quick:
        # the property's full range: long texts, widths up to 200
        for k in range(6000):
            s = gen_prose(rng, rng.randint(300, 1500))
            spec = gen_spec(rng, s, kmax=4)
            _, j, ov, ts, nw = gen_args(rng)
            wrap_case(ctx, spec, (rng.choice([2, 7, 20, 50, 79, 80, 120, 199, 200, rng.randint(2, 200)]), j, ov, ts, nw), shape="long")
        ctx.flush()

    # ---- 4e. width 1 (below the boundary when a 2-cell character is present): every string <= 4 (quick) / 5 over
    #          {a, あ, space, U+0300, 、}, justify / overflow / no_wrap interleaved by seed; and the crop theorem on Text.truncate
    nalpha = ["a", "あ", " ", "̀"] if quick else ["a", "あ", " ", "̀", "、"]
    for s in all_strings(nalpha, 4 if quick else 5, 1):
        spans = gen_spans(rng, len(s), 2)
        j = rng.choice(JUSTIFY)
        narrow_case(ctx, (s, rng.choice(["", "s4"]), spans, None, None, None, 8), (1, j, None, 8, None))
        if rng.random() < 0.4:
            narrow_case(ctx, (s, "s4", spans, None, None, None, 8), (1, rng.choice(JUSTIFY), rng.choice(["crop", "ellipsis", "ignore", "fold"]), 8, rng.choice(NOWRAP)))
        if cell_len_is2(s[0]):
            for ov in ("fold", "crop", "ellipsis"):
                narrow_truncate_case(ctx, s, ov, spans)
    for _ in range(60 if quick else 20000):
        s = gen_prose(rng, rng.randint(3, 20))
        narrow_case(ctx, gen_spec(rng, s, kmax=3, attrs=False), (1, rng.choice(JUSTIFY), rng.choice([None, None, "fold", "crop", "ellipsis"]), rng.choice([1, 2, 8]), rng.choice([None, None, False, True])))
    ctx.flush()

    # ---- 5. Lines.justify and get_style_at_offset on their own (lines that wrap itself never produces included)
    n5 = 6000 if quick else 120000
    jalpha = ["a", "b", " ", " ", "あ", "̀", "　"]
    for k in range(n5):
        specs = [gen_spec(rng, gen_string(rng, 8, jalpha), attrs=False) for _ in range(rng.choice([1, 2, 2, 3]))]
        if rng.random() < 0.15:  # an empty / blank / one-word line that is not the last one (the `if spaces:` guard)
            specs.insert(0, gen_spec(rng, rng.choice(["", " ", "  ", "a", "あ", "ab"]), attrs=False))
        justify_case(ctx, specs, rng.randint(2, 9), rng.choice(["left", "center", "right", "full", "full", "default"]), rng.choice(["fold", "crop", "ellipsis", "ignore"]))
    for k in range(1500 if quick else 30000):
        s = gen_string(rng, 5, ["a", " ", "あ"])
        style_at_case(ctx, gen_spec(rng, s, kmax=4, attrs=False), rng.randint(-len(s) - 1, len(s) + 1))
    ctx.flush()


def replay(ctx, case):
    """re-run one recorded failing input on the real code"""
    site = case.get("site", "")
    inp = case.get("input")
    n0 = len(ctx.failures)
    if site in ("wrap:receiver-unchanged", "wrap:results-independent") or (site.startswith("wrap:") and inp and isinstance(inp[1], list) and inp[1] and isinstance(inp[1][0], list)):
        import random

        spec, calls = inp
        spec = (spec[0], spec[1], [tuple(x) for x in spec[2]], *spec[3:])
        history_case(ctx, spec, [tuple(c) for c in calls], random.Random(case.get("seed", 0)))
    elif site == "narrow:crop-wide-first":
        s, ov, spans = inp
        narrow_truncate_case(ctx, s, ov, [tuple(x) for x in spans])
    elif site.startswith("narrow:"):
        spec, args = inp
        spec = (spec[0], spec[1], [tuple(x) for x in spec[2]], *spec[3:])
        narrow_case(ctx, spec, tuple(args))
    elif site.startswith("wrap:"):
        spec, args = inp
        spec = (spec[0], spec[1], [tuple(x) for x in spec[2]], *spec[3:])
        t = build(spec)
        w, j, ov, ts, nw = args
        lines = list(t.wrap(W.FC, w, justify=j, overflow=ov, tab_size=ts, no_wrap=nw))
        evaluate_wrap(ctx, spec, tuple(args), lines)
    elif site.startswith("divide_line"):
        from rich._wrap import divide_line

        s, w, fold = inp
        evaluate_divide_line(ctx, s, w, fold, divide_line(s, w, fold=fold))
    elif site == "words":
        words_case(ctx, inp)
    elif site.startswith("justify"):
        specs, w, j, ov = inp
        specs = [(sp[0], sp[1], [tuple(x) for x in sp[2]], *sp[3:]) for sp in specs]
        justify_case(ctx, specs, w, j, ov)
    return len(ctx.failures) == n0


MANIFEST = {
    "text": (
        "Lean 4 theorems over an executable model of rich/_wrap.py (words, divide_line incl. the fold path through "
        "chop_cells), Text.wrap (split on newlines, tab expansion, no_wrap, divide, rstrip_end, Lines.justify, truncate), "
        "Lines.justify (left/center/right/full) and Text.get_style_at_offset, on top of the C05 Text model and the C13 cell "
        "model; all for an arbitrary width function with cw ' ' = 1, cw '…' = 1, cw c <= 2 (proved for rich's table), "
        "arbitrary opaque style names, and unbounded texts / span sets / widths >= 2.  Proved: divideLine_offsets "
        "(strictly increasing, inside (0,len)); divideLine_pieces_fit; break_only_when_too_wide (an offset between two "
        "non-whitespace characters lies in a regex word whose stripped form is wider than the width, and only with fold); "
        "wrap_lines_fit (whole Text.wrap, every justify mode, every variant: each line <= width unless overflow ignore); "
        "divide_effStyle (Text.divide at ascending offsets cuts the styled string: every character keeps base style + "
        "covering spans in original order, for overlapping/nested/duplicated/empty spans); wrapLine_fold_keeps / "
        "wrapLine_fold_keeps_full / wrapLine_fold_keeps_every_justify (per paragraph, fold, all five justify modes: the "
        "non-whitespace (character, effective style) stream of the produced lines equals the paragraph's; exact for "
        "default/left/center/right, modulo the null style '' for full); wrap_fold_keeps_nonspace (the whole Text.wrap: "
        "newline split, tab expansion with any tab size >= 1, every justify mode, fold: the call succeeds and the "
        "non-whitespace characters of all lines are exactly the text's, in order, each with its effective style in the "
        "normal form 'null style erased, adjacent repetitions merged'); wrap_fold_keeps_nonspace_notabs / "
        "wrap_fold_keeps_styles_exact (sharper comparisons for tab-free texts); wrapLine_style_preserved (every overflow mode, no_wrap on or off, justify other than full: each produced "
        "line is blanks + a prefix of its piece of the styled string, every character with exactly its effective style, + "
        "blanks/ellipsis).  Three genuine defects of rich 9.10.0 as found (span order after divide: found by C05, reproduced through "
        "wrap, fix aad03fe; negative pad_left in Lines.justify: found here, fix 90b2e96; rstrip_end counting characters: found by C08, "
        "fix f5f2be9), all repaired in /repo, are carried as variant flags with machine-checked witnesses (old_wrap_reorders_styles, "
        "old_justify_negative_pad, old_wrap_ellipsis_drops_fitting_char).  Every flag constant holds the repaired value 0.  The model is tied to the real "
        "code on every run by differential execution (complete line state + rendering through the real Text.render) and "
        "the four statements are evaluated directly on rich's output.  wrap_history_pure: in the model a history of wrap "
        "calls on one object leaves the object as it was and answers each call as a fresh copy would (by construction: "
        "the model is a pure function); PURITY OF THE REAL CODE is not a theorem, it is what the history cases check: the "
        "same Text object is wrapped 2-4 times (same / different width, justify, overflow), the model is asked with the "
        "state recorded before the first call, and after every call and after editing a returned line (pad, crop, "
        "stylize, append) the receiver (plain, _length, spans, attributes, rendering) and every earlier returned line "
        "are re-observed and must be unchanged.  "
        "DEEPENING 4 (exact forms, 13 more theorems, 42 in all): the name-list equality is now proved where wrap itself adds "
        "style names - expandTabs_exact / wrap_fold_keeps_styles_exact_tabs (a paragraph with a tab: every character carries "
        "the base style once more IN FRONT of base + spans, nothing else; any tab size >= 1), wrapLine_fold_keeps_full_exact / "
        "fullMark_chars (justify full: the characters of every line of a paragraph but the last carry the null style of "
        "Text('') in front, those of the last line exactly their list), wrap_fold_keeps_exact (whole Text.wrap, every justify "
        "mode, tabs: both marks composed, no normal form), justify_full_line_exact / full_blank_style (the complete styled "
        "string of a rebuilt line incl. the inserted blanks: each blank carries null + ONE style - the Style its two "
        "neighbours share under Style.__eq__, else the line's base style), witnesses tabs_exact_form_fails / "
        "full_exact_form_fails (why the unmarked equality is false there); narrow_wide_first_cropped (below the boundary as a "
        "theorem: at width 1 a line that starts with a 2-cell character is cropped to exactly one blank - fold, crop - or "
        "exactly the ellipsis, for every width function / rest of line / span set); truncate_line_fits (Text.truncate with "
        "pad on or off fits, every overflow but ignore), divideLine_offsets_any_width (fold on or off, any width: ascending "
        "offsets inside the text).  Direct evaluation on real rich added: wrap:style-exact (the exact name lists through the "
        "real Text.render in the free monoid - base style in front for tab paragraphs, '' in front only under full, uniformly "
        "per line, never on the last line - on every generated wrap and history call), and a width-1 generator (every string "
        "<= 4 over {a, 2-cell, space, 0-cell}, prose, all justify / overflow / no_wrap): correspondence wrap_wrap at width 1, "
        "narrow:lines-fit, narrow:wide-dropped (the ink is the input's without the 2-cell characters, styles kept), "
        "narrow:wide-becomes-blank, narrow:crop-wide-first (the theorem on the real Text.truncate)."
    ),
    "note": (
        "boundary (theorems, not comments): everything that keeps characters needs 'every character fits a line' "
        "(forall c, cw c <= w; widths >= 2 with characters <= 2 cells is one instance - statement_range; width 1 with "
        "single-cell characters another - width_one_single_cells); wrap_lines_fit and the two style-preservation theorems "
        "need only w >= 1; below that the statements fail (narrow_wide_character_lost, narrow_offset_zero, "
        "narrow_width_zero_ellipsis).  The normal form in which the headline theorem compares styles is proved sound "
        "(normal_form_sound) for every algebra where + is associative with identity and idempotent up to an equivalence "
        "it respects, rich's real Style algebra (C06 model) is proved to be one (real_styles_idempotent: a + a == a also "
        "with links, since __eq__ compares _link, not _link_id), and wrap_fold_keeps_real_styles is the headline theorem "
        "at that algebra (the Style.__eq__-compared fields of the combined Style of every non-whitespace character are "
        "preserved); a slice of the correspondence and of the direct evaluation runs with real Style objects (bold, "
        "italic, colours, links, equal styles built differently) so real __add__, copy and __eq__ are exercised.  "
        "partial: (1) because Text.expand_tabs re-applies the base style and Text('').join puts the null style in front, "
        "the headline theorem compares effective styles in a normal form (null erased, adjacent repetitions merged); the "
        "exact form is now also proved for tabs and justify full as 'marked' equalities (wrap_fold_keeps_exact: which "
        "characters get which extra name in front), overflow fold only; (1b) narrow_wide_first_cropped is about the crop of a "
        "line that starts with the wide character; that at width 1 every 2-cell character starts a piece of its own is "
        "shown by evaluation (narrow_wide_character_lost) and by the width-1 harness cases, not proved in general; (1c) "
        "purity / no aliasing of the real Text.wrap stays a checked (history cases), not a proved, fact - the model has no "
        "heap; exact width of Lines.justify left/center/right is evaluated (justify:exact-width), not a theorem; (2) the every-overflow-mode statements "
        "(wrapLine_style_preserved for justify default/left/center/right: blanks + prefix of the piece + blanks/ellipsis; "
        "wrapLine_style_preserved_full for justify full: the non-whitespace characters shown are a prefix of the piece's, "
        "with their styles modulo the null style, between ellipses) are per paragraph after tab expansion; all theorems "
        "hold for both forms of Text.rstrip_end (characters vs cells, flag RSTRIP_END_CHARS of props.c05); what the C08 "
        "repair (fix f5f2be9, in /repo now; RSTRIP_END_CHARS = 0) adds is fold_lines_fit_before_crop (+ witness old_wrap_ellipsis_drops_fitting_char: in "
        "rich 9.10.0 as found 'ああ b' at width 4 with overflow ellipsis yielded 'あ …'); (3) styles are opaque names: 'carries exactly the style' is "
        "equality of the list of names applied in order (free monoid), modulo the null style where full justification is "
        "involved; in the direct evaluation equality is up to the laws every rich Style satisfies ('' neutral, x+x = x, "
        "x+y+x = y+x) because tab expansion and full justification re-apply the base style; (4) the whitespace class is "
        "the running Python's str.isspace (generated table); the generated Text.wrap / Lines.justify cases use widths "
        "2..200, plus the width-1 generator of deepening 4 (divide_line is also compared at width 1, on strings of length <= 4; "
        "width 0 of Text.wrap is a theorem only: narrow_width_zero_ellipsis); negative widths, control characters (C05) and inverted spans "
        "are outside the statement.  Variant flags (all at the repaired value): FLAGS = the six Text flags of props.c05 "
        "(CTOR_LEN, CROP_ENDS, STYLIZE_NEG, GETITEM, DIVIDE_ORDER, ALIGN_NEG = 0 each) + JUSTIFY_NEG = 0 + "
        "RSTRIP_END_CHARS = 0, i.e. '00000000'.  known_findings.txt has no open (known:) finding for C02, so a clean run "
        "prints no KNOWN-FINDING line; the classifiers justify-negative-pad and divide-order-alias only label a "
        "regression of the two repaired defects (fixes 90b2e96, aad03fe), which is reported as a violation."
    ),
    "design_ref": "DESIGN.md section 7 (C02), section 8",
}
