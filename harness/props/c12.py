"""C12 — progress accounting is exact for any history and any interleaving.

Correspondence: Lean model (Model/Progress.lean) vs rich.progress.Progress, in-process, on an injected
clock: sequential histories compared after every operation (all task fields, sample deque, derived
values, number of clock reads, error kind); thread programs under a deterministic scheduler replayed by
the model's step machine; Progress.track with and without the helper thread.
Direct evaluation (3d): the statement of C12 on rich's own task objects with a spec-level tracker
(lib_progress.Spec) that knows nothing of the Lean model.
"""
import collections
import io
import os
import itertools
import multiprocessing
import random

import lib_progress as lp
import lib_progressfmt as lpf

PROPERTY = "C12"

# CODE VARIANT FLAGS (value = the code in /repo as it is now; see Model/Progress.lean `Cfg.clockOutside`)
# 1: Progress.advance / Progress.reset call get_time() before `with self._lock`   (rich 9.10.0 as found)
# 0: the read is the first statement under the lock (fix b790bf0 = pending_fixes/C12-clock-read-under-lock.diff; in /repo now)
CLOCK_OUTSIDE = 0

MAXLEN = 1000  # the literal in `while len(_progress) > 1000`


def cfg_str(period, T, terminal=False):
    return f"{period} {MAXLEN} {T} {CLOCK_OUTSIDE} {lp.REFRESH_READS if terminal else 0}"


class LazyClock(lp.Clock):
    """readings are produced on demand from the rng (and recorded), monotone by construction"""

    def __init__(self, units, incs, rng=None, cycle=None, hook=None):
        super().__init__([], units, hook)
        self.incs, self.rng, self.cycle = incs, rng, cycle
        self.now = 0

    def __call__(self):
        if self.hook is not None:
            self.hook()
        if self.cycle is not None:
            self.now += self.cycle[self.k % len(self.cycle)]
        else:
            self.now += self.rng.choice(self.incs)
        self.readings.append(self.now)
        self.k += 1
        return self.units.time(self.now)

    def enc(self):
        # a few spare readings: the model must not read more often than the code did
        extra = [self.now + 1000003 * (i + 1) for i in range(3)]
        return " ".join(str(r) for r in self.readings + extra)


def guard(ctx, site, inp, fn):
    """Run one scenario; whatever it raises (the code under test raising while the scenario is set up,
    a scheduled thread that never parks, a value leaving the exact domain ...) becomes a failed check
    of that scenario instead of ending the run."""
    try:
        return fn()
    except (KeyboardInterrupt, SystemExit):
        raise
    except BaseException as e:  # noqa: BLE001
        import traceback

        tb = traceback.extract_tb(e.__traceback__)
        where = "; ".join(f"{os.path.basename(f.filename)}:{f.lineno} {f.name}" for f in tb[-4:])
        ctx.check(False, site + ":raised", inp, f"{type(e).__name__}: {e}  [{where}]")
        return None


def snapshot(p):
    return {t.id: (t.started, t.finished_time, t.stop_time is not None) for t in p.tasks}


def book(spec, op, u, before, res):
    """spec book-keeping for an operation that returned `res`"""
    if res != "ok":
        return
    op = lp.norm(op)
    if op[0] == "A":
        spec.apply(op, u, False, real_id=lp.LAST["add_id"])
    elif op[0] in "FBE":
        return
    else:
        b = before.get(op[1], (False, None, False))
        spec.apply(op, u, b[0], stopped_before=b[2])


def run_history(ctx, u, period, clock, ops_iter, site, shape, sample=None, obs_of=None, terminal=False):
    """Execute operations on a real Progress, dump after each, queue the model request, evaluate the
    statement directly.  `terminal`: the console is a terminal, so every refresh() really renders (and
    reads the clock 5 times per visible task, which the model has to follow)."""
    p = lp.make_progress(clock, period, u, terminal=terminal)
    spec = lp.Spec()
    enc, ans, done = [], [], []
    for n, op in enumerate(ops_iter(p)):
        obs = obs_of(n) if obs_of else "d"
        before = snapshot(p)
        res = lp.apply_op(p, op, u, glue=n)
        k_after = clock.k
        done.append(op)
        book(spec, op, u, before, res)
        lp.evaluate(ctx, p, spec, op, res, before, site, lp.Lazy(lambda d=done, m=len(done), c=clock: [lp.enc_op(o) for o in d[:m]] + [f"A={u.A} T={u.T} period={period} clock={c.readings[:c.k]}"]))
        head = f"{res}@{k_after}@{'1' if p.finished else '0'}{'1' if p._started else '0'}"
        if obs == "d":
            head += "#" + lp.dump(p, u)
        elif obs == "e":
            head += "#" + lp.dump(p, u, elapsed=True)
        enc.append(lp.enc_op(op) + " " + obs)
        ans.append(head)
        ctx.note(f"op:{op[0]}:{res}")
    if p._started:
        p.stop()
    ctx.case("pg_hist", [cfg_str(period, u.T, terminal), clock.enc(), ";".join(enc)], ";".join(ans),
             shape=shape + ("T" if terminal else ""), sample=sample or "history " + "; ".join(enc[:6]))
    return p


# ------------------------------------------------------------------ 1. bounded-exhaustive histories
def alphabet():
    """one task (id 0, total 3 steps = 6 units of 1/2), one representative per branch of the code"""
    return [
        ("V", 0, 2), ("V", 0, 6), ("V", 0, 0), ("V", 0, -2), ("V", 0, 1),
        ("U", 0, None, 6, None, None, False), ("U", 0, None, 2, None, None, True),
        ("U", 0, 4, None, None, None, False), ("U", 0, 0, None, None, None, False), ("U", 0, -2, None, None, None, False),
        ("U", 0, None, None, 3, None, False), ("U", 0, None, 1, 2, None, False), ("U", 0, None, None, None, False, False),
        ("U", 0, None, None, -1, None, False),
        ("R", 0, True, None, 0, None), ("R", 0, False, 2, 4, True),
        ("P", 0), ("S", 0),
        ("A", False, 2, 2, True, 3, [(1, 5)]), ("V", 1, 2), ("D", 0),
        ("U", 0, None, None, 2, False, True, 7, [(1, 9), (2, 4)]), ("R", 0, True, None, 2, None, 4, [(2, 1)]),
        ("F",), ("B",), ("E",),
    ]


def exhaustive_part(ctx, L, first_index):
    """all histories of length L whose first operation is alphabet()[first_index]"""
    alpha = alphabet()
    u = lp.Units(2, 2)
    cycles = [[1], [3, 0, 4, 5, 1], [0]]
    count = 0
    for idx, rest in enumerate(itertools.product(alpha, repeat=L - 1)):
        seq = (alpha[first_index],) + rest
        for ci, cyc in enumerate(cycles):
            n = (first_index * 7 + idx) * 3 + ci
            if (ci == 2 and L > 2) or (ci == 1 and (L > 3 or (L == 3 and n % 2))):
                continue
            first = ("A", (n % 7) != 3, 6, 0 if n % 5 else 2, True, 1, [(1, 1)] if n % 2 else [])
            clock = LazyClock(u, None, cycle=cyc)
            obs = "de"[(n // 3) % 2]
            guard(ctx, "seq-exhaustive", [lp.enc_op(o) for o in (first,) + seq],
                  lambda: run_history(ctx, u, 4, clock, lambda p, s=seq, f=first: [f] + list(s), "seq-exhaustive", f"len{L}",
                                      obs_of=lambda i, o=obs: o if i % 2 else "d", terminal=(n % 4 == 1)))
            count += 1
    ctx.note("exhaustive-histories", count)


# ------------------------------------------------------------------ 2. random adaptive histories
def pick_amount(rng, u, t, huge):
    """advance amounts around the boundary completed == total of the addressed real task"""
    A = u.A
    rem = None
    if t is not None:
        rem = lp.to_units(t.total, A) - lp.to_units(t.completed, A)
    c = rng.random()
    if rem is not None and c < 0.30:
        return rem + rng.choice([0, 0, -1, 1, -A, A])
    if c < 0.45:
        return rng.choice([0, 1, A, A, 2 * A])
    if c < 0.55:
        return -rng.choice([1, A, 3 * A])
    if huge and c < 0.7:
        return rng.choice([10 ** 15, 2 ** 40 + 1, 10 ** 18]) * A
    return rng.randint(0, 12 * A)


def pick_total(rng, u, huge):
    A = u.A
    c = rng.random()
    if c < 0.12:
        return 0
    if c < 0.2:
        return -rng.randint(1, 5 * A)
    if huge and c < 0.4:
        return rng.choice([10 ** 15, 2 ** 45, 10 ** 18 + 7]) * A
    return rng.choice([1, A, 3 * A, 10 * A, 100 * A, rng.randint(1, 40 * A)])


def pick_fields(rng):
    if rng.random() < 0.6:
        return []
    ks = rng.sample([0, 1, 2, 3], rng.randint(1, 3))
    return [(k, rng.randint(-3, 9)) for k in ks]


def pick_desc(rng):
    return rng.randint(0, 5) if rng.random() < 0.3 else None


def random_ops(rng, u, length, huge, nonneg):
    def gen(p):
        yield ("A", rng.random() < 0.85, pick_total(rng, u, huge), rng.choice([0, 0, 0, u.A, rng.randint(0, 8 * u.A)]), rng.random() < 0.9,
               rng.randint(0, 5), pick_fields(rng))
        for _ in range(length):
            tasks = p.tasks
            ids = [t.id for t in tasks]
            nxt = (max(ids) + 1) if ids else 0
            tid = rng.choice(ids) if ids and rng.random() < 0.93 else rng.randint(0, nxt + 1)
            t = next((x for x in tasks if x.id == tid), None)
            c = rng.random()
            if c < 0.40:
                a = pick_amount(rng, u, t, huge)
                yield ("V", tid, abs(a) if nonneg else a)
            elif c < 0.62:
                tot = pick_total(rng, u, huge) if rng.random() < 0.3 else None
                comp = adv = None
                r = rng.random()
                if r < 0.3:
                    comp = rng.choice([0, u.A, lp.to_units(t.total, u.A) if t else 3, rng.randint(0, 20 * u.A)])
                if 0.2 < r < 0.75:
                    adv = pick_amount(rng, u, t, huge)
                    if nonneg:
                        adv = abs(adv)
                vis = rng.choice([None, None, True, False])
                yield ("U", tid, tot, comp, adv, vis, rng.random() < 0.3, pick_desc(rng), pick_fields(rng))
            elif c < 0.72:
                yield ("R", tid, rng.random() < 0.75, pick_total(rng, u, huge) if rng.random() < 0.4 else None,
                       rng.choice([0, 0, u.A, rng.randint(0, 12 * u.A)]), rng.choice([None, None, True, False]),
                       pick_desc(rng), pick_fields(rng))
            elif c < 0.78:
                yield ("P", tid)
            elif c < 0.84:
                yield ("S", tid)
            elif c < 0.91:
                yield ("A", rng.random() < 0.7, pick_total(rng, u, huge), rng.choice([0, 0, u.A, rng.randint(0, 8 * u.A)]), rng.random() < 0.9,
                       rng.randint(0, 5), pick_fields(rng))
            elif c < 0.95:
                yield rng.choice([("F",), ("F",), ("B",), ("E",)])
            else:
                yield ("D", tid)

    return gen


def random_histories(ctx, count):
    rng = ctx.rng
    for i in range(count):
        A = rng.choice([1, 1, 2, 4, 16])
        T = rng.choice([1, 2, 8, 64])
        terminal = rng.random() < 0.35
        # rendering a time estimate beyond timedelta's range raises OverflowError (TimeRemainingColumn):
        # huge totals only where refresh() does not render
        huge = A == 1 and not terminal and rng.random() < 0.25
        u = lp.Units(A, T, int_only=huge or (A == 1 and rng.random() < 0.5))
        period = rng.choice([0, 1, 3, 4, 8, 30 * T, 30 * T])
        incs = rng.choice([[0, 1, 2], [1], [0, 1, period, period + 1, max(period - 1, 0)], [0, 0, 1, 5 * T], [1, 2, 3, period]])
        clock = LazyClock(u, incs, rng=rng)
        nonneg = rng.random() < 0.6
        length = rng.randint(1, 8) if rng.random() < 0.5 else rng.randint(8, 30)
        guard(ctx, "seq-random", (i, A, T, period, terminal),
              lambda: run_history(ctx, u, period, clock, random_ops(rng, u, length, huge, nonneg), "seq-random",
                                  f"A{A}T{T}{'H' if huge else ''}", obs_of=lambda n, r=rng.random(): "e" if (n * 7 + int(r * 10)) % 3 == 0 else "d",
                                  terminal=terminal))
        ctx.note("hist:period%d" % (0 if period == 0 else 1 if period < 30 else 2))
    ctx.flush()


def long_history(ctx, reps):
    """more than 1000 samples inside the estimate period: the `while len(_progress) > 1000` loop"""
    rng = ctx.rng
    for r in range(reps):
        u = lp.Units(1, 1)
        clock = LazyClock(u, None, cycle=[0, 0, 0, 1] if r % 2 else [0])
        n = MAXLEN + rng.randint(2, 6)
        marks = {MAXLEN - 2, MAXLEN - 1, MAXLEN, MAXLEN + 1, MAXLEN + 2, n, n + 1, n + 2}

        def gen(p, n=n):
            yield ("A", True, 10 ** 6, 0, True)
            for j in range(n):
                yield ("V", 0, 1) if (j + r) % 3 else ("U", 0, None, None, 2, None, False)
            yield ("U", 0, None, None, 1, None, False)
            yield ("V", 0, 1)

        guard(ctx, "seq-long", n, lambda: run_history(ctx, u, 10 ** 6, clock, gen, "seq-long", f"n{n}", obs_of=lambda i: "d" if i in marks else "n"))
    ctx.flush()


# ------------------------------------------------------------------ 3. thread programs under the scheduler
def classify_unsorted(t):
    """F21 shape only: the deque holds samples out of timestamp order (two commits in the opposite
    order of their clock reads)."""
    ts = [s.timestamp for s in t._progress]
    return "advance-clock-read-outside-lock" if any(a > b for a, b in zip(ts, ts[1:])) else None


def choose(rng, strategy, sched, runnable, prio):
    if strategy == "uniform":
        return rng.choice(runnable)
    if strategy == "readers-first":
        rd = [t for t in runnable if sched.kind[t] == "r"]
        return rng.choice(rd) if rd and rng.random() < 0.9 else rng.choice(runnable)
    if strategy == "pct":
        if rng.random() < 0.15:
            prio[rng.choice(runnable)] = -rng.random()
        return max(runnable, key=lambda t: prio[t])
    return runnable[0]


def thread_prog(rng, u, ids, length, nonneg, terminal=False):
    ops = []
    if terminal and rng.random() < 0.2:  # what a _RefreshThread does: k wake-ups, each a refresh()
        return [("F",)] * rng.randint(1, 3)
    for _ in range(length):
        if rng.random() < 0.08:
            ops.append(rng.choice([("B",), ("E",)] + ([("F",)] if terminal else [])))
            continue
        tid = rng.choice(ids) if rng.random() < 0.92 else max(ids) + rng.randint(1, 2)
        c = rng.random()
        if c < 0.55:
            a = rng.choice([1, u.A, 2 * u.A, 0, rng.randint(0, 6 * u.A)])
            ops.append(("V", tid, a if nonneg or rng.random() < 0.7 else -a))
        elif c < 0.75:
            r = rng.random()
            tot = rng.choice([u.A, 4 * u.A, 10 * u.A, 0]) if r < 0.25 else None
            comp = rng.randint(0, 8 * u.A) if 0.2 < r < 0.45 else None
            adv = rng.randint(0 if nonneg else -3, 6 * u.A) if r > 0.4 else None
            ops.append(("U", tid, tot, comp, adv, rng.choice([None, None, None, True, False]), rng.random() < 0.2,
                        pick_desc(rng), pick_fields(rng)))
        elif c < 0.84:
            ops.append(("R", tid, rng.random() < 0.8, None if rng.random() < 0.6 else 5 * u.A, rng.choice([0, u.A]), None,
                        pick_desc(rng), pick_fields(rng)))
        elif c < 0.89:
            ops.append(("P", tid))
        elif c < 0.93:
            ops.append(("S", tid))
        elif c < 0.98:
            ops.append(("A", rng.random() < 0.8, rng.choice([2 * u.A, 10 * u.A]), 0, rng.random() < 0.8, rng.randint(0, 5), pick_fields(rng)))
        else:
            ops.append(("D", tid))
    return ops


def scheduled_run(ctx, nthreads, maxlen, fixed=None, force=None):
    """real threads on one real Progress, one step at a time; `fixed` = (setup, progs, choices) replays"""
    rng = ctx.rng
    A, T = rng.choice([(1, 1), (2, 4), (4, 8)])
    period = rng.choice([30 * T, 30 * T, 4, 1])
    incs = rng.choice([[1], [0, 1], [1, 2, 5]])
    if force:
        A, T, period = force["A"], force["T"], force["period"]
    u = lp.Units(A, T)
    sched = lp.Sched()
    lock = lp.LockProxy(sched)
    clock = LazyClock(u, incs, rng=rng)
    if force:
        r = force["clock"]
        clock = LazyClock(u, None, cycle=[b - a for a, b in zip([0] + r, r)] + [1] * 1000)
    clock.hook = lambda: sched.yield_point("r") if (sched.current() is not None and not lock.held()) else None
    terminal = rng.random() < 0.5
    if force:
        terminal = bool(force.get("terminal", False))
    p = lp.make_progress(clock, period, u, lock=lock, terminal=terminal)
    import rich.progress as rp
    unguarded = []
    orig_task = rp.Task
    rp.Task = lp.make_guarded_task_class(sched, lock, unguarded)
    try:
        return _scheduled_run(ctx, rng, u, A, T, period, sched, lock, clock, p, unguarded, nthreads, maxlen, fixed, terminal)
    finally:
        rp.Task = orig_task
        if p._started:
            p.stop()


def _scheduled_run(ctx, rng, u, A, T, period, sched, lock, clock, p, unguarded, nthreads, maxlen, fixed, terminal):
    spec = lp.Spec()
    nonneg = rng.random() < 0.75
    if fixed:
        setup, progs, strategy = fixed[0], fixed[1], "script"
    else:
        setup = [("A", rng.random() < 0.9, rng.choice([3 * A, 10 * A, 100 * A]), 0, True) for _ in range(rng.randint(1, 3))]
        ids = list(range(len(setup)))
        progs = [thread_prog(rng, u, ids, rng.randint(1, maxlen), nonneg, terminal) for _ in range(nthreads)]
        strategy = rng.choice(["uniform", "uniform", "readers-first", "pct"])
    done_ops = []
    for op in setup:
        res = lp.apply_op(p, op, u)
        book(spec, op, u, {}, res)
        done_ops.append(("setup", op))
    errs = [[] for _ in progs]
    unlocked = []
    pc = [0] * len(progs)

    def worker(i):
        def f():
            for n, op in enumerate(progs[i]):
                n0 = lock.acq_count.get(i, 0)
                errs[i].append(lp.apply_op(p, op, u, glue=i + n))
                if lock.acq_count.get(i, 0) == n0:
                    unlocked.append(lp.enc_op(op))
        return f

    commit_errs = []
    inp = lambda: {"A": A, "T": T, "period": period, "terminal": terminal, "setup": [lp.enc_op(o) for o in setup],
                   "threads": [[lp.enc_op(o) for o in pr] for pr in progs],
                   "schedule": " ".join(f"{k}{t}" for k, t in sched.events), "clock": list(clock.readings)}

    def drain(tid, before):
        """operations of thread `tid` that completed during the step just taken"""
        while pc[tid] < len(errs[tid]):
            op = progs[tid][pc[tid]]
            res = errs[tid][pc[tid]]
            pc[tid] += 1
            commit_errs.append(res)
            book(spec, op, u, before, res)
            lp.evaluate(ctx, p, spec, op, res, before, "threads", inp(), classify=classify_unsorted)
            ctx.note(f"thr-op:{op[0]}:{res}")
            before = snapshot(p)

    for i in range(len(progs)):
        before = snapshot(p)
        sched.spawn(i, worker(i))
        drain(i, before)  # nothing, unless an operation ran without reaching a yield point
    prio = {i: rng.random() for i in range(len(progs))}
    script = list(fixed[2]) if fixed else None
    while True:
        runnable = sched.runnable()
        if not runnable:
            break
        if script is not None:
            tid = script.pop(0) if script and script[0] in runnable else runnable[0]
        else:
            tid = choose(rng, strategy, sched, runnable, prio)
        before = snapshot(p)
        sched.step(tid)
        sched.check_exc()
        drain(tid, before)
    if any(pc[i] != len(progs[i]) for i in range(len(progs))):
        raise RuntimeError("scheduler: threads did not finish")
    ctx.check(not unlocked, "threads:lock-discipline", inp(),
              f"operations ran without acquiring Progress._lock (nothing orders their read-modify-write against other threads): {unlocked[:4]}")
    ctx.check(not unguarded, "threads:lock-discipline", inp(),
              f"task fields written by a thread that did not hold Progress._lock: {sorted(set(unguarded))}")
    inversions = 0
    ev = " ".join(f"{k}{t}" for k, t in sched.events)
    # read/commit inversion: a thread that read the clock earlier commits later
    reads = []
    for k, t in sched.events:
        if k == "r":
            reads.append(t)
        elif k == "c" and t in reads:
            if reads[0] != t:
                inversions += 1
            reads.remove(t)
    ctx.note("sched:inversions>0" if inversions else "sched:inversions=0")
    ctx.note(f"sched:threads{len(progs)}")
    ctx.note("sched:" + strategy)
    ctx.case("pg_sched",
             [cfg_str(period, T, terminal), clock.enc(), ";".join(lp.enc_op(o) + " n" for o in setup),
              "|".join(";".join(lp.enc_op(o) + " n" for o in pr) for pr in progs), ev],
             " ".join(commit_errs) + f"@{clock.k}@0#" + lp.dump(p, u),
             shape=f"t{len(progs)}" + ("T" if terminal else ""), sample=f"{len(progs)} threads, schedule {ev[:80]}")
    return p


def f21_directed(ctx):
    """the smallest schedule shape of interest, always run: two threads advance one task; both read the
    clock, then commit in the opposite order."""
    for a, b in [(1, 1), (2, 3)]:
        setup = [("A", True, 100, 0, True)]
        progs = [[("V", 0, a)], [("V", 0, b)]]
        guard(ctx, "threads", ("directed", a, b, "r0 r1 c1 c0"), lambda: scheduled_run(ctx, 2, 1, fixed=(setup, progs, [0, 1, 1, 0])))
        guard(ctx, "threads", ("directed", a, b, "r0 r1 c0 c1"), lambda: scheduled_run(ctx, 2, 1, fixed=(setup, progs, [0, 1, 0, 1])))


# ------------------------------------------------------------------ 4. Progress.track
def track_seq(ctx, n, mode, existing, setup_ops):
    """auto_refresh=False: dump at every yield and after exhaustion"""
    u = lp.Units(1, 2)
    clock = LazyClock(u, None, cycle=[1, 0, 2])
    p = lp.make_progress(clock, 60, u)
    for op in setup_ops:
        lp.apply_op(p, op, u)
    items = [f"x{i}" for i in range(n)]
    task_id = 0 if existing else None
    if mode == "list":
        seq, total = items, None
    elif mode == "gen":
        seq, total = (x for x in items), n
    elif mode == "range":
        seq, total = range(n), None
        items = list(range(n))
    elif mode == "list0":  # a sized sequence with an explicit total of 0
        seq, total = items, 0
    elif mode == "gen0":  # a generator with an explicit total of 0
        seq, total = (x for x in items), 0
    else:  # total differs from the length
        seq, total = iter(items), n + 2
    out, heads = [], []
    kw = {} if total is None else {"total": total}
    try:
        for v in p.track(seq, task_id=task_id, description="d0", **kw):
            out.append(v)
            heads.append(f"ok@{clock.k}@{'1' if p.finished else '0'}0#" + lp.dump(p, u))
    except lp.DomainError:
        raise
    except BaseException as e:  # noqa: BLE001
        ctx.check(False, "track:raised", (mode, n, existing, total), f"track(total={total!r}) over {n} elements raised {type(e).__name__}: {e}")
        return
    heads.append(f"ok@{clock.k}@{'1' if p.finished else '0'}0#" + lp.dump(p, u))
    tid = task_id if existing else len([o for o in setup_ops if o[0] == "A"])
    t = next((x for x in p.tasks if x.id == tid), None)
    if t is None:
        ctx.check(False, "track:count", (mode, n), "the tracked task does not exist after track()")
        return
    ctx.check(out == items, "track:yields", (mode, n), f"yielded {out!r}, sequence was {items!r}")
    ctx.check(t.total == (n if total is None else total), "track:total", (mode, n, total),
              f"task total is {t.total!r} after track(total={total!r}) over {n} elements")
    if not existing:
        ctx.check(t.completed == n, "track:count", (mode, n), f"fresh task completed={t.completed!r} after {n} elements")
    else:  # existing task (completed=2 before): the count adds to what was there
        ctx.check(t.completed == 2 + n, "track:count-existing", (mode, n), f"existing task completed={t.completed!r} after {n} more elements")
    tot = total if total is not None else n
    ctx.case("pg_track", [cfg_str(60, 2), clock.enc(), ";".join(lp.enc_op(o) + " n" for o in setup_ops), "seq",
                          "_" if task_id is None else task_id, tot, n, ""],
             f"{len(out)}!" + ";".join(heads) + "!" + lp.dump(p, u), shape=f"seq-{mode}", sample=f"track({mode}, n={n}, existing={existing})")


def track_args(items, tot_mode):
    """(sequence, total keyword, total the task must get): explicit total n over an iterator, explicit
    total 0 over a list / a generator, or no total over a sized list"""
    n = len(items)
    if tot_mode == "n":
        return iter(items), {"total": n}, n
    if tot_mode == "zero-list":
        return list(items), {"total": 0}, 0
    if tot_mode == "zero-gen":
        return (x for x in items), {"total": 0}, 0
    return list(items), {}, n


TOT_MODES = ["n", "n", "len", "zero-list", "zero-gen"]


def track_thread(ctx, n, existing, close_after=None, tot_mode="n"):
    """auto_refresh=True (no display started): rich's own _TrackThread.run under the scheduler"""
    import rich.progress as rp

    rng = ctx.rng
    u = lp.Units(1, 2)
    sched = lp.Sched()
    lock = lp.LockProxy(sched)
    clock = LazyClock(u, [0, 1, 3], rng=rng)
    clock.hook = lambda: sched.yield_point("r") if (sched.current() is not None and not lock.held()) else None
    p = lp.make_progress(clock, 60, u, lock=lock, auto_refresh=True)
    setup = [("A", True, 50, 3, True)] if existing else []
    for op in setup:
        lp.apply_op(p, op, u)
    seen = []
    items = list(range(n))
    out = []
    at_return = []
    orig = rp._TrackThread
    rp._TrackThread = lp.make_track_thread_class(sched, seen)
    try:
        def consumer():
            seq, kw, _ = track_args(items, tot_mode)
            gen = p.track(seq, task_id=0 if existing else None, description="d0", update_period=0.1, **kw)
            for v in gen:
                out.append(v)
                sched.yield_point("y")
                if close_after is not None and len(out) == close_after:
                    gen.close()
                    break
            # the moment track() returns to its caller (no lock taken: plain read of the dict)
            at_return.extend(t.completed for t in p._tasks.values() if t.id == 0)

        sched.spawn("cons", consumer)
        w_cons = rng.choice([0.3, 0.5, 0.8])
        steps = 0
        while True:
            runnable = sched.runnable()
            if not runnable:
                break
            if "cons" in runnable and (len(runnable) == 1 or rng.random() < w_cons):
                tid = "cons"
            else:
                tid = rng.choice([t for t in runnable if t != "cons"] or runnable)
            sched.step(tid)
            steps += 1
            if steps > 5000:
                raise RuntimeError("track scheduler: no termination")
    finally:
        rp._TrackThread = orig
    if sched.exc:  # track() itself or a thread it started raised (possibly before the helper thread existed)
        ctx.check(False, "track-thread:raised", (n, existing, close_after, tot_mode),
                  "track() / helper thread raised " + "; ".join(f"{w}: {type(e).__name__}: {e}" for w, e in sched.exc.items()))
        return
    if sched.state.get("track") not in (None, "done") or sched.state["cons"] != "done":
        raise RuntimeError("track scheduler: a thread is stuck")
    want_total = track_args(items, tot_mode)[2]
    done = n if close_after is None else close_after - 1
    wakes = [v for v, fl in seen if not fl]
    finals = [v for v, fl in seen if fl]
    final = finals[-1] if finals else None
    tid = 0
    t = next((x for x in p.tasks if x.id == tid), None)
    if t is None:
        ctx.check(False, "track-thread:count", (n, existing, tot_mode), "the tracked task does not exist after track()")
        return
    want_items = items if close_after is None else items[:close_after]
    ctx.check(out == want_items, "track-thread:yields", (n, close_after), f"yielded {out!r}")
    ctx.check(t.total == want_total, "track-thread:total", (n, tot_mode), f"task total {t.total!r}, wanted {want_total}")
    ctx.check(len(finals) == 1 and final == done, "track-thread:counter", (n, close_after, seen),
              f"helper thread read its counter {len(finals)} time(s) after it was told to stop, last value {final}; elements completed {done}")
    if close_after is None:
        ctx.check(t.completed == n, "track-thread:count", (n, existing, " ".join(f"{k}{x}" for k, x in sched.events)),
                  f"completed={t.completed!r} after {n} elements (wake-ups saw {wakes})")
    ctx.check(at_return == [done], "track-thread:count-at-return", (n, existing, close_after, " ".join(f"{k}{x}" for k, x in sched.events)),
              f"when track() returned, completed was {at_return} (elements completed: {done})")
    ctx.check(all(a <= b for a, b in zip(wakes, wakes[1:])), "track-thread:monotone", wakes, "counter seen by the helper went down")
    ctx.note(f"track-thread:wakes{min(len([1 for a, b in zip([0] + wakes, wakes) if a != b]), 4)}")
    # the operations are issued by rich's own helper thread, so there is no observation between them:
    # compared are the number of elements completed, the number of clock reads and the final dump
    ctx.case("pg_track", [cfg_str(60, 2), clock.enc(), ";".join(lp.enc_op(o) + " n" for o in setup), "thr",
                          "0" if existing else "_", want_total, done, " ".join(map(str, wakes))],
             f"FINAL:{done}@{clock.k}!" + lp.dump(p, u), shape="thr-" + tot_mode, sample=f"track thread n={n} total={tot_mode} wakes={wakes}")


def track_live(ctx, n, refresh_weight, tot_mode="n"):
    """The whole auto-refresh path under the scheduler, on a terminal console: `with progress:` (start()
    spawns rich's _RefreshThread), `progress.track(...)` (spawns rich's _TrackThread), stop().  Three
    threads; every operation is atomic under the lock, so the run is the sequential history of the
    operations in lock-acquisition order — which is what the model is asked to reproduce."""
    import rich.progress as rp

    rng = ctx.rng
    u = lp.Units(1, 2)
    sched = lp.Sched()
    lock = lp.LockProxy(sched)
    clock = LazyClock(u, [0, 1, 3], rng=rng)
    clock.hook = lambda: sched.yield_point("r") if (sched.current() is not None and not lock.held()) else None
    p = lp.make_progress(clock, 60, u, lock=lock, auto_refresh=True, terminal=True)
    seen, out, at_return = [], [], []
    items = list(range(n))
    orig = rp._TrackThread, rp._RefreshThread
    rp._TrackThread = lp.make_track_thread_class(sched, seen)
    rp._RefreshThread = lp.make_refresh_thread_class(sched)
    try:
        def consumer():
            seq, kw, _ = track_args(items, tot_mode)
            with p:
                for v in p.track(seq, description="d0", update_period=0.1, **kw):
                    out.append(v)
                    sched.yield_point("y")
                at_return.extend(t.completed for t in p._tasks.values())

        sched.spawn("cons", consumer)
        steps = 0
        while True:
            runnable = sched.runnable()
            if not runnable:
                break
            r = rng.random()
            if "refresh" in runnable and (r < refresh_weight or len(runnable) == 1):
                tid = "refresh"
            else:
                tid = rng.choice([t for t in runnable if t != "refresh"] or runnable)
            sched.step(tid)
            steps += 1
            if steps > 20000:
                raise RuntimeError("track-live scheduler: no termination")
    finally:
        rp._TrackThread, rp._RefreshThread = orig
    site_in = (n, tot_mode, " ".join(f"{k}:{x}" for k, x in sched.events))
    if sched.exc:  # start() / track() / a thread raised, possibly before the helper threads existed
        ctx.check(False, "track-live:raised", site_in,
                  "`with progress: track(...)` raised " + "; ".join(f"{w}: {type(e).__name__}: {e}" for w, e in sched.exc.items()))
        return
    for who in ("cons", "track", "refresh"):
        if sched.state.get(who) != "done":
            raise RuntimeError(f"track-live scheduler: thread {who} is {sched.state.get(who)}")
    want_total = track_args(items, tot_mode)[2]
    wakes = [v for v, fl in seen if not fl]
    finals = [v for v, fl in seen if fl]
    ctx.check(out == items, "track-live:yields", site_in, f"yielded {out!r}")
    ctx.check(finals == [n], "track-live:counter", site_in, f"helper thread's final count {finals}, elements {n}")
    ctx.check(at_return == [n], "track-live:count-at-return", site_in, f"completed {at_return} when track() returned, elements {n}")
    ts = p.tasks
    ctx.check(len(ts) == 1 and ts[0].completed == n and (ts[0].finished or n < want_total), "track-live:count", site_in,
              f"after the run: {[(t.completed, t.finished) for t in ts]}")
    ctx.check(len(ts) == 1 and ts[0].total == want_total, "track-live:total", site_in,
              f"task total {[t.total for t in ts]}, wanted {want_total}")
    ctx.check(not any(k == "r" for k, _ in sched.events), "threads:lock-discipline", site_in, "a clock read outside the lock")
    # the history in lock-acquisition order
    per = {"cons": iter([("B",), ("A", True, want_total, 0, True, 0, []), ("E",)]),
           "track": iter([("V", 0, b - a) for a, b in zip([0] + wakes, wakes) if a != b] + [("U", 0, None, n, None, None, True)])}
    hist, ok = [], True
    for k, who in sched.events:
        if k != "c":
            continue
        if who == "refresh":
            hist.append(("F",))
        else:
            op = next(per[who], None)
            if op is None:
                ok = False
                break
            hist.append(op)
    ok = ok and all(next(it, None) is None for it in per.values())
    ctx.check(ok, "track-live:operations", site_in, "lock acquisitions do not match start / add_task / advances / final update / stop")
    if not ok:
        return
    ctx.note(f"track-live:refreshes{min(sum(1 for o in hist if o == ('F',)), 5)}")
    ctx.note(f"track-live:advances{min(sum(1 for o in hist if o[0] == 'V'), 4)}")
    enc = [lp.enc_op(o) + " q" for o in hist[:-1]] + [lp.enc_op(hist[-1]) + " d"]
    ctx.case("pg_hist", [cfg_str(60, 2, True), clock.enc(), ";".join(enc)],
             f"ok@{clock.k}@{'1' if p.finished else '0'}{'1' if p._started else '0'}#" + lp.dump(p, u),
             shape="live-" + tot_mode, sample=f"with progress: track({n}, total={tot_mode}) with refresh + track threads: " + " ".join(lp.enc_op(o)[0] for o in hist))


def track_real_timing(ctx, n):
    """real _TrackThread and _RefreshThread with real Events (nondeterministic batches): only the
    statement is evaluated"""
    import time

    from rich.console import Console
    from rich.progress import Progress

    p = Progress(console=Console(file=io.StringIO(), width=60), auto_refresh=True, refresh_per_second=200)
    out = []
    with p:
        for v in p.track(range(n), update_period=0.0002):
            out.append(v)
            if v % 64 == 0:
                time.sleep(0)  # let the helper run; no correctness dependence on timing
    if not p.tasks:
        ctx.check(False, "track-real:count", n, "no task after track()")
        return
    t = p.tasks[0]
    ctx.check(out == list(range(n)), "track-real:yields", n, "elements lost or reordered")
    ctx.check(t.completed == n, "track-real:count", n, f"completed={t.completed!r} after {n} elements")
    ctx.check(t.finished, "track-real:finished", n, "task not finished after consuming the whole sequence")


def track_errors(ctx):
    from rich.progress import Progress
    from rich.console import Console

    p = Progress(console=Console(file=io.StringIO()), auto_refresh=False)
    try:
        list(p.track(x for x in range(3)))
        ok = False
    except ValueError:
        ok = True
    ctx.check(ok, "track:unsized", "generator without total", "no ValueError for a sequence of unknown length without total")
    ctx.check(p.tasks == [], "track:unsized", "generator without total", "a task was added although track raised")


# ------------------------------------------------------------------ 5. terminal console (refresh renders, reads the clock)
def terminal_histories(ctx, count):
    """refresh() really renders here (columns call task.get_time()), so clock reads are not comparable
    with the model; the statement is evaluated directly."""
    rng = ctx.rng
    for _ in range(count):
        done = []
        guard(ctx, "terminal", done, lambda: _terminal_history(ctx, rng, done))


def _terminal_history(ctx, rng, done):
    if True:
        u = lp.Units(rng.choice([1, 2]), rng.choice([1, 4]))
        period = rng.choice([4, 30 * u.T])
        clock = LazyClock(u, [0, 1, 2], rng=rng)
        p = lp.make_progress(clock, period, u, terminal=True)
        spec = lp.Spec()
        for n, op in enumerate(random_ops(rng, u, rng.randint(2, 12), False, True)(p)):
            before = snapshot(p)
            res = lp.apply_op(p, op, u, glue=n)
            done.append(lp.enc_op(op))
            book(spec, op, u, before, res)
            lp.evaluate(ctx, p, spec, op, res, before, "terminal", list(done))
            if n % 3 == 0:
                try:
                    p.refresh()
                    ok = True
                except BaseException as e:  # noqa: BLE001
                    ok = False
                    why = f"{type(e).__name__}: {e}"
                ctx.check(ok, "terminal:refresh", list(done), "refresh() raised " + ("" if ok else why))


def percentages(ctx):
    """Task.percentage and ProgressBar.percentage_completed on a grid around the clamps"""
    from rich.progress import Task
    from rich.progress_bar import ProgressBar

    vals = [-7, -3, -1, 0, 1, 2, 3, 5, 6, 7, 100, 101, 2 ** 40, 10 ** 15 + 1]
    for tot in vals:
        for comp in vals:
            for fl in (False, True):
                if fl and max(abs(tot), abs(comp)) > 2 ** 50:
                    continue
                T, C = (float(tot), float(comp)) if fl else (tot, comp)
                t = Task(0, "d", T, C, _get_time=lambda: 0.0)
                pe = lp.exact_percentage(T, C)
                pr = lp.get(t, "percentage")
                ctx.check(isinstance(pr, float) and lp.close(pr, pe), "percentage_spec", (T, C), f"Task.percentage={pr!r}, exact {pe}")
                ctx.case("pg_pct", [tot, comp], lp.frac(pe) if lp.close(pr, pe) else f"float:{pr!r}", shape="task")
                if tot != 0:
                    br = lp.get(ProgressBar(total=T, completed=C), "percentage_completed")
                    ctx.check(lp.close(br, pe), "percentage_spec:bar", (T, C), f"ProgressBar.percentage_completed={br!r}, exact {pe}")
                    ctx.case("pg_pct", [tot, comp], lp.frac(pe) if lp.close(br, pe) else f"float:{br!r}", shape="bar")
    ctx.flush()


class Stub:
    """stands in for Ctx inside a worker process: collects cases, checks and notes for the parent"""

    def __init__(self, quick, seed, key):
        self.quick = quick
        self.tier = "quick" if quick else "thorough"
        self.seed = seed
        self.rng = random.Random(f"{seed}/{key}")
        self.cases, self.fails = [], {}
        self.calls, self.notes = collections.Counter(), collections.Counter()

    def case(self, fn, args, ans, shape=None, sample=None):
        self.cases.append((fn, [str(a) for a in args], str(ans), shape, sample))

    def check(self, ok, site, inp, what, finding=None):
        self.calls[site] += 1
        if not ok:
            r = repr(inp)
            old = self.fails.get((site, finding))
            if old is None or len(r) < len(old[0]):
                self.fails[(site, finding)] = (r, what)
            self.notes["PROPFAIL:" + site + (":" + finding if finding else "")] += 1
        return bool(ok)

    def note(self, key, n=1):
        self.notes[key] += n

    def flush(self):
        pass


def _job(job):
    kind, quick, seed, key, arg = job
    lp.STATS.clear()
    st = Stub(quick, seed, key)
    try:
        if kind == "exh":
            exhaustive_part(st, *arg)
        elif kind == "rand":
            random_histories(st, arg)
        elif kind == "sched":
            for i in range(arg):
                nt = st.rng.choice([2, 2, 3, 3, 4] if i % 8 else [5, 6, 8])
                guard(st, "threads", (key, i, nt), lambda: scheduled_run(st, nt, 3 if nt <= 4 else 2))
        elif kind == "thr":
            for i in range(arg):
                n = st.rng.randint(0, 7)
                existing = st.rng.random() < 0.3
                close_after = st.rng.randint(1, n) if n and st.rng.random() < 0.15 else None
                tm = "n" if existing else st.rng.choice(TOT_MODES)
                guard(st, "track-thread", (key, i, n, existing, close_after, tm), lambda: track_thread(st, n, existing, close_after, tm))
        elif kind == "live":
            for i in range(arg):
                n, w, tm = st.rng.randint(0, 6), st.rng.choice([0.1, 0.3, 0.5]), st.rng.choice(TOT_MODES)
                guard(st, "track-live", (key, i, n, tm), lambda: track_live(st, n, w, tm))
        elif kind == "term":
            terminal_histories(st, arg)
    except (KeyboardInterrupt, SystemExit):
        raise
    except BaseException as e:  # noqa: BLE001 - a worker never aborts the run
        import traceback

        st.check(False, f"job:{kind}:raised", key, f"{type(e).__name__}: {e}\n" + traceback.format_exc()[-1500:])
    return st.cases, dict(st.calls), st.fails, dict(st.notes), dict(lp.STATS)


def parallel(ctx, jobs):
    """run jobs in worker processes (each with its own rng derived from the seed and the job key, so a
    seed replays), merge their cases / checks / notes into ctx in job order"""
    with multiprocessing.get_context("fork").Pool(min(12, max(2, (multiprocessing.cpu_count() or 4) - 2))) as pool:
        it = pool.imap(_job, jobs)
        for job in jobs:
            try:
                cases, calls, fails, notes, stats = it.next(timeout=1200)
            except multiprocessing.TimeoutError:
                ctx.check(False, f"job:{job[0]}:timeout", job[3], "a worker did not finish its scenarios within 20 minutes (the code under test hangs?)")
                pool.terminate()
                break
            except (KeyboardInterrupt, SystemExit):
                raise
            except BaseException as e:  # noqa: BLE001
                ctx.check(False, f"job:{job[0]}:raised", job[3], f"worker failed: {type(e).__name__}: {e}")
                continue
            for fn, args, ans, shape, sample in cases:
                ctx.case(fn, args, ans, shape=shape, sample=sample)
            nf = collections.Counter(site for (site, _f) in fails)
            for site, n in calls.items():
                ctx.dist["prop:" + site] += n - nf[site]
            for (site, finding), (inp, what) in fails.items():
                ctx.check(False, site, inp, what, finding=finding)
            for k, v in notes.items():
                if not k.startswith("PROPFAIL:"):
                    ctx.note(k, v)
                else:
                    ctx.dist[k] += max(v - 1, 0)
            lp.STATS.update(stats)
            ctx.flush()


def run(ctx):
    ctx.assumptions += [
        "amounts and clock readings are integers or dyadic fractions (units 1/A, 1/T with A,T powers of two, magnitudes < 2^62/A for ints, floats exact): on these every + - comparison of the real float/int arithmetic is exact and equals the model's Int arithmetic",
        "ratios (percentage, speed, time_remaining) are compared through exact fractions computed from the real task's raw fields; the real float getters must equal them up to relative 1e-11 (decision), the ceiling of time_remaining up to that slack",
        "description is an opaque id (strings d<n>), user fields a dict f<k> -> int in insertion order",
        "refresh() reads the clock 5 times per visible task on a terminal console with the default columns (model parameter refreshReads, validated by every terminal run) and does nothing otherwise; what it writes is not modelled",
        "columns / filesize (pf_*): sizes, totals and counts are Python ints (or whole-number floats below 2^50, and for ProgressBar only where width*2*completed < 2^53); int/int and float/float division and ',.1f' / '.0f' formatting are modelled exactly (correctly rounded double, half-even on the binary value) and compared as text; Column.render is called on real Task objects / stubs, not through ProgressColumn.__call__ (its max_refresh cache is not modelled); pf_col cases whose real time_remaining differs from the exact ceiling by float slack are evaluated directly but not compared",
        "threads: one step = code between two yield points (clock read outside the lock / outermost lock acquisition / Event.wait of the track thread); a thread holding the lock is never preempted, so preemption inside a body and inside a source line is not exhibited",
    ]
    quick = ctx.quick
    guard(ctx, "percentage_spec", "grid", lambda: percentages(ctx))
    lpf.run_fmt(ctx, guard, cfg_str)
    f21_directed(ctx)
    long_history(ctx, 2 if quick else 8)
    for n in range(0, 6 if quick else 12):
        for mode in ("list", "gen", "range", "total+2", "list0", "gen0"):
            for existing in (False, True):
                setup = [("A", True, 7, 2, True)] if existing else ([] if n % 2 else [("A", False, 3, 1, True)])
                guard(ctx, "track", (mode, n, existing), lambda: track_seq(ctx, n, mode, existing, setup))
    ctx.flush()
    jobs = []
    na = len(alphabet())
    for L in range(1, (3 if quick else 4) + 1):
        jobs += [("exh", quick, ctx.seed, f"exh{L}.{i}", (L, i)) for i in range(na)]
    chunks = 12 if quick else 96
    jobs += [("rand", quick, ctx.seed, f"rand{i}", (3000 if quick else 60000) // chunks) for i in range(chunks)]
    jobs += [("sched", quick, ctx.seed, f"sched{i}", (2400 if quick else 48000) // chunks) for i in range(chunks)]
    jobs += [("thr", quick, ctx.seed, f"thr{i}", (240 if quick else 4800) // chunks) for i in range(chunks)]
    jobs += [("live", quick, ctx.seed, f"live{i}", (240 if quick else 4800) // chunks) for i in range(chunks)]
    jobs += [("term", quick, ctx.seed, f"term{i}", (120 if quick else 2400) // chunks) for i in range(chunks)]
    parallel(ctx, jobs)
    for n in ([0, 1, 50, 400] if quick else [0, 1, 2, 50, 400, 3000, 20000]):
        guard(ctx, "track-real", n, lambda: track_real_timing(ctx, n))
    guard(ctx, "track", "unsized without total", lambda: track_errors(ctx))
    for k, v in sorted(lp.STATS.items()):
        ctx.note(k, v)
    ctx.rule = (
        "sequential: every history of <= %d operations over a 26-symbol alphabet (one representative per branch of "
        "advance/update/reset/start/stop/add/remove/refresh/Progress.start/stop, amounts below/at/above the total, zero and "
        "negative, description and field updates) x clock patterns x terminal/non-terminal console, "
        "then seeded adaptive random histories (1-30 ops, several tasks, units 1/1..1/16, totals zero/negative/huge, "
        "periods 0..30 s with increments at the pruning boundary) and >1000-sample histories; threads: 2-8 real threads x "
        "1-3 ops under uniform / readers-first / PCT schedules at the read and lock yield points; track: lengths 0..n over "
        "list/generator/range, fresh or existing task, helper thread under random schedules, and `with progress: track()` with "
        "rich's refresh and track threads (3 threads) on a terminal console; columns / filesize: bounded-exhaustive grids "
        "(bases 1000/1024/2/3/10 x 0..9 suffixes x sizes at, below and above every power and at the one-decimal ties; "
        "timedelta seconds at every field boundary, both signs, the OverflowError edge; bars of width 1/2/3/10/40 x totals x "
        "counts around every half cell) then seeded random sizes up to 10^40 and random tasks with samples; "
        "distinct = distinct canonical requests"
        % (3 if quick else 4)
    )


def dec_op(s):
    t = s.split(" ")
    b = lambda x: None if x == "_" else x == "1"
    i = lambda x: None if x == "_" else int(x)
    f = lambda x: [] if x == "-" else [tuple(int(y) for y in kv.split(":")) for kv in x.split(",")]
    k = t[0]
    if k == "A":
        return ("A", b(t[1]), int(t[2]), int(t[3]), b(t[4]), int(t[5]), f(t[6]))
    if k in "SPD":
        return (k, int(t[1]))
    if k == "U":
        return ("U", int(t[1]), i(t[2]), i(t[3]), i(t[4]), b(t[5]), b(t[6]), i(t[7]), f(t[8]))
    if k == "R":
        return ("R", int(t[1]), b(t[2]), i(t[3]), int(t[4]), b(t[5]), i(t[6]), f(t[7]))
    if k in "FBE":
        return (k,)
    return ("V", int(t[1]), int(t[2]))


def replay(ctx, case):
    """re-run a recorded thread schedule on the real code (other sites: re-run the seeded check)"""
    print("site:", case.get("site"))
    print("what:", case.get("what"))
    inp = case.get("input")
    if isinstance(inp, str):
        import ast
        try:
            inp = ast.literal_eval(inp)
        except (ValueError, SyntaxError):
            pass
    if str(case.get("site", "")).startswith("threads") and isinstance(inp, dict) and "schedule" in inp:
        setup = [dec_op(o) for o in inp["setup"]]
        progs = [[dec_op(o) for o in pr] for pr in inp["threads"]]
        script = [int(e[1:]) for e in inp["schedule"].split(" ") if e]
        scheduled_run(ctx, len(progs), 0, fixed=(setup, progs, script), force=inp)
        for f in ctx.failures:
            print("FAILS AGAIN:", f["site"], "-", f["what"])
        return not ctx.failures
    print("input:", inp)
    print("re-run `./check C12` to re-evaluate (the generators are seeded: VERIF_SEED=%s)" % case.get("seed"))
    return False


MANIFEST = {
    "text": "Lean 4 theorems (Props/C12.lean; no bound on the number of operations, tasks, threads or on the schedule; "
    "amounts and clock readings arbitrary integers in units 1/A step, 1/tps second) about an executable model of "
    "rich/progress.py: Task (incl. description, user fields, visible), add_task/start_task/stop_task/update/reset/advance/"
    "remove_task, Progress.refresh/start/stop with the clock reads a refresh makes, percentage/finished/elapsed/speed/"
    "time_remaining, Progress.track, _TrackThread, _RefreshThread (k wake-ups = k refreshes), and a thread step machine "
    "(clock read outside the lock, atomic body under the lock). completed_exact (last explicitly set value + advances "
    "since, by induction over histories incl. failing ops, other tasks, removals); percentage_spec and, over Q (Mathlib), "
    "percentage_spec_rat = min 100 (max 0 (completed/total*100)) / 0 for total 0, speed_spec_rat, time_remaining_spec_rat "
    "with the exact ceiling; finished_after_reaching_total; finish_time_stable; speed_nonneg and "
    "remaining_nonneg_when_running (invariants: samples sorted by timestamp and non-negative on a monotone clock; started & "
    "unfinished & has samples => completed < total); accounting_linearizable (for every schedule the counters, descriptions "
    "and fields equal the sequential history in lock-acquisition order) with completed_exact_all_schedules; "
    "refresh_threads_harmless (refresh/start/stop, any number of refresh threads, never change the task table); "
    "fixed_schedules_are_sequential + speed_nonneg_all_schedules for the code in /repo now (fix b790bf0: clock read under "
    "the lock, clockOutside = false), the machine-checked witness old_speed_negative_under_schedule of the repaired defect "
    "F21 (rich 9.10.0 as found, clockOutside = true) with fixed_speed_under_same_schedule; task_ids_distinct, "
    "task_ids_never_reused, add_task_id_fresh; elapsed_nonneg (elapsed and recorded finish time are >= 0 unless a stopped "
    "task is reset) with the witness reset_after_stop_negative_elapsed showing that case satisfies every clause of C12; "
    "track_counts / track_thread_counts (any batching by the helper thread). Added in deepening round 4: speed_window / "
    "samples_within_window (monotone clock, period >= 0: after any history the deque is sorted and the span speed divides by "
    "is in (0, speed_estimate_period] - the first pruning loop) and samples_bounded (any clock: never more than 1000+1 "
    "samples - the second loop); track_finishes_iff (track() without helper thread on a fresh task, any total vs any length: "
    "total unchanged, completed = length, finished iff at least one element and total <= length); rich/filesize.py and the "
    "columns are now MODELLED (Model/ProgressFmt.lean): pick_unit_and_suffix, _to_str, decimal, DownloadColumn text, "
    "TimeRemainingColumn / TimeElapsedColumn text incl. str(timedelta) with its OverflowError branch, the percentage text "
    "'{task.percentage:>3.0f}', BarColumn's arguments, ProgressBar's complete_halves and drawn cells, TransferSpeedColumn; "
    "Python's float division and ',.1f' / '.0f' formatting are modelled EXACTLY (rn53 = correctly rounded double of a "
    "rational, half-even formatting of the binary value), compared as text with no tolerance. Theorems: pick_unit_law + "
    "pick_unit_unique (unit = base^i, unit <= size < unit*base except at the two ends, and for base >= 2 that index is the "
    "only one), to_str_unit_law (1 byte / bytes / base^(j+1) <= size < base^(j+2), last suffix unbounded, no suffix raises), "
    "td_fields_spec (floor divmod fields for every integer, OverflowError iff |days| > 999999999), td_str_hms, "
    "time_remaining_text_dashes ('-:--:--' iff time_remaining is None), bar_args_clamped, bar_halves_zero_total and "
    "bar_text_width_partial (a bar is exactly width cells IF complete_halves <= 2*width; that bound through the rounded "
    "division is not proved, the harness evaluates it on every drawn bar). Not proved about the float layer: rn53/fixedStr "
    "are validated by correspondence only (pf_fixed / pf_trunc against Python's own a/b formatting incl. ties and 2^53 "
    "neighbours). Tie: the model is run against real rich on an "
    "injected clock - every history of <=3 (thorough 4) ops over a 26-symbol alphabet, seeded adaptive random histories, "
    ">1000-sample histories, on non-terminal and terminal consoles, compared after every operation on all task fields, the "
    "sample deque, derived values, Progress.finished/_started, number of clock reads and error kind; 2-8 real threads under "
    "a deterministic scheduler replayed step by step by the model; Progress.track over list/generator/range with and "
    "without the helper thread, and the whole auto-refresh path (`with progress: track(...)` with rich's own _RefreshThread "
    "and _TrackThread run loops under the scheduler, 3 threads) reproduced by the model as the history in lock-acquisition "
    "order. Direct evaluation of the statement on rich's own tasks with an independent spec tracker, incl. lock discipline, "
    "ids never reused, and non-negative elapsed outside the reset-after-stop case.",
    "note": "Trusted: Lean kernel; axioms propext/Classical.choice/Quot.sound; the correspondence harness incl. the "
    "scheduler. Exact-in-double inputs only (integers and dyadic fractions): float rounding of +/- is outside the model; "
    "ratios are compared as exact fractions computed from the real task's raw fields, the real float getters must match "
    "them to 1e-11 relative. A thread holding the lock is never preempted and preemption inside a source line is not "
    "exhibited: 'no lost update' rests on the checked lock discipline. refresh() is modelled only by the number of clock "
    "reads it makes (model parameter: 5 per visible task with the default columns on a terminal, 0 otherwise); what each "
    "default column computes from a task is modelled and tied separately as pure functions of the task (pf_col, pf_bar, "
    "pf_td: Column.render on real Task objects; the max_refresh cache of ProgressColumn.__call__, styles, the table layout "
    "and the pulse animation are not modelled; float inputs only where width*2*completed stays exact in double); what "
    "refresh() writes to the console, custom columns, and rendering errors inside a live refresh are not modelled - "
    "observed and excluded from terminal runs: "
    "refresh()/start()/update(refresh=True) raise OverflowError when a task's time_remaining exceeds timedelta's range "
    "(TimeRemainingColumn; e.g. total=2**50 at 0.5 steps/s). description is an opaque id, user fields an int-valued dict. "
    "Outside the statement (decided on the real code, see Props/C12.lean): reset() does not clear stop_time, so elapsed / "
    "the recorded finish time are negative for a task reset while stopped; every clause of C12 still holds of it. "
    "The real-timing track() runs are not seed-replayable (they only evaluate the statement). Generators run in worker "
    "processes with rngs derived from (seed, job key), so a seed replays. Variant flag: CLOCK_OUTSIDE = 0 (the code in "
    "/repo after fix b790bf0; 1 = rich 9.10.0 as found, Cfg.clockOutside = true in the model). No known finding is open "
    "for C12, so the check prints no KNOWN-FINDING line; a deque out of timestamp order under a schedule (the F21 shape, "
    "classified as advance-clock-read-outside-lock) is a violation.",
    "design_ref": "DESIGN.md section 7, C12; pre-finding F21 (section 8)",
}
