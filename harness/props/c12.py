"""C12 — progress accounting is exact for any history and any interleaving.

Correspondence: Lean model (Model/Progress.lean) vs rich.progress.Progress, in-process, on an injected
clock: sequential histories compared after every operation (all task fields, sample deque, derived
values, number of clock reads, error kind); thread programs under a deterministic scheduler replayed by
the model's step machine; Progress.track with and without the helper thread.
Direct evaluation (3d): the statement of C12 on rich's own task objects with a spec-level tracker
(lib_progress.Spec) that knows nothing of the Lean model.
"""
import io
import itertools

import lib_progress as lp

PROPERTY = "C12"

# CODE VARIANT FLAGS (value = the code in /repo as it is now; see Model/Progress.lean `Cfg.clockOutside`)
# 1: Progress.advance / Progress.reset call get_time() before `with self._lock`   (rich 9.10.0 as found)
# 0: the read is the first statement under the lock (fix b790bf0 = pending_fixes/C12-clock-read-under-lock.diff; in /repo now)
CLOCK_OUTSIDE = 0

MAXLEN = 1000  # the literal in `while len(_progress) > 1000`


def cfg_str(period, T):
    return f"{period} {MAXLEN} {T} {CLOCK_OUTSIDE}"


class LazyClock(lp.Clock):
    """readings are produced on demand from the rng (and recorded), monotone by construction"""

    def __init__(self, units, incs, rng=None, cycle=None, hook=None):
        super().__init__([], units, hook)
        self.incs, self.rng, self.cycle = incs, rng, cycle
        self.now = 0

    def __call__(self):
        if self.hook is not None:
            self.hook()
        if self.cycle is not None:
            self.now += self.cycle[self.k % len(self.cycle)]
        else:
            self.now += self.rng.choice(self.incs)
        self.readings.append(self.now)
        self.k += 1
        return self.units.time(self.now)

    def enc(self):
        # a few spare readings: the model must not read more often than the code did
        extra = [self.now + 1000003 * (i + 1) for i in range(3)]
        return " ".join(str(r) for r in self.readings + extra)


def snapshot(p):
    return {t.id: (t.started, t.finished_time) for t in p.tasks}


def run_history(ctx, u, period, clock, ops_iter, site, shape, sample=None, obs_of=None):
    """Execute operations on a real Progress, dump after each, queue the model request, evaluate the
    statement directly."""
    p = lp.make_progress(clock, period, u)
    spec = lp.Spec()
    enc, ans, done = [], [], []
    for n, op in enumerate(ops_iter(p)):
        obs = obs_of(n) if obs_of else "d"
        before = snapshot(p)
        res = lp.apply_op(p, op, u, glue=n)
        k_after = clock.k
        done.append(op)
        if res == "ok":
            tgt = None if op[0] == "A" else op[1]
            spec.apply(op, u, before.get(tgt, (False, None))[0])
        lp.evaluate(ctx, p, spec, op, res, before, site, lp.Lazy(lambda d=done, m=len(done), c=clock: [lp.enc_op(o) for o in d[:m]] + [f"A={u.A} T={u.T} period={period} clock={c.readings[:c.k]}"]))
        head = f"{res}@{k_after}@{'1' if p.finished else '0'}"
        if obs == "d":
            head += "#" + lp.dump(p, u)
        elif obs == "e":
            head += "#" + lp.dump(p, u, elapsed=True)
        enc.append(lp.enc_op(op) + " " + obs)
        ans.append(head)
        ctx.note(f"op:{op[0]}:{res}")
    ctx.case("pg_hist", [cfg_str(period, u.T), clock.enc(), ";".join(enc)], ";".join(ans), shape=shape,
             sample=sample or "history " + "; ".join(enc[:6]))
    return p


# ------------------------------------------------------------------ 1. bounded-exhaustive histories
def alphabet():
    """one task (id 0, total 3 steps = 6 units of 1/2), one representative per branch of the code"""
    return [
        ("V", 0, 2), ("V", 0, 6), ("V", 0, 0), ("V", 0, -2), ("V", 0, 1),
        ("U", 0, None, 6, None, None, False), ("U", 0, None, 2, None, None, True),
        ("U", 0, 4, None, None, None, False), ("U", 0, 0, None, None, None, False), ("U", 0, -2, None, None, None, False),
        ("U", 0, None, None, 3, None, False), ("U", 0, None, 1, 2, None, False), ("U", 0, None, None, None, False, False),
        ("U", 0, None, None, -1, None, False),
        ("R", 0, True, None, 0, None), ("R", 0, False, 2, 4, True),
        ("P", 0), ("S", 0),
        ("A", False, 2, 2, True), ("V", 1, 2), ("D", 0),
    ]


def exhaustive(ctx):
    alpha = alphabet()
    depth = 3 if ctx.quick else 4
    u = lp.Units(2, 2)
    cycles = [[1], [3, 0, 4, 5, 1], [0]]
    n = 0
    for L in range(1, depth + 1):
        for seq in itertools.product(alpha, repeat=L):
            for ci, cyc in enumerate(cycles):
                if (ci == 2 and L > 2) or (ci == 1 and L > 3):
                    continue
                first = ("A", (n % 7) != 3, 6, 0 if n % 5 else 2, True)
                clock = LazyClock(u, None, cycle=cyc)
                obs = "de"[(n // 3) % 2]
                run_history(ctx, u, 4, clock, lambda p, s=seq, f=first: [f] + list(s), "seq-exhaustive", f"len{L}",
                            obs_of=lambda i, o=obs: o if i % 2 else "d")
                n += 1
        ctx.flush()
    return n


# ------------------------------------------------------------------ 2. random adaptive histories
def pick_amount(rng, u, t, huge):
    """advance amounts around the boundary completed == total of the addressed real task"""
    A = u.A
    rem = None
    if t is not None:
        rem = lp.to_units(t.total, A) - lp.to_units(t.completed, A)
    c = rng.random()
    if rem is not None and c < 0.30:
        return rem + rng.choice([0, 0, -1, 1, -A, A])
    if c < 0.45:
        return rng.choice([0, 1, A, A, 2 * A])
    if c < 0.55:
        return -rng.choice([1, A, 3 * A])
    if huge and c < 0.7:
        return rng.choice([10 ** 15, 2 ** 40 + 1, 10 ** 18]) * A
    return rng.randint(0, 12 * A)


def pick_total(rng, u, huge):
    A = u.A
    c = rng.random()
    if c < 0.12:
        return 0
    if c < 0.2:
        return -rng.randint(1, 5 * A)
    if huge and c < 0.4:
        return rng.choice([10 ** 15, 2 ** 45, 10 ** 18 + 7]) * A
    return rng.choice([1, A, 3 * A, 10 * A, 100 * A, rng.randint(1, 40 * A)])


def random_ops(rng, u, length, huge, nonneg):
    def gen(p):
        yield ("A", rng.random() < 0.85, pick_total(rng, u, huge), rng.choice([0, 0, 0, u.A, rng.randint(0, 8 * u.A)]), rng.random() < 0.9)
        for _ in range(length):
            tasks = p.tasks
            ids = [t.id for t in tasks]
            nxt = (max(ids) + 1) if ids else 0
            tid = rng.choice(ids) if ids and rng.random() < 0.93 else rng.randint(0, nxt + 1)
            t = next((x for x in tasks if x.id == tid), None)
            c = rng.random()
            if c < 0.40:
                a = pick_amount(rng, u, t, huge)
                yield ("V", tid, abs(a) if nonneg else a)
            elif c < 0.62:
                tot = pick_total(rng, u, huge) if rng.random() < 0.3 else None
                comp = adv = None
                r = rng.random()
                if r < 0.3:
                    comp = rng.choice([0, u.A, lp.to_units(t.total, u.A) if t else 3, rng.randint(0, 20 * u.A)])
                if 0.2 < r < 0.75:
                    adv = pick_amount(rng, u, t, huge)
                    if nonneg:
                        adv = abs(adv)
                vis = rng.choice([None, None, True, False])
                yield ("U", tid, tot, comp, adv, vis, rng.random() < 0.3)
            elif c < 0.72:
                yield ("R", tid, rng.random() < 0.75, pick_total(rng, u, huge) if rng.random() < 0.4 else None,
                       rng.choice([0, 0, u.A, rng.randint(0, 12 * u.A)]), rng.choice([None, None, True, False]))
            elif c < 0.79:
                yield ("P", tid)
            elif c < 0.86:
                yield ("S", tid)
            elif c < 0.95:
                yield ("A", rng.random() < 0.7, pick_total(rng, u, huge), rng.choice([0, 0, u.A, rng.randint(0, 8 * u.A)]), rng.random() < 0.9)
            else:
                yield ("D", tid)

    return gen


def random_histories(ctx, count):
    rng = ctx.rng
    for i in range(count):
        A = rng.choice([1, 1, 2, 4, 16])
        T = rng.choice([1, 2, 8, 64])
        huge = A == 1 and rng.random() < 0.2
        u = lp.Units(A, T, int_only=huge or (A == 1 and rng.random() < 0.5))
        period = rng.choice([0, 1, 3, 4, 8, 30 * T, 30 * T])
        incs = rng.choice([[0, 1, 2], [1], [0, 1, period, period + 1, max(period - 1, 0)], [0, 0, 1, 5 * T], [1, 2, 3, period]])
        clock = LazyClock(u, incs, rng=rng)
        nonneg = rng.random() < 0.6
        length = rng.randint(1, 8) if rng.random() < 0.5 else rng.randint(8, 30)
        run_history(ctx, u, period, clock, random_ops(rng, u, length, huge, nonneg), "seq-random",
                    f"A{A}T{T}{'H' if huge else ''}", obs_of=lambda n, r=rng.random(): "e" if (n * 7 + int(r * 10)) % 3 == 0 else "d")
        ctx.note("hist:period%d" % (0 if period == 0 else 1 if period < 30 else 2))
    ctx.flush()


def long_history(ctx, reps):
    """more than 1000 samples inside the estimate period: the `while len(_progress) > 1000` loop"""
    rng = ctx.rng
    for r in range(reps):
        u = lp.Units(1, 1)
        clock = LazyClock(u, None, cycle=[0, 0, 0, 1] if r % 2 else [0])
        n = MAXLEN + rng.randint(2, 6)
        marks = {MAXLEN - 2, MAXLEN - 1, MAXLEN, MAXLEN + 1, MAXLEN + 2, n, n + 1, n + 2}

        def gen(p, n=n):
            yield ("A", True, 10 ** 6, 0, True)
            for j in range(n):
                yield ("V", 0, 1) if (j + r) % 3 else ("U", 0, None, None, 2, None, False)
            yield ("U", 0, None, None, 1, None, False)
            yield ("V", 0, 1)

        run_history(ctx, u, 10 ** 6, clock, gen, "seq-long", f"n{n}", obs_of=lambda i: "d" if i in marks else "n")
    ctx.flush()


# ------------------------------------------------------------------ 3. thread programs under the scheduler
def classify_unsorted(t):
    """F21 shape only: the deque holds samples out of timestamp order (two commits in the opposite
    order of their clock reads)."""
    ts = [s.timestamp for s in t._progress]
    return "advance-clock-read-outside-lock" if any(a > b for a, b in zip(ts, ts[1:])) else None


def choose(rng, strategy, sched, runnable, prio):
    if strategy == "uniform":
        return rng.choice(runnable)
    if strategy == "readers-first":
        rd = [t for t in runnable if sched.kind[t] == "r"]
        return rng.choice(rd) if rd and rng.random() < 0.9 else rng.choice(runnable)
    if strategy == "pct":
        if rng.random() < 0.15:
            prio[rng.choice(runnable)] = -rng.random()
        return max(runnable, key=lambda t: prio[t])
    return runnable[0]


def thread_prog(rng, u, ids, length, nonneg):
    ops = []
    for _ in range(length):
        tid = rng.choice(ids) if rng.random() < 0.92 else max(ids) + rng.randint(1, 2)
        c = rng.random()
        if c < 0.55:
            a = rng.choice([1, u.A, 2 * u.A, 0, rng.randint(0, 6 * u.A)])
            ops.append(("V", tid, a if nonneg or rng.random() < 0.7 else -a))
        elif c < 0.75:
            r = rng.random()
            tot = rng.choice([u.A, 4 * u.A, 10 * u.A, 0]) if r < 0.25 else None
            comp = rng.randint(0, 8 * u.A) if 0.2 < r < 0.45 else None
            adv = rng.randint(0 if nonneg else -3, 6 * u.A) if r > 0.4 else None
            ops.append(("U", tid, tot, comp, adv, None, rng.random() < 0.2))
        elif c < 0.84:
            ops.append(("R", tid, rng.random() < 0.8, None if rng.random() < 0.6 else 5 * u.A, rng.choice([0, u.A]), None))
        elif c < 0.89:
            ops.append(("P", tid))
        elif c < 0.93:
            ops.append(("S", tid))
        elif c < 0.98:
            ops.append(("A", rng.random() < 0.8, rng.choice([2 * u.A, 10 * u.A]), 0, True))
        else:
            ops.append(("D", tid))
    return ops


def scheduled_run(ctx, nthreads, maxlen, fixed=None, force=None):
    """real threads on one real Progress, one step at a time; `fixed` = (setup, progs, choices) replays"""
    rng = ctx.rng
    A, T = rng.choice([(1, 1), (2, 4), (4, 8)])
    period = rng.choice([30 * T, 30 * T, 4, 1])
    incs = rng.choice([[1], [0, 1], [1, 2, 5]])
    if force:
        A, T, period = force["A"], force["T"], force["period"]
    u = lp.Units(A, T)
    sched = lp.Sched()
    lock = lp.LockProxy(sched)
    clock = LazyClock(u, incs, rng=rng)
    if force:
        r = force["clock"]
        clock = LazyClock(u, None, cycle=[b - a for a, b in zip([0] + r, r)] + [1] * 1000)
    clock.hook = lambda: sched.yield_point("r") if (sched.current() is not None and not lock.held()) else None
    p = lp.make_progress(clock, period, u, lock=lock)
    import rich.progress as rp
    unguarded = []
    orig_task = rp.Task
    rp.Task = lp.make_guarded_task_class(sched, lock, unguarded)
    try:
        return _scheduled_run(ctx, rng, u, A, T, period, sched, lock, clock, p, unguarded, nthreads, maxlen, fixed)
    finally:
        rp.Task = orig_task


def _scheduled_run(ctx, rng, u, A, T, period, sched, lock, clock, p, unguarded, nthreads, maxlen, fixed):
    spec = lp.Spec()
    nonneg = rng.random() < 0.75
    if fixed:
        setup, progs, strategy = fixed[0], fixed[1], "script"
    else:
        setup = [("A", rng.random() < 0.9, rng.choice([3 * A, 10 * A, 100 * A]), 0, True) for _ in range(rng.randint(1, 3))]
        ids = list(range(len(setup)))
        progs = [thread_prog(rng, u, ids, rng.randint(1, maxlen), nonneg) for _ in range(nthreads)]
        strategy = rng.choice(["uniform", "uniform", "readers-first", "pct"])
    done_ops = []
    for op in setup:
        res = lp.apply_op(p, op, u)
        spec.apply(op, u, False)
        done_ops.append(("setup", op))
    errs = [[] for _ in progs]
    unlocked = []
    pc = [0] * len(progs)

    def worker(i):
        def f():
            for n, op in enumerate(progs[i]):
                n0 = lock.acq_count.get(i, 0)
                errs[i].append(lp.apply_op(p, op, u, glue=i + n))
                if lock.acq_count.get(i, 0) == n0:
                    unlocked.append(lp.enc_op(op))
        return f

    commit_errs = []
    inp = lambda: {"A": A, "T": T, "period": period, "setup": [lp.enc_op(o) for o in setup],
                   "threads": [[lp.enc_op(o) for o in pr] for pr in progs],
                   "schedule": " ".join(f"{k}{t}" for k, t in sched.events), "clock": list(clock.readings)}

    def drain(tid, before):
        """operations of thread `tid` that completed during the step just taken"""
        while pc[tid] < len(errs[tid]):
            op = progs[tid][pc[tid]]
            res = errs[tid][pc[tid]]
            pc[tid] += 1
            commit_errs.append(res)
            if res == "ok":
                tgt = None if op[0] == "A" else op[1]
                spec.apply(op, u, before.get(tgt, (False, None))[0])
            lp.evaluate(ctx, p, spec, op, res, before, "threads", inp(), classify=classify_unsorted)
            ctx.note(f"thr-op:{op[0]}:{res}")
            before = snapshot(p)

    for i in range(len(progs)):
        before = snapshot(p)
        sched.spawn(i, worker(i))
        drain(i, before)  # nothing, unless an operation ran without reaching a yield point
    prio = {i: rng.random() for i in range(len(progs))}
    script = list(fixed[2]) if fixed else None
    while True:
        runnable = sched.runnable()
        if not runnable:
            break
        if script is not None:
            tid = script.pop(0) if script and script[0] in runnable else runnable[0]
        else:
            tid = choose(rng, strategy, sched, runnable, prio)
        before = snapshot(p)
        sched.step(tid)
        sched.check_exc()
        drain(tid, before)
    if any(pc[i] != len(progs[i]) for i in range(len(progs))):
        raise RuntimeError("scheduler: threads did not finish")
    ctx.check(not unlocked, "threads:lock-discipline", inp(),
              f"operations ran without acquiring Progress._lock (nothing orders their read-modify-write against other threads): {unlocked[:4]}")
    ctx.check(not unguarded, "threads:lock-discipline", inp(),
              f"task fields written by a thread that did not hold Progress._lock: {sorted(set(unguarded))}")
    inversions = 0
    ev = " ".join(f"{k}{t}" for k, t in sched.events)
    # read/commit inversion: a thread that read the clock earlier commits later
    reads = []
    for k, t in sched.events:
        if k == "r":
            reads.append(t)
        elif k == "c" and t in reads:
            if reads[0] != t:
                inversions += 1
            reads.remove(t)
    ctx.note("sched:inversions>0" if inversions else "sched:inversions=0")
    ctx.note(f"sched:threads{len(progs)}")
    ctx.note("sched:" + strategy)
    ctx.case("pg_sched",
             [cfg_str(period, T), clock.enc(), ";".join(lp.enc_op(o) + " n" for o in setup),
              "|".join(";".join(lp.enc_op(o) + " n" for o in pr) for pr in progs), ev],
             " ".join(commit_errs) + f"@{clock.k}@0#" + lp.dump(p, u),
             shape=f"t{len(progs)}", sample=f"{len(progs)} threads, schedule {ev[:80]}")
    return p


def f21_directed(ctx):
    """the smallest schedule shape of interest, always run: two threads advance one task; both read the
    clock, then commit in the opposite order."""
    for a, b in [(1, 1), (2, 3)]:
        setup = [("A", True, 100, 0, True)]
        progs = [[("V", 0, a)], [("V", 0, b)]]
        scheduled_run(ctx, 2, 1, fixed=(setup, progs, [0, 1, 1, 0]))
        scheduled_run(ctx, 2, 1, fixed=(setup, progs, [0, 1, 0, 1]))


# ------------------------------------------------------------------ 4. Progress.track
def track_seq(ctx, n, mode, existing, setup_ops):
    """auto_refresh=False: dump at every yield and after exhaustion"""
    u = lp.Units(1, 2)
    clock = LazyClock(u, None, cycle=[1, 0, 2])
    p = lp.make_progress(clock, 60, u)
    for op in setup_ops:
        lp.apply_op(p, op, u)
    items = [f"x{i}" for i in range(n)]
    task_id = 0 if existing else None
    if mode == "list":
        seq, total = items, None
    elif mode == "gen":
        seq, total = (x for x in items), n
    elif mode == "range":
        seq, total = range(n), None
        items = list(range(n))
    else:  # total differs from the length
        seq, total = iter(items), n + 2
    out, heads = [], []
    kw = {} if total is None else {"total": total}
    try:
        for v in p.track(seq, task_id=task_id, **kw):
            out.append(v)
            heads.append(f"ok@{clock.k}@{'1' if p.finished else '0'}#" + lp.dump(p, u))
    except lp.DomainError:
        raise
    except Exception as e:  # noqa: BLE001
        ctx.check(False, "track:raised", (mode, n, existing), f"track() raised {type(e).__name__}: {e}")
        return
    heads.append(f"ok@{clock.k}@{'1' if p.finished else '0'}#" + lp.dump(p, u))
    tid = task_id if existing else len([o for o in setup_ops if o[0] == "A"])
    t = next((x for x in p.tasks if x.id == tid), None)
    if t is None:
        ctx.check(False, "track:count", (mode, n), "the tracked task does not exist after track()")
        return
    ctx.check(out == items, "track:yields", (mode, n), f"yielded {out!r}, sequence was {items!r}")
    if not existing:
        ctx.check(t.completed == n, "track:count", (mode, n), f"fresh task completed={t.completed!r} after {n} elements")
    else:  # existing task (completed=2 before): the count adds to what was there
        ctx.check(t.completed == 2 + n, "track:count-existing", (mode, n), f"existing task completed={t.completed!r} after {n} more elements")
    tot = total if total is not None else n
    ctx.case("pg_track", [cfg_str(60, 2), clock.enc(), ";".join(lp.enc_op(o) + " n" for o in setup_ops), "seq",
                          "_" if task_id is None else task_id, tot, n, ""],
             f"{len(out)}!" + ";".join(heads) + "!" + lp.dump(p, u), shape=f"seq-{mode}", sample=f"track({mode}, n={n}, existing={existing})")


def track_thread(ctx, n, existing, close_after=None):
    """auto_refresh=True (no display started): rich's own _TrackThread.run under the scheduler"""
    import rich.progress as rp

    rng = ctx.rng
    u = lp.Units(1, 2)
    sched = lp.Sched()
    lock = lp.LockProxy(sched)
    clock = LazyClock(u, [0, 1, 3], rng=rng)
    clock.hook = lambda: sched.yield_point("r") if (sched.current() is not None and not lock.held()) else None
    p = lp.make_progress(clock, 60, u, lock=lock, auto_refresh=True)
    setup = [("A", True, 50, 3, True)] if existing else []
    for op in setup:
        lp.apply_op(p, op, u)
    seen = []
    items = list(range(n))
    out = []
    at_return = []
    orig = rp._TrackThread
    rp._TrackThread = lp.make_track_thread_class(sched, seen)
    try:
        def consumer():
            gen = p.track(iter(items), total=n, task_id=0 if existing else None, update_period=0.1)
            for v in gen:
                out.append(v)
                sched.yield_point("y")
                if close_after is not None and len(out) == close_after:
                    gen.close()
                    break
            # the moment track() returns to its caller (no lock taken: plain read of the dict)
            at_return.extend(t.completed for t in p._tasks.values() if t.id == 0)

        sched.spawn("cons", consumer)
        w_cons = rng.choice([0.3, 0.5, 0.8])
        steps = 0
        while True:
            runnable = sched.runnable()
            if not runnable:
                break
            if "cons" in runnable and (len(runnable) == 1 or rng.random() < w_cons):
                tid = "cons"
            else:
                tid = rng.choice([t for t in runnable if t != "cons"] or runnable)
            sched.step(tid)
            steps += 1
            if steps > 5000:
                raise RuntimeError("track scheduler: no termination")
    finally:
        rp._TrackThread = orig
    if sched.state.get("track") not in (None, "done") or sched.state["cons"] != "done":
        raise RuntimeError("track scheduler: a thread is stuck")
    for who, e in sched.exc.items():
        if isinstance(e, (lp.DomainError, RuntimeError)):
            raise e
    if sched.exc:
        ctx.check(False, "track-thread:raised", (n, existing, close_after), f"track() / helper thread raised {sched.exc!r}")
        return
    done = n if close_after is None else close_after - 1
    wakes = [v for v, fl in seen if not fl]
    finals = [v for v, fl in seen if fl]
    final = finals[-1] if finals else None
    tid = 0
    t = next(x for x in p.tasks if x.id == tid)
    want_items = items if close_after is None else items[:close_after]
    ctx.check(out == want_items, "track-thread:yields", (n, close_after), f"yielded {out!r}")
    ctx.check(len(finals) == 1 and final == done, "track-thread:counter", (n, close_after, seen),
              f"helper thread read its counter {len(finals)} time(s) after it was told to stop, last value {final}; elements completed {done}")
    if close_after is None:
        ctx.check(t.completed == n, "track-thread:count", (n, existing, " ".join(f"{k}{x}" for k, x in sched.events)),
                  f"completed={t.completed!r} after {n} elements (wake-ups saw {wakes})")
    ctx.check(at_return == [done], "track-thread:count-at-return", (n, existing, close_after, " ".join(f"{k}{x}" for k, x in sched.events)),
              f"when track() returned, completed was {at_return} (elements completed: {done})")
    ctx.check(all(a <= b for a, b in zip(wakes, wakes[1:])), "track-thread:monotone", wakes, "counter seen by the helper went down")
    ctx.note(f"track-thread:wakes{min(len([1 for a, b in zip([0] + wakes, wakes) if a != b]), 4)}")
    # the operations are issued by rich's own helper thread, so there is no observation between them:
    # compared are the number of elements completed, the number of clock reads and the final dump
    ctx.case("pg_track", [cfg_str(60, 2), clock.enc(), ";".join(lp.enc_op(o) + " n" for o in setup), "thr",
                          "0" if existing else "_", n, done, " ".join(map(str, wakes))],
             f"FINAL:{done}@{clock.k}!" + lp.dump(p, u), shape="thr", sample=f"track thread n={n} wakes={wakes}")


def track_real_timing(ctx, n):
    """real _TrackThread and _RefreshThread with real Events (nondeterministic batches): only the
    statement is evaluated"""
    import time

    from rich.console import Console
    from rich.progress import Progress

    p = Progress(console=Console(file=io.StringIO(), width=60), auto_refresh=True, refresh_per_second=200)
    out = []
    with p:
        for v in p.track(range(n), update_period=0.0002):
            out.append(v)
            if v % 64 == 0:
                time.sleep(0)  # let the helper run; no correctness dependence on timing
    if not p.tasks:
        ctx.check(False, "track-real:count", n, "no task after track()")
        return
    t = p.tasks[0]
    ctx.check(out == list(range(n)), "track-real:yields", n, "elements lost or reordered")
    ctx.check(t.completed == n, "track-real:count", n, f"completed={t.completed!r} after {n} elements")
    ctx.check(t.finished, "track-real:finished", n, "task not finished after consuming the whole sequence")


def track_errors(ctx):
    from rich.progress import Progress
    from rich.console import Console

    p = Progress(console=Console(file=io.StringIO()), auto_refresh=False)
    try:
        list(p.track(x for x in range(3)))
        ok = False
    except ValueError:
        ok = True
    ctx.check(ok, "track:unsized", "generator without total", "no ValueError for a sequence of unknown length without total")
    ctx.check(p.tasks == [], "track:unsized", "generator without total", "a task was added although track raised")


# ------------------------------------------------------------------ 5. terminal console (refresh renders, reads the clock)
def terminal_histories(ctx, count):
    """refresh() really renders here (columns call task.get_time()), so clock reads are not comparable
    with the model; the statement is evaluated directly."""
    rng = ctx.rng
    for _ in range(count):
        u = lp.Units(rng.choice([1, 2]), rng.choice([1, 4]))
        period = rng.choice([4, 30 * u.T])
        clock = LazyClock(u, [0, 1, 2], rng=rng)
        p = lp.make_progress(clock, period, u, terminal=True)
        spec = lp.Spec()
        done = []
        for n, op in enumerate(random_ops(rng, u, rng.randint(2, 12), False, True)(p)):
            before = snapshot(p)
            res = lp.apply_op(p, op, u, glue=n)
            done.append(lp.enc_op(op))
            if res == "ok":
                tgt = None if op[0] == "A" else op[1]
                spec.apply(op, u, before.get(tgt, (False, None))[0])
            lp.evaluate(ctx, p, spec, op, res, before, "terminal", list(done))
            if n % 3 == 0:
                try:
                    p.refresh()
                    ok = True
                except lp.DomainError:
                    raise
                except Exception as e:  # noqa: BLE001
                    ok = False
                    why = f"{type(e).__name__}: {e}"
                ctx.check(ok, "terminal:refresh", list(done), "refresh() raised " + ("" if ok else why))


def percentages(ctx):
    """Task.percentage and ProgressBar.percentage_completed on a grid around the clamps"""
    from rich.progress import Task
    from rich.progress_bar import ProgressBar

    vals = [-7, -3, -1, 0, 1, 2, 3, 5, 6, 7, 100, 101, 2 ** 40, 10 ** 15 + 1]
    for tot in vals:
        for comp in vals:
            for fl in (False, True):
                if fl and max(abs(tot), abs(comp)) > 2 ** 50:
                    continue
                T, C = (float(tot), float(comp)) if fl else (tot, comp)
                t = Task(0, "d", T, C, _get_time=lambda: 0.0)
                pe = lp.exact_percentage(T, C)
                pr = lp.get(t, "percentage")
                ctx.check(isinstance(pr, float) and lp.close(pr, pe), "percentage_spec", (T, C), f"Task.percentage={pr!r}, exact {pe}")
                ctx.case("pg_pct", [tot, comp], lp.frac(pe) if lp.close(pr, pe) else f"float:{pr!r}", shape="task")
                if tot != 0:
                    br = lp.get(ProgressBar(total=T, completed=C), "percentage_completed")
                    ctx.check(lp.close(br, pe), "percentage_spec:bar", (T, C), f"ProgressBar.percentage_completed={br!r}, exact {pe}")
                    ctx.case("pg_pct", [tot, comp], lp.frac(pe) if lp.close(br, pe) else f"float:{br!r}", shape="bar")
    ctx.flush()


def run(ctx):
    ctx.assumptions += [
        "amounts and clock readings are integers or dyadic fractions (units 1/A, 1/T with A,T powers of two, magnitudes < 2^62/A for ints, floats exact): on these every + - comparison of the real float/int arithmetic is exact and equals the model's Int arithmetic",
        "ratios (percentage, speed, time_remaining) are compared through exact fractions computed from the real task's raw fields; the real float getters must equal them up to relative 1e-11 (decision), the ceiling of time_remaining up to that slack",
        "description and user fields of a task are not modelled (exercised as glue only)",
        "refresh() is a no-op on the non-terminal console used for the correspondence; the terminal run evaluates the statement only",
        "threads: one step = code between two yield points (clock read outside the lock / outermost lock acquisition / Event.wait of the track thread); a thread holding the lock is never preempted, so preemption inside a body and inside a source line is not exhibited",
    ]
    quick = ctx.quick
    percentages(ctx)
    n_ex = exhaustive(ctx)
    ctx.note("exhaustive-histories", n_ex)
    random_histories(ctx, 2500 if quick else 40000)
    long_history(ctx, 2 if quick else 8)
    f21_directed(ctx)
    for i in range(1500 if quick else 25000):
        nt = ctx.rng.choice([2, 2, 3, 3, 4] if i % 8 else [5, 6, 8])
        scheduled_run(ctx, nt, 3 if nt <= 4 else 2)
        if i % 500 == 499:
            ctx.flush()
    ctx.flush()
    for n in range(0, 6 if quick else 12):
        for mode in ("list", "gen", "range", "total+2"):
            for existing in (False, True):
                track_seq(ctx, n, mode, existing, [("A", True, 7, 2, True)] if existing else ([] if n % 2 else [("A", False, 3, 1, True)]))
    for i in range(150 if quick else 3000):
        n = ctx.rng.randint(0, 7)
        existing = ctx.rng.random() < 0.3
        close_after = ctx.rng.randint(1, n) if n and ctx.rng.random() < 0.15 else None
        track_thread(ctx, n, existing, close_after)
    ctx.flush()
    for n in ([0, 1, 50, 400] if quick else [0, 1, 2, 50, 400, 3000, 20000]):
        track_real_timing(ctx, n)
    track_errors(ctx)
    terminal_histories(ctx, 60 if quick else 1500)
    for k, v in sorted(lp.STATS.items()):
        ctx.note(k, v)
    ctx.rule = (
        "sequential: every history of <= %d operations over a 21-symbol alphabet (one representative per branch of "
        "advance/update/reset/start/stop/add/remove, amounts below/at/above the total, zero and negative) x clock patterns, "
        "then seeded adaptive random histories (1-30 ops, several tasks, units 1/1..1/16, totals zero/negative/huge, "
        "periods 0..30 s with increments at the pruning boundary) and >1000-sample histories; threads: 2-8 real threads x "
        "1-3 ops under uniform / readers-first / PCT schedules at the read and lock yield points; track: lengths 0..n over "
        "list/generator/range, fresh or existing task, helper thread under random schedules; distinct = distinct canonical requests"
        % (3 if quick else 4)
    )


def dec_op(s):
    t = s.split(" ")
    b = lambda x: None if x == "_" else x == "1"
    i = lambda x: None if x == "_" else int(x)
    k = t[0]
    if k == "A":
        return ("A", b(t[1]), int(t[2]), int(t[3]), b(t[4]))
    if k in "SPD":
        return (k, int(t[1]))
    if k == "U":
        return ("U", int(t[1]), i(t[2]), i(t[3]), i(t[4]), b(t[5]), b(t[6]))
    if k == "R":
        return ("R", int(t[1]), b(t[2]), i(t[3]), int(t[4]), b(t[5]))
    return ("V", int(t[1]), int(t[2]))


def replay(ctx, case):
    """re-run a recorded thread schedule on the real code (other sites: re-run the seeded check)"""
    print("site:", case.get("site"))
    print("what:", case.get("what"))
    inp = case.get("input")
    if str(case.get("site", "")).startswith("threads") and isinstance(inp, dict) and "schedule" in inp:
        setup = [dec_op(o) for o in inp["setup"]]
        progs = [[dec_op(o) for o in pr] for pr in inp["threads"]]
        script = [int(e[1:]) for e in inp["schedule"].split(" ") if e]
        scheduled_run(ctx, len(progs), 0, fixed=(setup, progs, script), force=inp)
        for f in ctx.failures:
            print("FAILS AGAIN:", f["site"], "-", f["what"])
        return not ctx.failures
    print("input:", inp)
    print("re-run `./check C12` to re-evaluate (the generators are seeded: VERIF_SEED=%s)" % case.get("seed"))
    return False


MANIFEST = {
    "text": "Lean 4 theorems (Props/C12.lean; no bound on the number of operations, tasks, threads or on the schedule; "
    "amounts and clock readings arbitrary integers in units 1/A step, 1/tps second) about an executable model of "
    "rich/progress.py (Task, add_task/start_task/stop_task/update/reset/advance/remove_task, percentage/finished/"
    "elapsed/speed/time_remaining, Progress.track, _TrackThread, and a thread step machine: clock read outside the lock, "
    "atomic body under the lock): completed_exact (last explicitly set value + advances since, by induction over "
    "histories incl. failing ops, other tasks, removals), percentage_spec (fraction literally 100*completed/total, "
    "clamped, 0 for total 0, both signs of total), finished_after_reaching_total, finish_time_stable (until reset / "
    "update(total=)), speed_nonneg and remaining_nonneg_when_running (invariants: samples sorted by timestamp and "
    "non-negative on a monotone clock; started & unfinished & has samples => completed < total), "
    "accounting_linearizable (for every schedule the counters equal the sequential history in lock-acquisition order, "
    "on any clock, either code variant) with completed_exact_all_schedules, fixed_schedules_are_sequential + "
    "speed_nonneg_all_schedules for the repaired variant (what /repo contains now, fix b790bf0), the machine-checked witness "
    "old_speed_negative_under_schedule for rich 9.10.0 as found (F21: 2 threads, 4 events, speed -1, remaining -98 s) and remaining_negative_if_advanced_unstarted (why the "
    "hypothesis 'running whenever it advances' is needed), track_counts / track_thread_counts (any batching by the "
    "helper thread). Tie: the model is run against real rich on an injected clock - every history of <=3 (thorough 4) "
    "ops over a 21-symbol alphabet, seeded adaptive random histories, >1000-sample histories, compared after every "
    "operation on all task fields, the sample deque, derived values, Progress.finished, number of clock reads and "
    "error kind; 2-8 real threads under a deterministic scheduler (yield points: clock read outside the lock, "
    "outermost lock acquisition) replayed step by step by the model; Progress.track over list/generator/range with "
    "and without the helper thread (rich's own _TrackThread.run under the scheduler). Direct evaluation of the "
    "statement on rich's own tasks with an independent spec tracker, incl. lock discipline (every mutator acquires "
    "Progress._lock; no task field is written without it).",
    "note": "Trusted: Lean kernel; axioms propext/Classical.choice/Quot.sound; the correspondence harness incl. the "
    "scheduler. Exact-in-double inputs only (integers and dyadic fractions): float rounding of +/- is outside the model; "
    "ratios are compared as exact fractions computed from the real task's raw fields, the real float getters must match "
    "them to 1e-11 relative. A thread holding the lock is never preempted and preemption inside a source line is not "
    "exhibited (GIL-level atomicity of `+=` on attributes is not modelled): 'no lost update' rests on the checked lock "
    "discipline. description/fields of a task, rendering columns (filesize, bar) and _RefreshThread are not modelled; "
    "ProgressBar.percentage_completed is compared on a grid only. refresh() is a no-op in the correspondence runs "
    "(non-terminal console); a terminal run evaluates the statement only. The real-timing track() runs are not "
    "seed-replayable (they only evaluate the statement). Sequential quirk outside the statement: reset() does not "
    "clear stop_time, so elapsed/finished_time can be negative after stop_task; reset.",
    "design_ref": "DESIGN.md section 7, C12; pre-finding F21 (section 8)",
}
