"""C05 — Text editing operations keep characters and styles attached.

Correspondence: Lean model (Model/Text.lean) vs rich.text.Text, in-process, state by state: before every
operation the real object's state (plain, _length, spans, style, attributes) is sent to the model together with
the arguments; the model's resulting state *and its rendering* must equal the real object's afterwards.

Direct evaluation (DESIGN 3d): a reference styled string (lib_text.Ref: list of (char, style names)) undergoes
"the same operation on an ordinary string" and is compared after every step of every history with what the real
object shows through `plain`, `len()` and `render()` (rendered with styles in the free monoid of names, so the
order of combination is visible).
"""
import itertools

from core import enc_str
import lib_text as L
from lib_text import Ref

PROPERTY = "C05"

# CODE VARIANT FLAGS  (1 = rich 9.10.0 as released, 0 = repaired = what /repo contains now: fixes 0149e10, ba4c9a6, 3a84457, b5c0e99,
#                      aad03fe, 9ca68f6 (the former pending_fixes/C05-*.diff); see Model/Text.lean `Variant`; plus the two separate
#                      request arguments RSTRIP_END_CHARS (fix f5f2be9) and SPLIT_ENDSWITH (fix b61fef8) below.  All eight are 0.)
CTOR_LEN = 0  # Text.__init__: _length = len(text) before control codes are stripped (pre-finding F1)
CROP_ENDS = 0  # Text.right_crop(0) erases the text; right_crop(n > len) makes _length negative
STYLIZE_NEG = 0  # Text.stylize(start < -len) stores a negative span start; render repeats characters / raises
GETITEM = 0  # Text.__getitem__(int) drops the base style, and all spans for a negative index
DIVIDE_ORDER = 0  # Text.divide re-orders spans through its value-keyed `order` dict (a split remainder equal to a later span)
ALIGN_NEG = 0  # Text.align pads by a negative excess (text wider than the width): pad_left shifts the spans off their characters
RSTRIP_END_CHARS = 0  # 1 = as found: Text.rstrip_end compares the CHARACTER count with the cell width; 0 = fix f5f2be9 (in /repo now; was
#                       pending_fixes/C08-rstrip-end-counts-cells.diff) makes it cell_len; separate request argument of text_rstrip_end, Lean: first argument of Text.rstripEndW
RSTRIP_END_CHARS = int(__import__("os").environ.get("VERIF_C05_RSTRIP_END_CHARS", RSTRIP_END_CHARS))  # development aid, as VERIF_C05_FLAGS
SPLIT_ENDSWITH = 0  # 1 = as found: Text.split drops the last line when text.endswith(separator) - for a separator that overlaps itself
#                     ("aaa".split("aa")) that line is not blank and characters are lost; 0 = fix b61fef8 (in /repo now; was
#                     pending_fixes/C05-split-overlapping-separator.diff): drop it when it is blank.
#                     Separate request argument of text_split, Lean: first argument of Text.splitW
SPLIT_ENDSWITH = int(__import__("os").environ.get("VERIF_C05_SPLIT_ENDSWITH", SPLIT_ENDSWITH))  # development aid
FLAGS = "".join(str(x) for x in (CTOR_LEN, CROP_ENDS, STYLIZE_NEG, GETITEM, DIVIDE_ORDER, ALIGN_NEG))
import os as _os

# development aid only (was used to validate the pending_fixes diffs against a patched checkout before they became fix: commits): VERIF_C05_FLAGS=000000 VERIF_REPO=<worktree>
FLAGS = _os.environ.get("VERIF_C05_FLAGS", FLAGS)

STYLES = L.STYLE_NAMES[1:7]
CHARS = ["a", "b", ".", "*", "c", " ", " ", "\t", "\n", "あ", "̀", "\r", "\x08", "\x0b", "\x0c", "\x07", "…", "x"]
PLAIN_CHARS = ["a", "b", ".", "(", " ", "\t", "\n", "あ", "̀", "x"]
OVERFLOWS = [None, None, None, "fold", "crop", "ellipsis", "ignore"]


# ------------------------------------------------------------------------------------------------ generators
def gen_string(rng, maxlen=8, ctl=True):
    n = rng.choice([0, 1, 1, 2, 3, 3, 4, 5, 6, maxlen])
    pool = CHARS if ctl else PLAIN_CHARS
    return "".join(rng.choice(pool) for _ in range(n))


def gen_spans(rng, n, k=None):
    """valid spans on a string of n characters (0 <= start <= end <= n), with deliberate duplicates"""
    k = rng.choice([0, 1, 1, 2, 2, 3, 4]) if k is None else k
    spans = []
    for _ in range(k):
        if spans and rng.random() < 0.25:
            spans.append(rng.choice(spans))
            continue
        a = rng.randint(0, n)
        b = rng.choice([n, rng.randint(a, n), min(n, a + 1)])
        spans.append((a, b, rng.choice(STYLES[:4] if rng.random() < 0.8 else STYLES)))
    return spans


def gen_spec(rng, ctl=True, maxlen=8):
    s = gen_string(rng, maxlen, ctl)
    n = len(L.strip_ctl(s))
    base = rng.choice(["", "", "s5", "s6", "s1"])
    return (s, base, gen_spans(rng, n), rng.choice(OVERFLOWS), rng.choice([8, 8, 4, 1, 3, None]))


def build(spec):
    from rich.text import Span, Text

    s, base, spans, overflow, tab_size = spec
    # attributes that do not influence the characters or styles, varied so that copy / blank_copy / divide / join
    # are compared on non-default values too (a pure function of the spec, so histories replay)
    justify = [None, "left", "center", "full", "right"][len(s) % 5]
    no_wrap = [None, True, False][len(spans) % 3]
    end = ["\n", "", "x"][(len(s) + len(spans)) % 3]
    t = Text(s, style=base, spans=[Span(a, b, st) for a, b, st in spans], justify=justify, overflow=overflow, no_wrap=no_wrap, end=end, tab_size=tab_size)
    return t, L.ref_new(s, base, spans, overflow, tab_size)


def gen_int(rng, n):
    """an offset inside, at, or beyond the ends of a string of length n, or negative"""
    return rng.choice([0, 1, n - 1, n, n + 1, n + 3, -1, -n, -n - 1, -n - 4, rng.randint(0, max(n, 1)), rng.randint(-n - 2, n + 2)])


def gen_count(rng, n):
    return rng.choice([0, 0, 1, 1, 2, 3, n - 1, n, n + 1, n + 2, rng.randint(0, n + 3)] if n else [0, 1, 2, 3])


def sorted_offsets(rng, n):
    k = rng.choice([0, 1, 1, 2, 2, 3, 4])
    return sorted(rng.choice([0, n, rng.randint(0, n), rng.randint(0, n)]) for _ in range(k))


REGEXES = [
    (r"(?P<s1>a+)|(?P<s2>b)", None, ""),
    (r"(?P<s3>\s+)", "s4", ""),
    (r"a(?P<s2>.)?", "s1", ""),
    (r"(?P<s1>[ab]+)(?P<s2>x)?", "", "p"),
    (r"\t|あ", "s6", ""),
    (r"$", "s2", ""),
    (r"(?P<s1>a*)(?P<s2>b)", None, ""),  # a named group that matches the empty string must not become a span
]


WORDS = [(["a", "b "], "s1", True), (["A", "x"], "s2", False), (["\t", "ab"], "s3", True)]


def gen_op(rng, n):
    """one editing operation for a text of (reference) length n"""
    k = rng.choices(
        ["append_str", "append_t", "append_text", "append_tokens", "assemble", "join_sep", "join_in", "split", "divide", "slice", "index",
         "pad", "pad_left", "pad_right", "align", "truncate", "right_crop", "set_length", "expand_tabs", "copy", "stylize", "highlight",
         "copy_styles", "set_plain", "rstrip", "rstrip_end", "add", "remove_suffix", "fit", "indent_guides", "slice_step"],
        [8, 6, 4, 3, 3, 3, 3, 7, 8, 6, 3, 2, 3, 3, 4, 5, 5, 5, 5, 3, 9, 3, 3, 2, 2, 3, 2, 2, 2, 3, 1],
    )[0]
    if k == "append_str":
        return (k, gen_string(rng, 5), rng.choice([None, None] + STYLES[:3]))
    if k in ("append_t", "append_text"):
        return (k, gen_spec(rng, ctl=rng.random() < 0.2, maxlen=5))
    if k == "add":
        return (k, gen_spec(rng, ctl=False, maxlen=4) if rng.random() < 0.6 else gen_string(rng, 4))
    if k == "append_tokens":
        return (k, [(gen_string(rng, 3, ctl=False), rng.choice([None] + STYLES[:3])) for _ in range(rng.randint(0, 3))])
    if k == "assemble":
        def part():
            c = rng.random()
            if c < 0.35:
                return ("S", gen_string(rng, 3))
            if c < 0.7:
                return ("P", gen_string(rng, 3), rng.choice([None] + STYLES[:3]))
            return ("T", gen_spec(rng, ctl=False, maxlen=4))
        return (k, [part() for _ in range(rng.randint(0, 2))], [part() for _ in range(rng.randint(0, 2))], rng.choice(["", "s5"]))
    if k == "join_sep":
        return (k, [gen_spec(rng, ctl=False, maxlen=4) for _ in range(rng.randint(0, 3))])
    if k == "join_in":
        return (k, gen_spec(rng, ctl=False, maxlen=2), [gen_spec(rng, ctl=False, maxlen=3) for _ in range(rng.randint(0, 2))],
                [gen_spec(rng, ctl=False, maxlen=3) for _ in range(rng.randint(0, 2))])
    if k == "split":
        return (k, rng.choice(["\n", "\n", "\t", " ", "a", "ab", "aa", "a a", "  ", ".", "*", "a.", "(", "|", "+", "\\", "[a]", "$", "^"]), rng.random() < 0.5, rng.random() < 0.5, rng.randint(0, 5))
    if k == "divide":
        if rng.random() < 0.85:
            offs = sorted_offsets(rng, n)
        else:
            offs = [rng.randint(0, n + 2) for _ in range(rng.randint(1, 3))]
        return (k, offs, rng.randint(0, 5))
    if k == "slice":
        return (k, rng.choice([None, gen_int(rng, n), gen_int(rng, n)]), rng.choice([None, gen_int(rng, n), gen_int(rng, n)]))
    if k == "index":
        return (k, gen_int(rng, n))
    if k in ("pad", "pad_left", "pad_right"):
        return (k, rng.choice([0, 1, 2, 3]), rng.choice([" ", " ", "-", "あ"]))
    if k == "align":
        return (k, rng.choice(["left", "center", "right"]), rng.choice([0, 1, n - 1, n, n + 1, n + 2, n + 5, rng.randint(0, n + 6)]), rng.choice([" ", "*"]))
    if k == "truncate":
        return (k, rng.choice([0, 1, 2, n - 1, n, n + 1, n + 3, rng.randint(0, n + 4)]), rng.choice(OVERFLOWS), rng.random() < 0.4)
    if k == "right_crop":
        return (k, gen_count(rng, n))
    if k == "set_length":
        return (k, gen_count(rng, n))
    if k == "expand_tabs":
        return (k, rng.choice([None, None, 1, 2, 3, 4, 8]))
    if k == "stylize":
        return (k, rng.choice(STYLES), rng.choice([0, 0, gen_int(rng, n)]), rng.choice([None, None, gen_int(rng, n)]))
    if k == "highlight":
        return (k, rng.randrange(len(REGEXES) + len(WORDS)))
    if k == "copy_styles":
        return (k, gen_spans(rng, n, rng.choice([0, 1, 2, 3])))
    if k == "set_plain":
        return (k, gen_string(rng, n + 2, ctl=False))
    if k == "rstrip_end":
        return (k, rng.choice([0, 1, n - 2, n - 1, n, n + 1]))
    if k == "remove_suffix":
        return (k, rng.choice(["", "a", " ", "\n", "ab", "x", None, None, None]), rng.randint(0, 3))  # None: a real suffix of that many characters
    if k == "fit":
        return (k, rng.choice([0, 1, 2, 3, 5, n]), rng.randint(0, 5))
    if k == "indent_guides":
        return (k, rng.choice([None, None, 1, 2, 3, 4]), rng.choice(["│", "|", "あ"]), rng.choice(STYLES[:3]))
    if k == "slice_step":
        return (k, rng.choice([None, gen_int(rng, n)]), rng.choice([None, gen_int(rng, n)]), rng.choice([1, 2, -1, 0, 3, None]))
    return (k,)


# ------------------------------------------------------------------------------------------------ observation
def observe(t):
    """what the real object shows: plain, len(), per-character (char, normalised style names)"""
    plain = t.plain
    try:
        n = len(t)
    except ValueError:
        n = "len() raises ValueError (negative _length)"
    segs = L.render_segments(t)
    if isinstance(segs, str):
        stream = "render raises " + segs
    else:
        stream = [(c, L.norm_ids(ids)) for txt, ids in segs for c in txt]
    return plain, n, stream


def diff(t, r):
    """None if the real text shows exactly the reference; else a description + coarse kind of the difference"""
    plain, n, stream = observe(t)
    exp = r.stream()
    s = r.s()
    if plain != s:
        return "chars", f"plain is {plain!r}, the same operations on an ordinary string give {s!r}"
    if n != len(s):
        return "len", f"len() is {n!r} but the string {plain!r} has {len(s)} characters"
    if stream != exp:
        if isinstance(stream, str):
            return "render-raises", stream
        if [c for c, _ in stream] != [c for c, _ in exp]:
            return "render-chars", f"render() emits the characters {''.join(c for c, _ in stream)!r} for plain {plain!r}"
        if all(sorted(a[1]) == sorted(b[1]) for a, b in zip(stream, exp)):
            return "style-order", f"styles are combined in a different order: rendered {stream!r}, expected {exp!r}"
        return "style", f"effective styles differ: rendered {stream!r}, expected {exp!r}"
    return None


def broken(u, ur):
    """an operand text that already differs from its reference (constructor defect): not the operation's failure"""
    return diff(u, ur) is not None


class Stop(Exception):
    """the history left the domain of the property (or an expected exception ended it)"""


class Failure(Exception):
    def __init__(self, site, finding, what):
        self.site, self.finding, self.what = site, finding, what


class Sink:
    """where a history run reports: the real ctx (main run) or nothing (shrinking re-runs)"""

    def __init__(self, ctx=None):
        self.ctx = ctx
        self.operands = []

    def case(self, fn, args, ans, shape=None, sample=None):
        if self.ctx is not None:
            self.ctx.case(fn, [FLAGS] + args, ans, shape=shape, sample=sample)

    def passed(self, site):
        if self.ctx is not None:
            self.ctx.check(True, site, None, "")

    def note(self, key):
        if self.ctx is not None:
            self.ctx.note(key)


def judge(sink, site, t, r, classify, neg_before=False, base_lost=False):
    d = diff(t, r)
    if d is None:
        sink.passed(site)
        return
    kind, what = d
    finding = classify(kind)
    if finding is None and base_lost and kind == "style":
        # the text's own base style already differed from the reference's: `text[i]` dropped it at an earlier step
        # where a covering span hid the loss; it shows now that new characters arrive under the base style.
        finding = "getitem-int-loses-style"
    if finding is None and neg_before and kind in ("style", "style-order", "render-raises", "render-chars"):
        # the text already carried a span with a negative start (only `stylize` creates one): the styles move
        # onto other characters as soon as the spans are shifted.  Same defect, seen one step later.
        finding = "stylize-negative-start"
    raise Failure(site, finding, what)


def py_ans(f):
    """run f on real rich; ("ok", value) or ("err", name)"""
    try:
        return "ok", f()
    except Exception as e:  # noqa: BLE001
        return "err", type(e).__name__


def enc_part(p):
    from rich.text import Text

    if p[0] == "S":
        return "S" + enc_str(p[1])
    if p[0] == "P":
        return "P" + enc_str(p[1]) + "~" + L.enc_opt_style(p[2])
    return "T" + L.enc_text(build(p[1])[0])


def step(sink, t, r, op, first=False):
    """apply one operation to the real text `t` (mutated or replaced) and the reference `r`;
    returns (t', r').  Raises Stop / Failure."""
    from rich.text import Span, Text

    k = op[0]
    n = len(r.cells)
    before = L.enc_text(t)
    none = lambda kind: None  # noqa: E731

    def build_(spec):
        u, ur = build(spec)
        sink.operands.append(u)  # re-observed after this and every later step (aliasing)
        return u, ur
    neg = any(sp.start < 0 for sp in t._spans)
    base_lost = t.style != r.base

    def judge_(site, t2, r2, classify):
        judge(sink, site, t2, r2, classify, neg, base_lost)

    def single(fn, args, res, shape=None):
        """correspondence for an operation yielding one text"""
        status, val = res
        ans = L.ans_text(val) if status == "ok" else "err:" + val
        if status == "ok" and val._length < 0:
            ans = "ok:" + L.enc_text(val) + "@neg"
        sink.case(fn, [before] + args, ans, shape=shape, sample=f"{fn} {op!r} on {r!r}" if sink.ctx else None)

    if k == "append_str":
        _, s, st = op
        res = py_ans(lambda: t.append(s, st))
        single("text_append_str", [enc_str(s), L.enc_opt_style(st)], res, shape="ctl" if L.strip_ctl(s) != s else "plain")
        r = L.ref_append_str(r, s, st)
        judge_("append(str)", t, r, none)
        return t, r
    if k in ("append_t", "append_text"):
        u, ur = build_(op[1])
        if broken(u, ur):  # operand itself broken by a constructor defect: not this operation's failure
            raise Stop()
        ue = L.enc_text(u)
        if k == "append_t":
            res = py_ans(lambda: t.append(u))
            single("text_append_t", [ue, "N"], res)
            if ur.cells:  # `if len(text)`
                r = L.ref_append_ref(r, ur)
        else:
            res = py_ans(lambda: t.append_text(u))
            single("text_append_text", [ue], res)
            r = L.ref_append_ref(r, ur)
        judge_("append(Text)", t, r, none)
        return t, r
    if k == "add":
        if isinstance(op[1], str):
            res = py_ans(lambda: t + op[1])
            single("text_add_str", [enc_str(op[1])], res)
            r = L.ref_append_str(r, op[1], None)
        else:
            u, ur = build_(op[1])
            if broken(u, ur):
                raise Stop()
            res = py_ans(lambda: t + u)
            single("text_add_t", [L.enc_text(u)], res)
            r = L.ref_append_ref(r, ur) if ur.cells else r
        if res[0] != "ok":
            raise Failure("__add__", None, "raised " + res[1])
        t = res[1]
        judge_("__add__", t, r, none)
        return t, r
    if k == "append_tokens":
        toks = op[1]
        res = py_ans(lambda: t.append_tokens(toks))
        single("text_append_tokens", ["%d:" % len(toks) + ",".join(enc_str(s) + "~" + L.enc_opt_style(st) for s, st in toks)], res)
        r = L.ref_append_tokens(r, toks)
        judge_("append_tokens", t, r, none)
        return t, r
    if k == "assemble":
        _, pre, post, base = op
        cur = ("CUR",)
        parts = pre + [cur] + post
        real_parts, enc_parts = [], []
        cells = []
        for p in parts:
            if p is cur:
                real_parts.append(t)
                enc_parts.append("T" + before)
                cells += r.absolute() if r.cells else []
            elif p[0] == "S":
                real_parts.append(p[1])
                enc_parts.append(enc_part(p))
                cells += [(c, ()) for c in L.strip_ctl(p[1])]
            elif p[0] == "P":
                real_parts.append((p[1], p[2]))
                enc_parts.append(enc_part(p))
                cells += [(c, () if p[2] is None else (p[2],)) for c in L.strip_ctl(p[1])]
            else:
                u, ur = build_(p[1])
                if broken(u, ur):
                    raise Stop()
                real_parts.append(u)
                enc_parts.append("T" + L.enc_text(u))
                cells += ur.absolute()
        res = py_ans(lambda: Text.assemble(*real_parts, style=base))
        status, val = res
        ans = L.ans_text(val) if status == "ok" else "err:" + val
        sink.case("text_assemble", [L.enc_fields("", 0, base, []), "%d#" % len(enc_parts) + "|".join(enc_parts)], ans)
        if status != "ok":
            raise Failure("assemble", None, "raised " + val)
        t, r = val, Ref(base, cells, None, 8)
        judge_("assemble", t, r, none)
        return t, r
    if k in ("join_sep", "join_in"):
        if k == "join_sep":
            sep, sr = t, r
            items = [build_(s) for s in op[1]]
        else:
            sep, sr = build_(op[1])
            items = [build_(s) for s in op[2]] + [(t, r)] + [build_(s) for s in op[3]]
        if any(broken(u, ur) for u, ur in items) or broken(sep, sr):
            raise Stop()
        res = py_ans(lambda: sep.join([u for u, _ in items]))
        status, val = res
        ans = L.ans_text(val) if status == "ok" else "err:" + val
        sink.case("text_join", [L.enc_text(sep), L.enc_texts([u for u, _ in items])], ans, shape=f"n{len(items)}")
        if status != "ok":
            raise Failure("join", None, "raised " + val)
        t, r = val, L.ref_join(sr, [ur for _, ur in items])
        judge_("join", t, r, none)
        return t, r
    if k in ("split", "divide"):
        if k == "split":
            _, sep, incl, blank, pick = op
            res = py_ans(lambda: list(t.split(sep, include_separator=incl, allow_blank=blank)))
            fn, args = "text_split", [enc_str(sep), "1" if incl else "0", "1" if blank else "0", str(SPLIT_ENDSWITH)]
            in_domain = True
            exp = L.ref_split(r, sep, incl, blank)
            site = "split"
            bordered = L.has_border(sep)
        else:
            _, offs, pick = op
            res = py_ans(lambda: list(t.divide(offs)))
            fn, args = "text_divide", [" ".join(map(str, offs))]
            in_domain = offs == sorted(offs) and all(0 <= o <= n for o in offs)
            exp = L.ref_divide(r, offs) if in_domain else None
            site = "divide"
        status, val = res
        sink.case(fn, [before] + args, L.ans_texts(val) if status == "ok" else "err:" + val, shape="in" if in_domain else "out-of-domain")
        if not in_domain:
            sink.note(site + ":out-of-domain")
            raise Stop()
        if status != "ok":
            raise Failure(site, None, "raised " + val)
        if len(val) != len(exp):
            slug = "split-overlapping-separator" if k == "split" and bordered and len(val) == len(exp) - 1 else None
            raise Failure(site, slug, f"{len(val)} pieces {[x.plain for x in val]!r}, an ordinary string gives {[x.s() for x in exp]!r}")
        for piece, pr in zip(val, exp):
            judge_(site, piece, pr, lambda kind: "divide-order-alias" if kind == "style-order" else None)
        i = pick % len(val)
        sink.operands += [x for j, x in enumerate(val) if j != i]  # the sibling pieces stay under observation
        return val[i], exp[i]
    if k == "slice":
        _, a, b = op
        res = py_ans(lambda: t[a:b])
        single("text_get_slice", [L.enc_opt(a), L.enc_opt(b)], res)
        if res[0] != "ok":
            raise Failure("__getitem__(slice)", None, "raised " + res[1])
        t, r = res[1], L.ref_slice(r, a, b)
        judge_("__getitem__(slice)", t, r, lambda kind: "divide-order-alias" if kind == "style-order" else None)
        return t, r
    if k == "index":
        i = op[1]
        res = py_ans(lambda: t[i])
        single("text_get_item", [str(i)], res, shape="neg" if i < 0 else "nonneg")
        try:
            r2 = L.ref_index(r, i)
        except IndexError:
            if res != ("err", "IndexError"):
                raise Failure("__getitem__(int)", None, f"index {i} of a {n}-character text gave {res!r}, str raises IndexError")
            sink.passed("__getitem__(int)")
            raise Stop()
        if res[0] != "ok":
            raise Failure("__getitem__(int)", None, "raised " + res[1])
        t, r = res[1], r2
        judge_("__getitem__(int)", t, r, lambda kind: "getitem-int-loses-style" if kind == "style" else None)
        return t, r
    if k in ("pad", "pad_left", "pad_right"):
        _, c, ch = op
        res = py_ans(lambda: getattr(t, k)(c, ch))
        single("text_" + k, [str(c), str(ord(ch))], (res[0], t if res[0] == "ok" else res[1]))
        r = L.ref_pad(r, c if k != "pad_right" else 0, c if k != "pad_left" else 0, ch)
        judge_(k, t, r, none)
        return t, r
    if k == "align":
        _, m, w, ch = op
        res = py_ans(lambda: t.align(m, w, ch))
        single("text_align", [m[0], str(w), str(ord(ch))], (res[0], t if res[0] == "ok" else res[1]))
        from rich.cells import cell_len

        r = L.ref_align(r, m, w, ch)
        wider = cell_len(r.s()) > w  # truncation could not bring the text down to the width (overflow "ignore", or "…" in 0 cells)
        judge_("align", t, r, lambda kind: "align-negative-excess" if wider and kind in ("style", "render-chars", "render-raises") else None)
        return t, r
    if k == "truncate":
        _, w, ov, pad = op
        res = py_ans(lambda: t.truncate(w, overflow=ov, pad=pad))
        single("text_truncate", [str(w), L.O[ov], "1" if pad else "0"], (res[0], t if res[0] == "ok" else res[1]), shape=str(ov))
        r = L.ref_truncate(r, w, ov, pad)
        judge_("truncate", t, r, none)
        return t, r
    if k in ("right_crop", "set_length"):
        c = op[1]
        res = py_ans(lambda: getattr(t, k)(c))
        single("text_" + k, [str(c)], (res[0], t if res[0] == "ok" else res[1]), shape="zero" if c == 0 else "beyond" if c > n else "in")
        if k == "right_crop":
            r = L.ref_right_crop(r, c)
            judge_(k, t, r, lambda kind: "right-crop-zero-or-beyond" if (c == 0 or c > n) else None)
        else:
            r = L.ref_set_length(r, c)
            judge_(k, t, r, none)
        return t, r
    if k == "expand_tabs":
        ts = op[1]
        res = py_ans(lambda: t.expand_tabs(ts))
        single("text_expand_tabs", [L.enc_opt(ts)], (res[0], t if res[0] == "ok" else res[1]), shape="tabs" if "\t" in r.s() else "none")
        eff = r.tab_size if ts is None else ts
        if "\t" in r.s() and not eff:
            sink.note("expand_tabs:out-of-domain(tab size 0/None)")
            raise Stop()
        if res[0] != "ok":
            raise Failure("expand_tabs", None, "raised " + res[1])
        r = L.ref_expand_tabs(r, ts)
        judge_("expand_tabs", t, r, lambda kind: "divide-order-alias" if kind == "style-order" else None)
        return t, r
    if k == "remove_suffix":
        suf = op[1] if op[1] is not None else (r.s()[len(r.s()) - min(op[2], n):] if op[2] else "")
        res = py_ans(lambda: t.remove_suffix(suf))
        single("text_remove_suffix", [enc_str(suf)], (res[0], t if res[0] == "ok" else res[1]), shape="hit" if r.s().endswith(suf) else "miss")
        if r.s().endswith(suf):
            r = L.ref_right_crop(r, len(suf))
        judge_("remove_suffix", t, r, none)
        return t, r
    if k == "fit":
        _, w, pick = op
        res = py_ans(lambda: list(t.fit(w)))
        status, val = res
        sink.case("text_fit", [before, str(w)], L.ans_texts(val) if status == "ok" else "err:" + val)
        if status != "ok":
            raise Failure("fit", None, "raised " + val)
        exp = [L.ref_set_length(x, w) for x in L.ref_split(r, "\n", False, False)]
        if len(val) != len(exp):
            raise Failure("fit", None, f"{len(val)} lines, an ordinary string gives {len(exp)}")
        for piece, pr in zip(val, exp):
            judge_("fit", piece, pr, none)
        i = pick % len(val)
        sink.operands += [x for j, x in enumerate(val) if j != i]
        return val[i], exp[i]
    if k == "indent_guides":
        _, size, ch, st = op
        got_ind = py_ans(lambda: t.detect_indentation())
        sink.case("text_detect_indentation", [before], got_ind[1] if got_ind[0] == "ok" else "err:" + got_ind[1])
        want_ind = L.ref_detect_indentation(r.s())
        if got_ind != ("ok", want_ind):
            raise Failure("detect_indentation", None, f"detect_indentation() of {r.s()!r} is {got_ind[1]!r}, the gcd of the even space indents is {want_ind}")
        sink.passed("detect_indentation")
        res = py_ans(lambda: t.with_indent_guides(size, character=ch, style=st))
        single("text_indent_guides", [L.enc_opt(size), enc_str(ch), L.enc_style(st)], res)
        if "\t" in r.s() and not r.tab_size:
            sink.note("with_indent_guides:out-of-domain(tab size None)")
            raise Stop()
        if res[0] != "ok":
            raise Failure("with_indent_guides", None, "raised " + res[1])
        t, r = res[1], L.ref_indent_guides(r, size, ch, st)
        judge_("with_indent_guides", t, r, lambda kind: "divide-order-alias" if kind == "style-order" else None)
        return t, r
    if k == "slice_step":
        _, a, b, stp = op
        res = py_ans(lambda: t[a:b:stp])
        single("text_get_slice", [L.enc_opt(a), L.enc_opt(b), L.enc_opt(stp)], res)
        if stp == 0:
            want = ("err", "ValueError")
        elif stp in (None, 1):
            want = None
        else:
            want = ("err", "TypeError")  # documented: slices with a step are not supported
        if want is not None:
            if res != want:
                raise Failure("__getitem__(slice)", None, f"text[{a}:{b}:{stp}] gave {res!r}, expected {want[1]}")
            sink.passed("__getitem__(slice)")
            raise Stop()
        if res[0] != "ok":
            raise Failure("__getitem__(slice)", None, "raised " + res[1])
        t, r = res[1], L.ref_slice(r, a, b)
        judge_("__getitem__(slice)", t, r, none)
        return t, r
    if k == "copy":
        res = py_ans(lambda: t.copy())
        single("text_copy", [], res)
        if res[0] != "ok":
            raise Failure("copy", None, "raised " + res[1])
        t = res[1]
        judge_("copy", t, r, none)
        return t, r
    if k == "stylize":
        _, st, a, b = op
        res = py_ans(lambda: t.stylize(st, a, b))
        single("text_stylize", [L.enc_style(st), str(a), L.enc_opt(b)], (res[0], t if res[0] == "ok" else res[1]), shape="before-start" if a < -n else "in")
        r = L.ref_stylize(r, st, a, b)
        judge_("stylize", t, r, lambda kind: "stylize-negative-start" if a < -n and kind.startswith("render") else None)
        return t, r
    if k == "highlight":
        import re as _re

        nb = len(t._spans)
        if op[1] >= len(REGEXES):
            words, st, cs = WORDS[op[1] - len(REGEXES)]
            pattern, prefix = "|".join(_re.escape(w) for w in words), ""
            if not cs:
                pattern = "(?i)" + pattern
            res = py_ans(lambda: t.highlight_words(words, st, case_sensitive=cs))
        else:
            pattern, st, prefix = REGEXES[op[1]]
            res = py_ans(lambda: t.highlight_regex(pattern, st, style_prefix=prefix))
        if res[0] != "ok":
            raise Failure("highlight_regex", None, "raised " + res[1])
        new = [tuple(sp) for sp in t._spans[nb:]]
        if not all(0 <= a < b <= n and s in L.SID for a, b, s in new):
            raise Failure("highlight_regex", None, f"appended spans {new!r} outside the text or with an unexpected style")
        sink.case("text_add_spans", [before, L.enc_spans(new)], L.ans_text(t))
        r = L.ref_highlight_regex(r, pattern, st, prefix)
        judge_("highlight_regex", t, r, none)
        return t, r
    if k == "copy_styles":
        spans = [(a, min(b, n), s) for a, b, s in op[1] if a <= n]
        u = Text("x" * n, spans=[Span(*s) for s in spans])
        res = py_ans(lambda: t.copy_styles(u))
        single("text_copy_styles", [L.enc_text(u)], (res[0], t if res[0] == "ok" else res[1]))
        r = L.ref_add_spans(r, spans)
        judge_("copy_styles", t, r, none)
        return t, r
    if k == "set_plain":
        s = op[1]

        def f():
            t.plain = s

        res = py_ans(f)
        single("text_set_plain", [enc_str(s)], (res[0], t if res[0] == "ok" else res[1]), shape="shrink" if len(s) < n else "grow" if len(s) > n else "same")
        r = L.ref_set_string(r, s)
        judge_("plain setter", t, r, none)
        return t, r
    if k == "rstrip":
        res = py_ans(lambda: t.rstrip())
        single("text_rstrip", [], (res[0], t if res[0] == "ok" else res[1]))
        r = L.ref_rstrip(r)
        judge_("rstrip", t, r, none)
        return t, r
    if k == "rstrip_end":
        res = py_ans(lambda: t.rstrip_end(op[1]))
        n_before = len(r.cells)
        single("text_rstrip_end", [str(op[1]), str(RSTRIP_END_CHARS)], (res[0], t if res[0] == "ok" else res[1]))
        # how MANY trailing blanks go is property C08/C02's question (characters vs cells, see RSTRIP_END_CHARS) and is pinned
        # here by the model-vs-code comparison; C05 asks that only trailing whitespace goes and everything else stays attached
        removed = n_before - len(t.plain)
        tail_ws = len(r.s()) - len(r.s().rstrip())
        if not (0 <= removed <= tail_ws):
            raise Failure("rstrip_end", None, f"removed {removed} characters of {r.s()!r}, which ends in {tail_ws} whitespace characters")
        if res[0] == "ok" and removed != py_rstrip_end_amount(r.s(), op[1]):  # rstrip_end_view: exactly min(trailing whitespace, cell width - size)
            raise Failure("rstrip_end", None, f"rstrip_end({op[1]}) removed {removed} characters of {r.s()!r}; min(trailing whitespace, cell width - size) is {py_rstrip_end_amount(r.s(), op[1])}")
        r = L.ref_right_crop(r, removed)
        judge_("rstrip_end", t, r, none)
        return t, r
    raise AssertionError("unknown op " + repr(op))


NEW_OBJECT_OPS = {"add", "copy", "slice", "slice_step", "index", "divide", "split", "fit", "join_sep", "join_in", "assemble", "indent_guides"}


def run_history(sink, spec, ops):
    """run a history; raises Failure at the first step whose result differs from the reference."""
    from rich.text import Span, Text

    s, base, spans, overflow, tab_size = spec
    t, r = build(spec)
    sink.case(
        "text_new",
        [L.enc_fields(s, 0, base, spans, t.justify, overflow, t.no_wrap, t.end, tab_size)],
        L.ans_text(t),
        shape="ctl" if L.strip_ctl(s) != s else "plain",
        sample=f"Text({s!r}, style={base!r}, spans={spans!r})" if sink.ctx else None,
    )
    judge(sink, "Text()", t, r, lambda kind: "ctor-length-before-strip" if kind == "len" and L.strip_ctl(s) != s and len(t) == len(s) else None)
    kept = []  # (how it was obtained, object, state snapshot): earlier objects, re-observed after every later step
    for op in ops:
        prev, prev_enc = t, L.enc_text(t)
        sink.operands = []
        try:
            t, r = step(sink, t, r, op)
        except Stop:
            return
        if t is prev and op[0] in NEW_OBJECT_OPS:
            raise Failure(op[0] + " returned the text it was called on", None, "the operation is documented to return a new Text; it handed back (and edited) its receiver")
        if t is not prev:
            # the operation returned a new object: the one it was called on must be untouched, and stays observed
            now = L.enc_text(prev)
            if now != prev_enc:
                raise Failure(op[0] + " changed the text it was called on", None, f"state before {prev_enc} after {now}")
            kept.append(("receiver of " + op[0], prev, prev_enc))
        for u in sink.operands:
            kept.append(("operand/sibling of " + op[0], u, L.enc_text(u)))
        kept = [k for k in kept if k[1] is not t][-6:]
        for how, obj, snap in kept:
            now = L.enc_text(obj)
            if now != snap:
                raise Failure("aliasing", None, f"{how}: editing a text derived from it changed this object's state from {snap} to {now}")
        sink.passed("aliasing")
        if t._length < 0:
            return


def failing(spec, ops, site, finding):
    try:
        run_history(Sink(None), spec, ops)
    except Failure as f:
        return (f.site, f.finding) == (site, finding)
    except Exception:  # noqa: BLE001 - a shrink candidate that crashes the harness is simply not taken
        return False
    return False


def shrink(spec, ops, site, finding, budget=150):
    """greedy: drop operations, then shorten the initial string / spans"""
    tries = 0
    changed = True
    while changed and tries < budget:
        changed = False
        for i in range(len(ops)):
            cand = ops[:i] + ops[i + 1 :]
            tries += 1
            if failing(spec, cand, site, finding):
                ops, changed = cand, True
                break
        else:
            s, base, spans, ov, ts = spec
            cands = [(s[:i] + s[i + 1 :], base, [sp for sp in spans if sp[1] <= len(L.strip_ctl(s[:i] + s[i + 1 :]))], ov, ts) for i in range(len(s))]
            cands += [(s, base, spans[:i] + spans[i + 1 :], ov, ts) for i in range(len(spans))]
            cands += [(s, "", spans, ov, ts)] if base else []
            for cand in cands:
                tries += 1
                if failing(cand, ops, site, finding):
                    spec, changed = cand, True
                    break
    return spec, ops


def explore(ctx, spec, ops):
    try:
        run_history(Sink(ctx), spec, ops)
    except Failure as f:
        s2, o2 = shrink(spec, ops, f.site, f.finding)
        what = f.what
        try:
            run_history(Sink(None), s2, o2)
        except Failure as f2:
            what = f2.what
        s, base, spans, ov, ts = s2
        inp = {"initial": f"Text({s!r}, style={base!r}, spans={spans!r}, overflow={ov!r}, tab_size={ts!r})", "operations": [repr(o) for o in o2]}
        ctx.check(False, f.site, inp, what, finding=f.finding)



# ------------------------------------------------------------------------------------------------ string-level functions (round 4)
def py_matches(s, sep):
    """leftmost non-overlapping occurrences, by str.find"""
    ms, i = [], 0
    while True:
        j = s.find(sep, i)
        if j < 0:
            return ms
        ms.append((j, j + len(sep)))
        i = j + len(sep)


def py_str_split(seq, s, sep, incl, blank):
    """`split` on an ordinary string `s`, applied to the sequence `seq` of the same length (s itself, or its positions).
    Independent of the Lean model and of rich: str.find for the cut points, cross-checked against str.split / re."""
    import re

    ms = py_matches(s, sep)
    assert [m.span() for m in re.finditer(re.escape(sep), s)] == ms
    if not ms:
        return [seq]
    if incl:
        ends = [e for _, e in ms]
        ps = [seq[a:b] for a, b in zip([0] + ends, ends + [len(s)])]
    else:
        starts = [0] + [e for _, e in ms]
        stops = [a for a, _ in ms] + [len(s)]
        ps = [seq[a:b] for a, b in zip(starts, stops)]
        assert [s[a:b] for a, b in zip(starts, stops)] == s.split(sep)
    if not blank and len(ps[-1]) == 0:
        ps.pop()
    return ps


def py_rstrip_end_amount(s, size):
    from rich.cells import cell_len

    w = len(s) if RSTRIP_END_CHARS else cell_len(s)
    tail = len(s) - len(s.rstrip())
    return min(tail, w - size) if w > size else 0


def py_even_indents(s):
    return [n for n in (len(ln) - len(ln.lstrip(" ")) for ln in s.split("\n")) if n % 2 == 0]


def string_level(ctx):
    """correspondence for Model/TextStr.lean (strSplit, rstripEndAmount, evenIndents) against the running Python, and direct
    evaluation of the round-4 theorems' statements (split_str_view, split_incl_concat, split_join_inverse, rstrip_end_view,
    detect_indentation_spec) on real rich"""
    from functools import reduce
    from math import gcd

    from rich.text import Span, Text

    rng = ctx.rng
    cases = []
    for alpha, seps, maxlen in (("ab", ("a", "b", "aa", "ab", "aba", "aab", "bb"), 6), ("a \n", ("\n", " ", "a", "  ", "a ", "\n\n"), 4)):
        for k in range(0, maxlen + 1):
            for p in itertools.product(alpha, repeat=k):
                for sep in seps:
                    cases.append(("".join(p), sep))
    n_exh = len(cases)
    for _ in range(400 if ctx.quick else 20000):
        alpha = rng.choice(["ab", "a.b", "a \n\t", "あa ", "ab\n"])
        s = "".join(rng.choice(alpha) for _ in range(rng.randint(0, 14)))
        sep = "".join(rng.choice(alpha) for _ in range(rng.randint(1, 3)))
        cases.append((s, sep))
    for idx, (s, sep) in enumerate(cases):
        n = len(s)
        spans = [(0, n, "s1"), (n // 2, n, "s2")] if idx % 2 else [(0, max(n - 1, 0), "s3")]
        for incl in (False, True):
            for blank in (False, True):
                want = py_str_split(s, s, sep, incl, blank)
                want_ix = py_str_split(list(range(n)), s, sep, incl, blank)
                ctx.case("text_str_split", [enc_str(sep), "1" if incl else "0", "1" if blank else "0", enc_str(s)],
                         "%d#" % len(want) + "|".join(enc_str(x) for x in want) + "@" + "|".join(" ".join(map(str, x)) for x in want_ix),
                         shape=f"sep{len(sep)}:{'incl' if incl else 'excl'}:{'blank' if blank else 'noblank'}:{'exh' if idx < n_exh else 'rnd'}")
                # the theorems' statements on real rich
                t = Text(s, style="s5", spans=[Span(*x) for x in spans])
                full = observe(t)[2]
                try:
                    parts = list(t.split(sep, include_separator=incl, allow_blank=blank))
                    got = [x.plain for x in parts]
                    streams = [observe(x)[2] for x in parts]
                    err = None
                except BaseException as e:  # noqa: BLE001 - an exception here is a failure of the statement
                    got, streams, err = None, None, type(e).__name__
                inp = {"initial": f"Text({s!r}, style='s5', spans={spans!r}, overflow=None, tab_size=8)", "operations": [repr(("split", sep, incl, blank, 0))]}
                ok = err is None and got == want and not isinstance(full, str) and streams == [[full[i] for i in ix] for ix in want_ix]
                ctx.check(ok, "split_str_view", None if ok else inp,
                          "" if ok else f"split gave {got!r} (raised {err}), the string-level split gives {want!r}; or a piece's styles are not those of the characters it was cut from",
                          finding="split-overlapping-separator" if (not ok and L.has_border(sep) and got is not None and len(got) == len(want) - 1) else None)
                if err is None and incl:
                    ok = "".join(got) == s
                    ctx.check(ok, "split_incl_concat", None if ok else inp, "" if ok else f"pieces {got!r} do not concatenate to {s!r}")
                if err is None and not incl and blank:
                    ok = sep.join(got) == s
                    ctx.check(ok, "split_join_inverse", None if ok else inp, "" if ok else f"{sep!r}.join({got!r}) is not {s!r}",
                              finding="split-overlapping-separator" if (not ok and L.has_border(sep)) else None)
    ctx.note("str_split_strings", len(cases))
    # rstrip_end: the amount
    n_amt = 0
    for k in range(0, 5):
        for p in itertools.product(["a", " ", "あ", "\t"], repeat=k):
            s = "".join(p)
            for size in range(-1, 2 * k + 2):
                want = py_rstrip_end_amount(s, size)
                if not RSTRIP_END_CHARS:
                    ctx.case("text_rstrip_end_amount", [enc_str(s), str(size)], str(want), shape="wide" if "あ" in s else "narrow")
                t = Text(s, style="s5", spans=[Span(0, len(s), "s1")])
                before = observe(t)
                try:
                    t.rstrip_end(size)
                    after, err = observe(t), None
                except BaseException as e:  # noqa: BLE001
                    after, err = None, type(e).__name__
                keep = len(s) - want
                ok = err is None and after[0] == s[:keep] and after[1] == keep and after[2] == before[2][:keep] and s[keep:].strip() == ""
                ctx.check(ok, "rstrip_end_view", None if ok else {"initial": f"Text({s!r}, style='s5', spans=[(0, {len(s)}, 's1')], overflow=None, tab_size=8)", "operations": [repr(("rstrip_end", size))]},
                          "" if ok else f"rstrip_end({size}) of {s!r} shows {after!r} (raised {err}); expected the first {keep} characters with their styles")
                n_amt += 1
    ctx.note("rstrip_end_amount_cases", n_amt)
    # detect_indentation: the even indentations and the gcd clauses
    ind_alpha = [" ", "a", "\n"]
    ind_strings = ["".join(p) for k in range(0, 7) for p in itertools.product(ind_alpha, repeat=k)]
    ind_strings += ["    a\n      b\n c", "  a\n    b\n\n  c", "    a\n        b", "      a\n    b\n", "\u3000\u3000a\n  b", "\ta\n  b", " \xa0 a"]
    for s in ind_strings:
        ev = py_even_indents(s)
        ctx.case("text_even_indents", [enc_str(s)], " ".join(map(str, ev)), shape=f"lines{s.count(chr(10)) + 1}")
        try:
            d = Text(s).detect_indentation()
        except BaseException as e:  # noqa: BLE001
            d = "raised " + type(e).__name__
        g = reduce(gcd, ev) if ev else 0
        ok = isinstance(d, int) and d >= 1 and all(n % d == 0 for n in ev) and (d == g if g else d == 1)
        ctx.check(ok, "detect_indentation_spec", None if ok else {"initial": f"Text({s!r}, style='', spans=[], overflow=None, tab_size=8)", "operations": [repr(("indent_guides", None, "|", "s3"))]},
                  "" if ok else f"detect_indentation() of {s!r} is {d!r}; the even indentations are {ev!r}, their gcd {g}")
    ctx.note("even_indents_strings", len(ind_strings))
    ctx.flush()


# ------------------------------------------------------------------------------------------------ the `_text` fragment list (round 4)
def enc_frags(frs):
    return "%d:" % len(frs) + ",".join(enc_str(f) for f in frs)


def enc_fop(op):
    k = op[0]
    if k in "GY":
        return k
    if k == "S":
        return "S" + enc_str(op[1])
    if k == "C":
        return "C" + str(op[1])
    if k == "A":
        return "A" + enc_str(op[1]) + "~" + L.enc_opt_style(op[2])
    if k in "XT":
        return k + enc_frags(op[1])
    if k == "J":
        return "J" + "!".join(enc_frags(f) for f in op[1])
    return "K%d:" % len(op[1]) + ",".join(enc_str(c) + "~" + L.enc_opt_style(st) for c, st in op[1])


def apply_fop(t, op, read_first=False):
    """one fragment operation on the real text; returns the text to go on with"""
    from rich.text import Text

    if read_first:
        t.plain  # noqa: B018 - the getter normalises `_text`; the theorem says nobody can tell
    k = op[0]
    if k == "G":
        t.plain  # noqa: B018
    elif k == "S":
        t.plain = op[1]
    elif k == "A":
        t.append(op[1], op[2])
    elif k in "XT":
        u = Text(op[1][0])
        for f in op[1][1:]:
            u.append(f)
        t.append_text(u) if k == "X" else t.append(u)
    elif k == "K":
        t.append_tokens(op[1])
    elif k == "C":
        t.right_crop(op[1])
    elif k == "Y":
        t = t.copy()
    elif k == "J":
        lines = []
        for frs in op[1]:
            u = Text(frs[0])
            for f in frs[1:]:
                u.append(f)
            lines.append(u)
        t = t.join(lines)
    return t


def ref_fop(s, op):
    """the same operation on an ordinary string"""
    k = op[0]
    if k == "S":
        return op[1]
    if k == "A":
        return s + L.strip_ctl(op[1])
    if k in "XT":
        return s + "".join(op[1])
    if k == "K":
        return s + "".join(c for c, _ in op[1])
    if k == "C":
        return s[: max(0, len(s) - op[1])]
    if k == "Y":
        return L.strip_ctl(s)
    if k == "J":
        return s.join("".join(frs) for frs in op[1])
    return s


def frag_histories(ctx):
    """Model/TextFrag.lean against rich's `_text` list after every operation, and the two theorems' statements on real rich:
    frag_refines_history ("".join(_text) is the string the same operations give on an ordinary string) and
    plain_normalisation_unobservable (reading `plain` before every operation changes nothing that can be observed)"""
    from rich.text import Text

    if not isinstance(getattr(Text("a"), "_text", None), list):
        ctx.note("frag:_text-not-observable")  # a refactor removed the fragment list: nothing to compare (the abstract model still is)
        return
    rng = ctx.rng
    kinds = [("G",), ("S", "x"), ("S", "ab"), ("A", "b", None), ("A", "", "s1"), ("A", "\r", None), ("A", "b\x08c", "s1"),
             ("X", ["d", "e"]), ("X", [""]), ("T", [""]), ("T", ["d"]), ("K", [("c", None), ("", "s2")]), ("K", []),
             ("C", 0), ("C", 1), ("C", 9), ("Y",), ("J", []), ("J", [["d", "e"]]), ("J", [["d", "e"], [""], ["f"]])]
    hists = [(init, list(p)) for init in ("", "a\rb") for k in (1, 2) for p in itertools.product(kinds, repeat=k)]
    n_exh = len(hists)
    for _ in range(600 if ctx.quick else 30000):
        ops = []
        for _i in range(rng.randint(3, 10)):
            op = rng.choice(kinds)
            if op[0] in "SA" and rng.random() < 0.5:
                op = (op[0], gen_string(rng, 3, ctl=op[0] == "A")) + op[2:]
            if op[0] == "C":
                op = ("C", rng.randint(0, 4))
            if op[0] == "K" and rng.random() < 0.5:
                op = ("K", [(gen_string(rng, 2, ctl=False), rng.choice([None, "s1"])) for _j in range(rng.randint(0, 3))])
            ops.append(op)
        hists.append((gen_string(rng, 4), ops))
    for idx, (init, ops) in enumerate(hists):
        inp = {"initial": f"Text({init!r})", "operations": [repr(o) for o in ops]}
        try:
            t, t2, s = Text(init), Text(init), L.strip_ctl(init)
            trace, ok_ref = [], True
            for op in ops:
                ctx.note("fop:" + op[0])
                t = apply_fop(t, op)
                t2 = apply_fop(t2, op, read_first=True)
                s = ref_fop(s, op)
                trace.append(list(t._text))
                ok_ref = ok_ref and "".join(t._text) == s and "".join(t2._text) == s
            same = observe(t) == observe(t2) and t.plain == s and len(t) == len(s)
            err = None
        except BaseException as e:  # noqa: BLE001
            trace, ok_ref, same, err = None, False, False, type(e).__name__
        if trace is not None:
            ctx.case("text_frag_run", [enc_str(init), "|".join(enc_fop(o) for o in ops)], ";".join(enc_frags(f) for f in trace),
                     shape=("exh" if idx < n_exh else "rnd") + ":len%d" % min(len(ops), 6))
        ctx.check(ok_ref, "frag_refines_history", None if ok_ref else inp,
                  "" if ok_ref else f"the joined fragments are not the string the same operations give on an ordinary string (raised {err})")
        ctx.check(same, "plain_normalisation_unobservable", None if same else inp,
                  "" if same else f"reading .plain before every operation changed what the text shows (raised {err})")
    ctx.note("frag_histories", len(hists))
    ctx.flush()


# ------------------------------------------------------------------------------------------------ the run
def run(ctx):
    rng = ctx.rng
    ctx.assumptions += [
        "style names are opaque; rendering is observed in the free monoid of style names (order of combination visible); "
        "'same effective style' is judged modulo the laws every style algebra has: \"\" is the identity and s+s = s",
        "domain of the property: spans given to the constructor lie inside the stripped text (0 <= start <= end <= len); "
        "pad / crop counts, widths and set_length arguments are >= 0; divide offsets are non-decreasing and within the text; "
        "split separators are non-empty (self-overlapping ones are inside the domain since fix b61fef8; an empty one raises AssertionError); "
        "append_tokens / pad characters / plain-setter strings carry no strip-control character (they are not stripped by rich); tab size >= 1",
        "cell widths (truncate / align) are rich.cells' own (property C13)",
        "regex highlighters are span sources: their spans are checked to lie inside the text and are then given to the model",
    ]

    # 1. bounded-exhaustive single operations on small states (one representative per class the code branches on)
    small_strings = ["", "a", "ab", "a\tb", "a\n", "\tあ", "ab\rc", "a b ", "aa", "\x08", "a\t\nb\t", "a.b.", "あ  ", "à  ", "a(*b"]
    small_spans = lambda n: [[], [(0, n, "s1")], [(0, max(n - 1, 0), "s1"), (min(1, n), n, "s2")], [(0, n, "s1"), (n // 2, n, "s2"), (0, n, "s1")]]  # noqa: E731
    n_sys = 0
    for s in small_strings:
        n = len(L.strip_ctl(s))
        for spans in small_spans(n):
            for base in ("", "s5"):
                spec = (s, base, spans, None, 8)
                ops1 = [("copy",), ("rstrip",), ("expand_tabs", None), ("expand_tabs", 4), ("expand_tabs", 1)]
                rng_i = range(-n - 2, n + 3)
                ops1 += [("index", i) for i in rng_i]
                ops1 += [("right_crop", c) for c in range(0, n + 3)] + [("set_length", c) for c in range(0, n + 3)]
                ops1 += [("rstrip_end", c) for c in range(0, n + 2)]
                ops1 += [("truncate", w, ov, pad) for w in range(0, n + 3) for ov in (None, "crop", "ellipsis", "ignore") for pad in (False, True)]
                ops1 += [("align", m, w, "*") for m in ("left", "center", "right") for w in range(0, n + 4)]
                ops1 += [(k, c, "-") for k in ("pad", "pad_left", "pad_right") for c in (0, 1, 2)]
                ops1 += [("split", sep, incl, blank, 0) for sep in ("\n", "\t", "a", " ", ".", "(", "*", "a.") for incl in (False, True) for blank in (False, True)]
                ops1 += [("append_str", x, st) for x in ("", "z", "\r", "z\x08y") for st in (None, "s3")]
                ops1 += [("remove_suffix", x, 0) for x in ("", "a", "b", " ", "\n", s[-2:], s)] + [("fit", w, 0) for w in range(0, n + 2)]
                ops1 += [("split", sep, incl, blank, 0) for sep in ("aa", "aba", "  ") for incl in (False, True) for blank in (False, True)]
                ops1 += [("slice_step", a, None, stp) for a in (None, 0, 1) for stp in (None, 1, 2, -1, 0)]
                if base == "":
                    ops1 += [("slice", a, b) for a in [None] + list(rng_i) for b in [None] + list(rng_i)]
                    ops1 += [("stylize", "s4", a, b) for a in rng_i for b in [None] + list(rng_i)]
                    ops1 += [("divide", list(offs), 0) for k in (1, 2, 3) for offs in itertools.combinations_with_replacement(range(0, n + 1), k)]
                for op in ops1:
                    explore(ctx, spec, [op])
                    n_sys += 1
    for s in small_strings:
        t0, _r0 = build((s, "", [], None, 8))
        ctx.check(py_ans(lambda: t0[::2]) == ("err", "TypeError") and py_ans(lambda: t0[::-1]) == ("err", "TypeError"), "__getitem__(slice)", s,
                  "a slice with a step must raise TypeError (documented: not supported)")
    # indentation guides: every string of <= 4 characters over the first three, and of <= 3 over all six, members of an alphabet with
    # the classes detect_indentation / with_indent_guides branch on
    # (U+0020, a non-space, newline, tab, two non-ASCII whitespace characters that must NOT count as indentation)
    ind_alpha = [" ", "a", "\n", "\t", "\u3000", "\xa0"]
    ind_strings = ["".join(p) for k in range(0, 5) for p in itertools.product(ind_alpha[:3], repeat=k)]
    ind_strings += ["".join(p) for k in range(1, 4) for p in itertools.product(ind_alpha, repeat=k)]
    ind_strings += ["  a\n    b\n\n  c", "    a\n      b", "  a\n \n   b\n", "\u3000\u3000a\n  b", "\ta\n        b", "      a\n    b\n"]
    for s in ind_strings:
        n = len(s)
        for spans in ([], [(0, n, "s1"), (0, min(2, n), "s2")]):
            for size in (None, 2) if len(s) > 3 else (None, 1, 2, 3):
                explore(ctx, (s, "s5" if spans else "", spans, None, 4 if "\t" in s else 8), [("indent_guides", size, "│", "s3")])
                n_sys += 1
    ctx.note("systematic_single_ops", n_sys)
    ctx.flush()

    # 1b. the string-level functions the round-4 theorems are stated with, and those theorems' statements on real rich
    string_level(ctx)
    frag_histories(ctx)

    # 2. malformed constructor spans / unsorted divide offsets: correspondence only (outside the property's domain)
    from rich.text import Span, Text

    n_mal = 300 if ctx.quick else 5000
    for _ in range(n_mal):
        s = gen_string(rng, 5)
        n = len(s)
        spans = [(rng.randint(-3, n + 3), rng.randint(-3, n + 3), rng.choice(STYLES[:3])) for _ in range(rng.randint(1, 3))]
        t = Text(s, style=rng.choice(["", "s5"]), spans=[Span(*x) for x in spans])
        ctx.case("text_new", [FLAGS, L.enc_fields(s, 0, t.style, spans)], L.ans_text(t), shape="malformed-spans")
        before = L.enc_text(t)
        offs = [rng.randint(0, n + 2) for _ in range(rng.randint(1, 3))]
        st, val = py_ans(lambda: list(t.divide(offs)))
        ctx.case("text_divide", [FLAGS, before, " ".join(map(str, offs))], L.ans_texts(val) if st == "ok" else "err:" + val, shape="malformed")
        e = rng.choice(["", "\n", "ab"])
        ctx.case("text_render", [FLAGS, before, enc_str(e)], L.enc_render(t, e), shape="malformed")
    ctx.flush()

    # 3. histories
    n_hist = 6000 if ctx.quick else 120000
    lens = 0
    for _ in range(n_hist):
        spec = gen_spec(rng, ctl=rng.random() < 0.3)
        k = rng.randint(1, 12)
        # operations are generated against the evolving reference length; run them one prefix at a time
        ops = []
        t, r = build(spec)
        try:
            sink0 = Sink(None)
            judge(sink0, "Text()", t, r, lambda kind: None)
            for _i in range(k):
                op = gen_op(rng, len(r.cells))
                ops.append(op)
                t, r = step(sink0, t, r, op)
                if t._length < 0:
                    break
        except (Stop, Failure):
            pass
        lens += len(ops)
        ctx.note(f"history_len:{len(ops)}")
        for op in ops:
            ctx.note("op:" + op[0])
        explore(ctx, spec, ops)
    ctx.note("history_ops_total", lens)
    ctx.flush()
    ctx.rule = (
        "1) single operations, bounded-exhaustive: %d small initial texts (strings %r x 4 span sets incl. duplicated spans x 2 base styles) x every "
        "argument inside/at/beyond both ends (indices -n-2..n+2, counts 0..n+2, every sorted offset tuple of <= 3); 2) %d malformed span / offset cases "
        "(model-vs-code only); 3) %d seeded random histories of 1..12 operations over 31 operation kinds, each step compared model-vs-code (state + "
        "rendering) and against the reference styled string; 4) round 4: strSplit / rstripEndAmount / evenIndents against the running Python (every string "
        "of <= 6 over {a,b} x 7 separators incl. self-overlapping ones, every string of <= 4 over {a, space, newline} x 6 separators, both flags both ways, "
        "+ seeded random; every string of <= 4 over {a, space, wide, tab} x sizes -1..2n+1; every string of <= 6 over {space, a, newline}) with the "
        "theorems' statements evaluated on real rich for each, and `_text` fragment histories (every sequence of <= 2 of 20 fragment operations on 2 "
        "initial texts + seeded random of 3..10) compared list by list with Model/TextFrag and run twice on real rich (with / without reading .plain "
        "before every operation); distinct = distinct canonical requests" % (len(small_strings) * 8, small_strings, n_mal, n_hist)
    )


def replay(ctx, case):
    print("site:", case.get("site"))
    print("input:", case.get("input"))
    print("what:", case.get("what"))
    inp = case.get("input") or {}
    try:
        from rich.text import Span, Text  # noqa: F401 - names used by eval below

        spec_src = inp["initial"]
        import ast

        call = ast.parse(spec_src, mode="eval").body
        s = ast.literal_eval(call.args[0])
        kw = {k.arg: ast.literal_eval(k.value) for k in call.keywords}
        spec = (s, kw["style"], kw["spans"], kw["overflow"], kw["tab_size"])
        ops = [ast.literal_eval(o) for o in inp["operations"]]
        run_history(Sink(None), spec, ops)
    except Failure as f:
        print("still fails:", f.site, f.finding, f.what)
        return False
    except KeyError:
        print("re-run `./check C05` (generators are seeded: VERIF_SEED=%s)" % case.get("seed"))
        return False
    return True


MANIFEST = {
    "text": "Lean 4 theorems (Props/C05.lean, 65 obligations, none partial; no bound on string length, number of spans or number of "
    "operations) about a statement-by-statement model of rich/text.py (Model/Text.lean: Span, Text with the separately stored _length, every "
    "mutator, divide, split, slices incl. step, expand_tabs, render's event sort + style-id stack, remove_suffix, fit, __add__, "
    "detect_indentation, with_indent_guides) and of control.strip_control_codes (table re-translated from rich/control.py every run). "
    "(1) render_view: for every consistent text render() raises nothing and its (character, combined style names) stream IS the reference "
    "semantics view(t) = each character under the base style then the covering spans in span order. (2) The state invariant Inv (len() = "
    "len(plain), no strippable control code, every span 0 <= start <= end <= len) holds after construction for every string and is preserved "
    "by every operation and hence by every history (inv_history_all). (3) Per-operation refinement view(op t) = <list operation>(view t) - "
    "characters, order and the ordered style list of every survivor - for construction, copy, append*, plain setter, pad*, right_crop, "
    "set_length, text[i], text[a:b] for ALL bounds (and the ValueError/TypeError behaviour for a step), rstrip, truncate, align, join, "
    "assemble, divide, split at piece level for EVERY non-empty separator with both flags both ways (cut points = leftmost non-overlapping "
    "occurrences), expand_tabs with the exact blank arithmetic (tab -> ts - col % ts blanks, first in the tab's style, multi-line), stylize "
    "(exact slice semantics), copy_styles / highlighters; styling-only operations never change characters or len(). Eight defects of rich "
    "9.10.0 are carried as variant flags (ten machine-checked witnesses, the old_* theorems, for seven of them; the eighth, rstrip_end's "
    "character count, is property C08's); all eight are repaired in /repo now (fix: commits 0149e10, ba4c9a6, 3a84457, b5c0e99, aad03fe, "
    "9ca68f6, f5f2be9 and, for split with a self-overlapping separator, b61fef8). "
    "Tie: 33 driver entry points compared state-by-state (plain, _length, spans, style, attributes and the render() segments) with real "
    "rich.text.Text objects on ~130k (quick) / ~1M (thorough) generated requests per run; independently a reference styled string undergoes "
    "'the same operation on an ordinary string' and is compared with plain / len() / render() after every step of every history "
    "(bounded-exhaustive single operations with arguments inside, at and beyond both ends + all strings <= 4 over the indentation alphabet + "
    "seeded random histories of 1..12 operations over 31 operation kinds, shrunk on failure); every earlier object of a history (receivers, "
    "operands, sibling pieces) is re-observed after every later step and operations documented to return a new Text must not return their "
    "receiver, so aliasing is visible. "
    "Deepening round 4: (4) split is the string-level split of the styled string (split_str_view over the executable strSplit of "
    "Model/TextStr.lean, any non-empty separator, both flags both ways) with the string laws split_incl_concat (include_separator=True loses "
    "and moves nothing) and split_join_inverse (sep.join(split(sep, allow_blank=True)) is the text); (5) refinement theorems for the "
    "operations that were only compared before: pad_view, remove_suffix_view, add_view (+ str, + Text), append_tokens_view, rstrip_end_view "
    "(exactly min(trailing whitespace, cell width - size) trailing characters go, all of them whitespace), fit_view (lines of the string-level "
    "split cut/padded to exactly w), detect_indentation_spec (the gcd of the even space indentations, >= 1), with_indent_guides_view (FULL "
    "strength: the styled string is the list function guideLines of the lines of the tab-expanded text - guide every `size` columns with the "
    "guide style on top of what the positions carried, blank lines take the NEXT non-blank line's indentation in the bare guide style, "
    "trailing blank lines empty - joined by newlines under the null style); (6) inv_history_full / history_render_full: the invariant and "
    "'render() = view' after EVERY history over the complete operation set OpAll = OpX + split(any separator, both flags) + fit + pad + "
    "append_tokens + rstrip_end + with_indent_guides; (7) the _text fragment list is modelled as the code keeps it (Model/TextFrag.lean: "
    "plain getter = join + reset to one fragment, setter, append(str), append(Text), append_text, append_tokens, right_crop, copy, join "
    "which copies the operands' fragments un-normalised) and proved to refine the concatenation model operation by operation and history "
    "by history (frag_refines_step / frag_refines_history), the getter's normalisation being unobservable "
    "(plain_normalisation_unobservable). New tie (37 driver entry points): text_str_split (8,060 quick requests: every string <= 6 over "
    "{a,b} x 7 separators incl. aa, aba, aab; every string <= 4 over {a, space, newline} x 6 separators; 4 flag combinations; + 400 seeded "
    "random; answer = pieces AND the positions each piece was cut from, oracle str.find cross-checked against str.split and re.finditer), "
    "text_rstrip_end_amount (3,527: every string <= 4 over {a, space, wide, tab} x sizes -1..2n+1), text_even_indents (1,100: every string "
    "<= 6 over {space, a, newline}), text_frag_run (1,440 histories: every sequence of <= 2 of 20 fragment operations on 2 initial texts + "
    "600 seeded random of 3..10; rich's _text list after every operation); the statements of split_str_view, split_incl_concat, "
    "split_join_inverse, rstrip_end_view, detect_indentation_spec, frag_refines_history and plain_normalisation_unobservable are evaluated "
    "on real rich for each of these inputs (the last by running every history twice, with and without reading .plain before every "
    "operation), and the history step of rstrip_end now also checks the exact amount.",
    "note": "Variant flags, all 0 (= repaired = what /repo contains now): CTOR_LEN, CROP_ENDS, STYLIZE_NEG, GETITEM, DIVIDE_ORDER, ALIGN_NEG "
    "(the six fields of Variant), RSTRIP_END_CHARS (fix f5f2be9), SPLIT_ENDSWITH (fix b61fef8); known_findings.txt has no `known:` line for "
    "C05, so the check prints no KNOWN-FINDING line. "
    "split_view is about Text.splitW false (the repaired last-line rule, in /repo since fix b61fef8); split_released_eq_repaired proves that "
    "rich 9.10.0 as found (before that fix; SPLIT_ENDSWITH = 1) is the same function for every separator that does not overlap itself (all "
    "that rich itself uses); for a self-overlapping separator the code as found lost characters (old_split_overlapping_separator, finding "
    "split-overlapping-separator, fixed). "
    "fit, with_indent_guides and detect_indentation have refinement theorems since round 4 (fit_view, with_indent_guides_view, "
    "detect_indentation_spec); fit_view / with_indent_guides_view go through Text.split as found, which split_released_eq_repaired makes the "
    "repaired split for the one-character separator they use. divide_view is proved in Lemmas/WrapDivide.lean (built by property C02 on this model) and imported, as are two helper lemmas "
    "about one-character separators. rstrip_end's amount is a theorem for the repaired code (rstrip_end_view, Text.rstripEndW false; "
    "rstripEndAmount is executable and compared with the running Python); for RSTRIP_END_CHARS = 1 only model-vs-code pins it. "
    "Remaining partial: step_total (no operation raises inside its domain) is stated for the base set Op only; the fragment model covers "
    "the operations that touch _text directly (expand_tabs and truncate(pad=True), which assign a one-element list, go through the abstract "
    "model only; an operand text is given by its fragment list and is not re-observed after append(Text) normalised it); comparing _text "
    "reaches into a private attribute: the generator is skipped (note frag:_text-not-observable) if it is not a list. "
    "Trusted: Lean kernel; axioms propext/Classical.choice/Quot.sound; translator harness/gen/text_tables.py (STRIP_CONTROL_CODES, and "
    "the running CPython's str.isspace set, cross-checked against regex \\s and str.rstrip); the correspondence harness; "
    "_text fragments are abstracted to their concatenation in Model/Text.lean, the abstraction being justified by frag_refines_history; styles are opaque names and 'same effective style' in the direct evaluation is "
    "judged in the free right-regular band over names ('' identity, s+s=s, x+y+x=y+x) - the Lean theorems use the stronger free monoid "
    "(exact ordered lists); cell widths are rich.cells' (C13); regex highlighters are span sources (their spans are checked to be non-empty "
    "and inside the text, then given to the model). "
    "Domain (outside it only model-vs-code is compared): constructor spans inside the stripped text; counts/widths >= 0; divide offsets "
    "non-decreasing within the text; no strip-control characters through append_tokens / pad character / plain setter (rich does not strip "
    "there); Text.style is not None; tab size >= 1; with_indent_guides with a one-character guide and indent_size >= 1; negative _length "
    "states end a history.",
    "design_ref": "DESIGN.md section 7, C05; pre-finding F1 (section 8)",
}
