"""C16 — pretty-printed data evaluates back to the data.

Correspondence: Lean model (Model/Pretty.lean) vs rich.pretty, in-process:
  * `traverse` on a heap description of the Python value (identities kept) vs the real Node tree,
  * `Node.render` / `pretty_repr` output, character for character,
  * `Node.iter_tokens/__str__/check_length`, `_Line.expandable/check_length/__str__/expand` on synthetic
    (also ill-formed) nodes and lines,
  * `Pretty.__rich_measure__` (the reported width or ValueError) and `Pretty.__rich_console__` (text, Text
    attributes, guides request, blank line) on the real `Pretty` object.
Direct evaluation (3d), with oracles independent of the Lean model:
  * eval() of the real output is the value again, same types at every level,
  * the output equals a reference printer written from the statement (one item per line, consistent
    indentation, kept on one line iff it fits, exact abbreviation counts, `...` on the path) up to the legal
    trailing comma, and equals repr() whenever that fits for list/tuple/dict/set/frozenset values,
  * rendering the real `Pretty` at the width `__rich_measure__` reported has no line wider than that width.
"""
import multiprocessing
import random

from core import enc_bool, enc_opt, enc_str, enc_str_list

PROPERTY = "C16"

# CODE VARIANT FLAGS  (1 = rich 9.10.0 as found, 0 = the repaired code = what /repo contains now; see Model/Pretty.lean `Variant`)
DROP_SUFFIX = 0  # F24: _Line.expand derives the closing line's suffix from the node instead of carrying its own (0: fix 376cec1)
ARRAY_LITERAL = 0  # F12: the empty form of array is the literal text "array({_object.typecode!r})" (0: fix e5d1b9a)

MEASURE_NO_EXPAND_ALL = 0  # F26: Pretty.__rich_measure__ calls pretty_repr without expand_all (1 = rich 9.10.0 as found; 0: fix db5535b)

MEASURE_IGNORES_MARGIN = 0  # round-4 finding, fixed in f3605d0: Pretty.__rich_measure__ never looked at self.margin although __rich_console__ renders at max_width - margin (1 = rich as found; 0 = repaired, what /repo has now)

ARRAY_LITERAL_TEXT = "array({_object.typecode!r})"
MARGINS = [1, 1, 2, 3, 5, 12]
INDENTS = [4, 4, 1, 2, 0, 8]
MAX_LENGTHS = [None, None, None, 0, 1, 2, 3, 5]
MAX_STRINGS = [None, None, None, 0, 1, 3, 10]


class Rec:
    """what a worker hands back: correspondence cases, failed checks, pass counters, distribution notes."""

    def __init__(self, seed):
        self.cases = []
        self.fails = []
        self.passes = {}
        self.notes = {}
        self.rng = random.Random(seed)

    def case(self, fn, args, ans, shape=None, sample=None):
        self.cases.append((fn, [str(a) for a in args], str(ans), shape, sample))

    def check(self, ok, site, inp, what, finding=None):
        if ok:
            self.passes[site] = self.passes.get(site, 0) + 1
        else:
            self.fails.append((site, inp, what, finding))
        return ok

    def note(self, k, n=1):
        self.notes[k] = self.notes.get(k, 0) + n

    def result(self):
        return self.cases, self.fails, self.passes, self.notes


def _short(v, n=300):
    try:
        r = repr(v)
    except Exception:  # noqa: BLE001
        r = "<unreprable>"
    return r if len(r) <= n else r[:n] + "…"


def _leading(s):
    return len(s) - len(s.lstrip(" "))


def choose_widths(rng, crit, maxw, k, sweep=False):
    if sweep:
        # every width within +-2 of every fit threshold of the value (true widths from the table)
        return sorted({c + d for c in crit for d in (-2, -1, 0, 1, 2) if c + d >= 0})[:60]
    cand = set()
    for c in crit:
        for d in (-1, 0, 1):
            if 1 <= c + d <= maxw:
                cand.add(c + d)
    cand = sorted(cand)
    rng.shuffle(cand)
    out = cand[:k]
    out.append(rng.randint(1, maxw))
    if rng.random() < 0.2:
        out.append(rng.choice([0, 1, 2, 80, maxw]))
    if rng.random() < 0.04:
        out.append(-rng.randint(0, 5))  # max_width <= 0: nothing fits, everything is expanded
    return out


NEG_EVERY = 12  # one option set in this many takes an option from outside its documented domain

_CONSOLE = None


def _console():
    global _CONSOLE
    if _CONSOLE is None:
        import io

        from rich.console import Console

        _CONSOLE = Console(file=io.StringIO(), width=80, color_system=None, force_terminal=False, legacy_windows=False)
    return _CONSOLE


def eval_value(rec, v, tier_quick, n_cfg, tag, sweep=False):
    """all checks for one value under `n_cfg` option sets x critical widths (`sweep`: all widths within +-2 of
    every fit threshold).  Options outside their documented domain (negative max_length / max_string /
    indent_size, max_width <= 0) are compared model-vs-code; the statement is evaluated only inside its domain."""
    import dataclasses

    import lib_pretty as L
    from rich.pretty import Pretty, pretty_repr, traverse

    cell_len = L.table_cell_len  # oracle side: the width table only, none of rich.cells' code
    rng = rec.rng
    maxw = 60 if tier_quick else 200
    cyc = L.has_cycle(v)
    can_eval = (not cyc) and L.evaluable(v)
    basic = (not cyc) and L.only_basic(v)
    brk = L.has_line_break(v)
    empty_key = L.has_empty_key_repr(v)  # outside the statement's domain (no literal has an empty repr)
    if empty_key:
        rec.note("value:empty-key-repr(outside-domain)")
    rec.note(f"value:{tag}:{type(v).__name__}")
    if cyc:
        rec.note("value:cyclic")
    if brk:
        rec.note("value:leaf-repr-with-line-break")
    heaps = {}
    trees = {}
    mask = DROP_SUFFIX == 0
    for ci in range(n_cfg):
        ind = rng.choice(INDENTS)
        ea = rng.random() < 0.25
        if ci == 0:
            ml = ms = None
        else:
            ml = rng.choice(MAX_LENGTHS)
            ms = rng.choice(MAX_STRINGS)
            if rng.randrange(NEG_EVERY) == 0:
                which = rng.randrange(3)
                if which == 0:
                    ml = -rng.randint(1, 3)
                elif which == 1:
                    ms = -rng.randint(1, 6)
                else:
                    ind = -rng.randint(1, 4)
        in_domain = (ml is None or ml >= 0) and (ms is None or ms >= 0)
        if not in_domain:
            rec.note("options:outside-domain:" + ("ml" if (ml is not None and ml < 0) else "ms"))
        tkey = (ml, ms) if in_domain else (None, None)
        if tkey not in trees:
            trees[tkey] = L.ref_tree(v, *tkey)
        tree = trees[tkey]
        crit = set()
        L.ref_lines(tree, cell_len, 0, ind, True, crit)
        rec.note("depth:%d" % min(_depth(tree), 7))
        widths = choose_widths(rng, crit, maxw, 2 if ci else 3, sweep=sweep)
        if ms not in heaps:
            heaps[ms] = L.enc_heap(v, ms)
        heap, root, table = heaps[ms]
        for w in widths:
            inp = dict(value=_short(v), max_width=w, indent_size=ind, expand_all=ea, max_length=ml, max_string=ms)
            try:
                out = pretty_repr(v, max_width=w, indent_size=ind, max_length=ml, max_string=ms, expand_all=ea)
                ans = enc_str(out)
            except RecursionError:
                rec.check(False, "pretty_repr", inp, "did not terminate (RecursionError)")
                continue
            except ValueError:
                out = None
                ans = "err:ValueError"
            sample = f"pretty_repr({_short(v, 120)}, max_width={w}, indent_size={ind}, expand_all={ea}, max_length={ml}, max_string={ms})" if rng.random() < 0.02 else None
            if out is None:
                shape = "ValueError"
            else:
                shape = ("multi" if "\n" in out else "one") + (":ea" if ea else "") + (":ml" if ml is not None else "") + (":ms" if ms is not None else "") + (":cyc" if cyc else "")
                if w <= 0:
                    shape += ":w<=0"
            rec.case(
                "pretty.pretty_repr",
                [DROP_SUFFIX, ARRAY_LITERAL, heap, root, enc_opt(ml), enc_opt(ms), table, w, ind, enc_bool(ea)],
                ans,
                shape=shape,
                sample=sample,
            )
            if out is None or not in_domain or empty_key:
                if out is None:
                    # the documented behaviour of a negative max_length is not stated anywhere; what is checked is
                    # that the error is the one the model predicts (islice's ValueError on a non-empty root)
                    rec.check(ml is not None and ml < 0 and L.is_container(v) and len(v) > 0, "pretty_repr:ValueError", inp, "ValueError outside the predicted case")
                continue
            # ---- direct evaluation 1: the reference printer (statement level)
            lines = L.ref_lines(tree, cell_len, w, ind, ea)
            ok, at = L.ref_matches(out, lines, ind)
            finding = None
            if not ok:
                finding = classify(out, lines, ind)
            rec.check(
                ok,
                "pretty_repr:layout",
                inp,
                f"output differs from the statement-level reference at line {at}: got {out!r}, expected {L.ref_text(lines, ind)!r}",
                finding=finding,
            )
            # ---- direct evaluation 2: evaluates back to an equal value of the same type
            if ml is None and ms is None and can_eval:
                try:
                    back = eval(out, dict(L.EVAL_NS))  # noqa: S307 - the statement of the property
                    okb = L.same(back, v)
                    why = f"eval(output) = {_short(back)} of type {type(back).__name__}, not the value"
                except Exception as e:  # noqa: BLE001
                    okb = False
                    why = f"eval(output) raised {type(e).__name__}: {e}"
                rec.check(okb, "pretty_repr:eval", inp, why + f"; output {out!r}", finding=finding if not ok else (classify_literal(out)))
            # ---- direct evaluation 3: repr() on one line whenever it fits (basic containers)
            if basic and ml is None and ms is None:
                try:
                    r = repr(v)
                except Exception:  # noqa: BLE001 - a leaf whose repr raises: list.__repr__ has no fallback, rich has
                    r = None
            if basic and ml is None and ms is None and r is not None:
                if not ea and cell_len(r) <= w:
                    rec.check(out == r, "pretty_repr:repr_when_fits", inp, f"repr() fits in {w} cells but output is {out!r}")
                elif L.is_container(v) and len(v) > 0:
                    rec.check("\n" in out, "pretty_repr:expand_when_too_wide", inp, f"repr() needs {cell_len(r)} cells (expand_all={ea}) but output is one line {out!r}", finding=classify_literal(out))
            # ---- direct evaluation 4: indentation (when the only line breaks are the layout's)
            if not brk and out != "":
                ols = out.split("\n")
                lead = [_leading(s) for s in ols]
                okI = lead[0] == 0
                if ind > 0:
                    okI = okI and all(x % ind == 0 for x in lead) and all(b - a <= ind for a, b in zip(lead, lead[1:]))
                else:
                    okI = okI and all(x == 0 for x in lead)
                okI = okI and lead[-1] == 0
                rec.check(okI, "pretty_repr:indent", inp, f"indentation is not a consistent multiple of {ind}: {out!r}")
        # ---- Pretty.__rich_measure__: correspondence + "render at the reported maximum fits"
        if ci < 2 or rng.random() < 0.3:
            W = rng.choice(widths) if rng.random() < 0.7 else rng.randint(1, maxw)
            p = Pretty(v, indent_size=ind, max_length=ml, max_string=ms, expand_all=ea)
            inp = dict(value=_short(v), max_width=W, indent_size=ind, expand_all=ea, max_length=ml, max_string=ms)
            meas = None
            try:
                meas = p.__rich_measure__(_console(), W)
                mans = str(meas.maximum)
                rec.check(meas.minimum == meas.maximum, "Pretty.__rich_measure__:minmax", inp, f"{meas}")
            except ValueError:
                mans = "err:ValueError"
            except RecursionError:
                mans = None
            if mans is not None:
                rec.case(
                    "pretty.measure",
                    [DROP_SUFFIX, ARRAY_LITERAL, MEASURE_NO_EXPAND_ALL, heap, root, enc_opt(ml), enc_opt(ms), table, W, ind, enc_bool(ea)],
                    mans,
                    shape=("err" if meas is None else "ok") + (":ea" if ea else ""),
                )
            if meas is not None and in_domain and not brk:
                m = meas.maximum
                opts = dataclasses.replace(_console().options, max_width=m, min_width=m)
                text = list(p.__rich_console__(_console(), opts))[-1].plain
                widest = max(cell_len(l) for l in text.split("\n"))
                finding = None
                if widest > m and ea:
                    full = pretty_repr(v, max_width=W, indent_size=ind, max_length=ml, max_string=ms, expand_all=True)
                    flat = pretty_repr(v, max_width=W, indent_size=ind, max_length=ml, max_string=ms, expand_all=False)
                    if max(cell_len(l) for l in flat.split("\n")) == m and max(cell_len(l) for l in full.split("\n")) >= widest:
                        finding = "pretty-measure-ignores-expand-all"
                rec.check(
                    widest <= m,
                    "Pretty.__rich_measure__:sound",
                    inp,
                    f"measured {m} at available width {W}, but rendering at width {m} has a line of {widest} cells: {text!r}",
                    finding=finding,
                )
        # ---- Pretty(margin > 0).__rich_measure__: correspondence (prettyMeasureM) + soundness against what
        #      __rich_console__ renders when given exactly the measured width (pretty_measure_sound_margin)
        if ci < 2 or rng.random() < 0.3:
            measure_margin_case(rec, v, heap, root, table, rng, widths, maxw, ind, ml, ms, ea, in_domain, brk, cell_len)
    # ---- Pretty.__rich_console__ option plumbing (model: prettyConsole)
    console_case(rec, v, heaps, rng, maxw)
    # ---- traverse: correspondence on the heap + abbreviation counts on the real tree
    tkeys = list(trees)
    if rng.randrange(NEG_EVERY) == 0:
        tkeys.append((-rng.randint(1, 2), rng.choice([None, -1, 2])))
    for (ml, ms) in tkeys:
        if ms not in heaps:
            heaps[ms] = L.enc_heap(v, ms)
        heap, root, table = heaps[ms]
        try:
            node = traverse(v, max_length=ml, max_string=ms)
            tans = L.enc_node(node, mask_root_last=mask)
        except RecursionError:
            rec.check(False, "traverse", dict(value=_short(v), max_length=ml, max_string=ms), "did not terminate (RecursionError)")
            continue
        except ValueError:
            node = None
            tans = "err:ValueError"
        rec.case("pretty.traverse", [DROP_SUFFIX, ARRAY_LITERAL, heap, root, enc_opt(ml), enc_opt(ms), table], tans, shape=("err" if node is None else "") + ("ml" if ml is not None else "") + ("ms" if ms is not None else "") + ("cyc" if cyc else ""))
        if node is None or (ml is not None and ml < 0) or (ms is not None and ms < 0):
            continue
        inp = dict(value=_short(v), max_length=ml, max_string=ms)
        if L.is_container(v) and ml is not None and len(v) > 0:
            n = len(v)
            kids = node.children or []
            want = min(n, ml) + (1 if n > ml else 0)
            okA = len(kids) == want and (n <= ml or kids[-1].value_repr == f"... +{n - ml}") and all(not k.value_repr.startswith("... +") for k in kids[: min(n, ml)])
            rec.check(okA, "traverse:max_length", inp, f"{n} items, max_length={ml}: {len(kids)} children, last {kids[-1].value_repr if kids else None!r}")
        if isinstance(v, (str, bytes)) or (type(v) in (list, tuple) and v and isinstance(v[0], (str, bytes))):
            s = v if isinstance(v, (str, bytes)) else v[0]
            got = node.value_repr if isinstance(v, (str, bytes)) else node.children[0].value_repr if (ml is None or ml > 0) else None
            if got is not None and ms is not None:
                want = repr(s[:ms]) + f"+{len(s) - ms}" if len(s) > ms else repr(s)
                rec.check(got == want, "traverse:max_string", inp, f"string of {len(s)} chars, max_string={ms}: {got!r}, expected {want!r}")
        # the same tree rendered through Node.render directly (pretty_repr accepts a Node)
        ind = rng.choice(INDENTS + [-2])
        ea = rng.random() < 0.2
        crit = set()
        L.ref_lines(trees[(ml, ms)], cell_len, 0, ind, True, crit)
        for w in choose_widths(rng, crit, maxw, 1):
            rec.case("pretty.render", [DROP_SUFFIX, L.enc_node(node), w, ind, enc_bool(ea)], enc_str(pretty_repr(node, max_width=w, indent_size=ind, expand_all=ea)), shape="from-traverse")


def measure_margin_case(rec, v, heap, root, table, rng, widths, maxw, ind, ml, ms, ea, in_domain, brk, cell_len):
    import dataclasses

    from rich.pretty import Pretty, pretty_repr

    margin = rng.choice(MARGINS)
    W = rng.choice(widths) if rng.random() < 0.7 else rng.randint(1, maxw)
    p = Pretty(v, indent_size=ind, max_length=ml, max_string=ms, expand_all=ea, margin=margin)
    inp = dict(value=_short(v), max_width=W, indent_size=ind, expand_all=ea, max_length=ml, max_string=ms, margin=margin)
    meas = None
    try:
        meas = p.__rich_measure__(_console(), W)
        mans = str(meas.maximum)
        rec.check(meas.minimum == meas.maximum, "Pretty.__rich_measure__:margin:minmax", inp, f"{meas}")
    except ValueError:
        mans = "err:ValueError"
    except RecursionError:
        return
    except BaseException as e:  # noqa: BLE001
        mans = "err:Other:" + type(e).__name__
    rec.case(
        "pretty.measure_m",
        [DROP_SUFFIX, ARRAY_LITERAL, MEASURE_NO_EXPAND_ALL, MEASURE_IGNORES_MARGIN, heap, root, enc_opt(ml), enc_opt(ms), table, W, ind, enc_bool(ea), margin],
        mans,
        shape=("err" if meas is None else "ok") + (":ea" if ea else ""),
    )
    if meas is None or not in_domain or brk:
        return
    m = meas.maximum
    opts = dataclasses.replace(_console().options, max_width=m, min_width=m)
    try:
        text = list(p.__rich_console__(_console(), opts))[-1].plain
    except RecursionError:
        return
    widest = max(cell_len(l) for l in text.split("\n"))
    finding = None
    if widest > m:
        # narrow classifier: the same value without a margin renders within m at width m (the measurement is sound
        # for margin = 0), and the overflow appears only because __rich_console__ renders at m - margin
        flat = pretty_repr(v, max_width=m, indent_size=ind, max_length=ml, max_string=ms, expand_all=ea)
        if max(cell_len(l) for l in flat.split("\n")) <= m:
            finding = "pretty-measure-ignores-margin"
    rec.check(
        widest <= m,
        "Pretty.__rich_measure__:margin:sound",
        inp,
        f"Pretty(margin={margin}) measured {m} at available width {W}, but __rich_console__ given width {m} renders a line of {widest} cells: {text!r}",
        finding=finding,
    )


JUSTIFY = [None, None, "left", "center", "right", "full", ""]
OVERFLOW = [None, "crop", "crop", "fold", "ellipsis", "ignore", ""]


def _enc_opt_str(x):
    return "N" if x is None else "S" + enc_str(x)


def _enc_opt_bool(x):
    return "N" if x is None else enc_bool(x)


def console_case(rec, v, heaps, rng, maxw):
    """Pretty.__rich_console__: which text, with which Text attributes, guides and blank line."""
    import dataclasses

    import lib_pretty as L
    from rich.highlighter import NullHighlighter
    from rich.pretty import Pretty
    from rich.text import Text

    ind = rng.choice(INDENTS)
    pj, po = rng.choice(JUSTIFY), rng.choice(OVERFLOW)
    pnw = rng.choice([False, False, True, None])
    guides = rng.random() < 0.4
    ea = rng.random() < 0.3
    margin = rng.choice([0, 0, 1, 3, 12])
    insert_line = rng.random() < 0.4
    ml = rng.choice(MAX_LENGTHS)
    ms = rng.choice(MAX_STRINGS)
    cwid = rng.randint(1, maxw)
    cj, co = rng.choice(JUSTIFY[:-1]), rng.choice(OVERFLOW[:-1])
    cnw = rng.choice([False, True, None])
    enc = rng.choice(["utf-8", "utf-8", "ascii", "cp1252"])
    if ms not in heaps:
        heaps[ms] = L.enc_heap(v, ms)
    heap, root, table = heaps[ms]
    p = Pretty(v, NullHighlighter(), indent_size=ind, justify=pj, overflow=po, no_wrap=pnw, indent_guides=guides, max_length=ml, max_string=ms, expand_all=ea, margin=margin, insert_line=insert_line)
    opts = dataclasses.replace(_console().options, max_width=cwid, min_width=cwid, justify=cj, overflow=co, no_wrap=cnw, encoding=enc)
    calls = []
    real = Text.with_indent_guides

    def spy(self, indent_size=None, *, character="│", style="dim green"):
        calls.append((self, indent_size, style))
        return self  # the guides themselves are Text's business (indent_size=0 divides by zero there)

    Text.with_indent_guides = spy
    try:
        parts = list(p.__rich_console__(_console(), opts))
    except RecursionError:
        return
    finally:
        Text.with_indent_guides = real
    text = parts[-1]
    blank = len(parts) == 2 and parts[0] == ""
    inp = dict(value=_short(v), indent_size=ind, justify=pj, overflow=po, no_wrap=pnw, indent_guides=guides, expand_all=ea, margin=margin, insert_line=insert_line, width=cwid, options=(cj, co, cnw, enc))
    rec.check(len(parts) in (1, 2) and (len(parts) == 1 or blank) and text.style == "pretty", "Pretty.__rich_console__:shape", inp, f"yielded {parts!r}")
    if calls:
        rec.check(len(calls) == 1 and calls[0][2] == "repr.indent", "Pretty.__rich_console__:guides", inp, f"with_indent_guides calls: {calls!r}")
    g = str(calls[0][1]) if calls else "N"
    ans = ";".join([enc_bool(blank), enc_str(text.plain), _enc_opt_str(text.justify), _enc_opt_str(text.overflow), enc_bool(bool(text.no_wrap)), g])
    if type(text.no_wrap) is not bool:
        rec.note("console:no_wrap-not-bool")
    rec.case(
        "pretty.console",
        [DROP_SUFFIX, ARRAY_LITERAL, heap, root, enc_opt(ml), enc_opt(ms), table, ind, _enc_opt_str(pj), _enc_opt_str(po), _enc_opt_bool(pnw), enc_bool(guides), enc_bool(ea), margin, enc_bool(insert_line), cwid, _enc_opt_str(cj), _enc_opt_str(co), _enc_opt_bool(cnw), enc_bool(not enc.startswith("utf"))],
        ans,
        shape=("guides" if calls else "plain") + (":blank" if blank else ""),
    )
    # direct: the text is pretty_repr at width - margin with the Pretty's own options
    from rich.pretty import pretty_repr

    want = pretty_repr(v, max_width=cwid - margin, indent_size=ind, max_length=ml, max_string=ms, expand_all=ea)
    want = "".join(ch for ch in want if ord(ch) not in (8, 11, 12, 13))  # Text.__init__ strips these
    rec.check(text.plain == want, "Pretty.__rich_console__", inp, "Pretty does not pass its options to pretty_repr")
    console_full_case(rec, v, heap, root, table, rng, want, inp, ind, pj, po, pnw, guides, ea, margin, insert_line, ml, ms, cwid, cj, co, cnw, enc, opts)


def guide_oracle(line, ind):
    """statement-level oracle for one non-blank line under indent guides (ind > 0): same length, same characters after
    the indentation, and inside the n leading blanks a guide at every whole multiple of ind below (n // ind) * ind."""
    n = len(line) - len(line.lstrip(" "))
    full = (n // ind) * ind
    return "".join("│" if (j < full and j % ind == 0) else " " for j in range(n)) + line[n:]


def console_full_case(rec, v, heap, root, table, rng, want, inp, ind, pj, po, pnw, guides, ea, margin, insert_line, ml, ms, cwid, cj, co, cnw, enc, opts):
    """everything Pretty.__rich_console__ yields with the REAL Text.with_indent_guides and the real default
    ReprHighlighter (model: prettyConsoleFull; theorems console_chars_exact / console_guides_chars)."""
    from rich.pretty import Pretty
    from rich.text import Text

    p = Pretty(v, indent_size=ind, justify=pj, overflow=po, no_wrap=pnw, indent_guides=guides, max_length=ml, max_string=ms, expand_all=ea, margin=margin, insert_line=insert_line)
    ascii_only = not enc.startswith("utf")
    applied = guides and not ascii_only
    try:
        parts = list(p.__rich_console__(_console(), opts))
        err = None
    except RecursionError:
        return
    except BaseException as e:  # noqa: BLE001 - judged below
        parts = None
        err = type(e).__name__
    if err is not None:
        ans = "err:" + (err if err in ("ZeroDivisionError", "ValueError") else "Other:" + err)
        # the only documented-by-the-code error: divmod(len(indent), 0) when guides are applied with indent_size == 0
        rec.check(err == "ZeroDivisionError" and applied and ind == 0 and want.strip(" \n") != "", "Pretty.__rich_console__:full:error", inp, f"raised {err}")
    else:
        okshape = len(parts) in (1, 2) and isinstance(parts[-1], Text) and (len(parts) == 1 or parts[0] == "")
        rec.check(okshape, "Pretty.__rich_console__:full:shape", inp, f"yielded {parts!r}")
        if not okshape:
            return
        text = parts[-1]
        plain = text.plain
        ans = ";".join([str(len(parts))] + ([enc_str("")] if len(parts) == 2 else []) + [enc_str(plain), _enc_opt_str(text.justify), _enc_opt_str(text.overflow), enc_bool(bool(text.no_wrap))])
        # direct 1: the blank renderable comes exactly when insert_line and the text yielded has a line break
        rec.check((len(parts) == 2) == (bool(insert_line) and "\n" in plain), "Pretty.__rich_console__:full:insert_line", inp, f"{len(parts)} parts for insert_line={insert_line}, text {plain!r}")
        if not applied:
            # direct 2 (console_chars_exact): the characters are those of pretty_repr at width - margin; the highlighter added none
            rec.check(plain == want, "Pretty.__rich_console__:full:chars", inp, f"yielded {plain!r}, pretty_repr gives {want!r}")
        elif ind > 0 and "\t" not in want:
            wl = want.split("\n")
            if all(l.strip(" ") != "" for l in wl):
                # direct 3 (console_guides_chars): only blanks of the indentation became guides, at whole multiples
                exp = "\n".join(guide_oracle(l, ind) for l in wl)
                rec.check(plain == exp, "Pretty.__rich_console__:full:guides", inp, f"yielded {plain!r}, expected {exp!r}")
            else:
                rec.note("console_full:blank-line-under-guides")
    rec.case(
        "pretty.console_full",
        [DROP_SUFFIX, ARRAY_LITERAL, heap, root, enc_opt(ml), enc_opt(ms), table, ind, _enc_opt_str(pj), _enc_opt_str(po), _enc_opt_bool(pnw), enc_bool(guides), enc_bool(ea), margin, enc_bool(insert_line), cwid, _enc_opt_str(cj), _enc_opt_str(co), _enc_opt_bool(cnw), enc_bool(ascii_only)],
        ans,
        shape=("err" if err else ("guides" if applied else "plain") + (":blank" if len(parts) == 2 else "")),
    )


def _depth(t):
    if t.text is not None or not t.kids:
        return 0
    return 1 + max(_depth(c) for _, c in t.kids)


def classify_literal(out):
    return "pretty-empty-array-literal" if ARRAY_LITERAL_TEXT in out else None


def classify(out, lines, ind):
    """narrow classifiers for the two known failure shapes; anything else is unclassified (None)."""
    if ARRAY_LITERAL_TEXT in out:
        return "pretty-empty-array-literal"
    real = out.split("\n")
    if len(real) != len(lines):
        return None
    dropped = 0
    for r, (d, c, opt) in zip(real, lines):
        want = " " * (d * ind) + c
        if r == want or (opt and r == want + ","):
            continue
        if want.endswith(",") and r == want[:-1] and c[:1] in ")]}":
            dropped += 1  # a closing line lost the comma its parent asked for
            continue
        return None
    return "pretty-expand-drops-suffix" if dropped else None


# ------------------------------------------------------------------ synthetic nodes and lines
TOKS = ["", "1", "'a'", "あ", "'x y'", "[", "{", "(", "]", "})", "k", "...", "́", "long_token_" * 3]


def rand_node(rng, depth, wellformed):
    from rich.pretty import Node

    r = rng.random()
    key = rng.choice(["", "", "'k'", "あ", "1"])
    last = rng.random() < 0.5
    if depth <= 0 or r < 0.35:
        n = Node(key_repr=key, value_repr=rng.choice(TOKS[1:] if wellformed else TOKS), last=last)
        if not wellformed:
            n.is_tuple = rng.random() < 0.3
            if rng.random() < 0.15:
                n.children = []
                n.empty = rng.choice(["", "[]", "set()"])
        return n
    k = rng.choice([0, 1, 1, 2, 2, 3])
    kids = [rand_node(rng, depth - 1, wellformed) for _ in range(k)]
    if wellformed:
        for i, c in enumerate(kids):
            c.last = i == k - 1
    ob, cb, em = rng.choice([("[", "]", "[]"), ("(", ")", "()"), ("{", "}", "{}"), ("deque([", "])", "deque()"), ("", "", ""), ("あ(", ")", "e")])
    n = Node(key_repr=key, open_brace=ob, close_brace=cb, empty=em, last=last, is_tuple=(ob == "(" or (not wellformed and rng.random() < 0.2)), children=kids)
    if not wellformed and rng.random() < 0.15:
        n.value_repr = rng.choice(TOKS)
    return n


def synth(rec, n_cases, tier_quick):
    import lib_pretty as L
    from rich.pretty import _Line, pretty_repr

    cell_len = L.table_cell_len
    rng = rec.rng
    for i in range(n_cases):
        wf = rng.random() < 0.5
        node = rand_node(rng, rng.choice([1, 2, 2, 3]), wf)
        en = L.enc_node(node)
        toks = list(node.iter_tokens())
        rec.case("pretty.tokens", [en], enc_str_list(toks), shape="wf" if wf else "raw")
        rec.case("pretty.str", [en], enc_str(str(node)))
        rec.check("".join(toks) == str(node), "Node.__str__", en, "str is not the concatenation of the tokens")
        total = sum(cell_len(t) for t in toks)
        start = rng.randint(0, 12)
        for mx in {start + total - 1, start + total, start + total + 1, rng.randint(-3, 40)}:
            got = node.check_length(start, mx)
            rec.check(got == (start + total <= mx) or not toks, "Node.check_length", (en, start, mx), f"check_length({start},{mx}) is {got} for a node of {total} cells")
            rec.case("pretty.check_length", [en, start, mx], enc_bool(got), shape="fit" if got else "nofit")
        # lines
        line = _Line(
            is_root=rng.random() < 0.3,
            node=node if rng.random() < 0.85 else None,
            text=rng.choice(["", "", "x", "あ: ["]),
            suffix=rng.choice(["", ",", ",", "あ"]),
            whitespace=rng.choice(["", " ", "    ", "        ", " あ"]),
            expanded=rng.random() < 0.1,
        )
        el = L.enc_line(line)
        base = len(line.whitespace) + cell_len(line.text) + cell_len(line.suffix) + total
        for mx in {base - 1, base, base + 1, -1}:
            try:
                chk = enc_bool(line.check_length(mx))
            except AssertionError:
                chk = "err:AssertionError"
            rec.case("pretty.line", [el, mx], f"{enc_bool(line.expandable)};{chk};{enc_str(str(line))}", shape="node" if line.node is not None else "text")
        ind = rng.choice([0, 1, 2, 4, -1])
        try:
            ex = list(line.expand(ind))
            ans = "/".join(L.enc_line(x) for x in ex)
            # direct: opening line, one line per child at +indent, closing line
            kids = line.node.children
            okE = (
                len(ex) == len(kids) + 2
                and all(x.node is c for x, c in zip(ex[1:-1], kids))
                and all(x.whitespace == line.whitespace + " " * max(ind, 0) for x in ex[1:-1])
                and ex[0].whitespace == line.whitespace == ex[-1].whitespace
                and ex[0].node is None
                and ex[-1].node is None
                and ex[-1].text == line.node.close_brace
            )
            rec.check(okE, "_Line.expand", el, "expansion is not open / one line per child at +indent / close")
        except AssertionError:
            ans = "err:AssertionError"
        rec.case("pretty.expand", [DROP_SUFFIX, el, ind], ans, shape="err" if ans.startswith("err") else "ok")
        # render of arbitrary trees
        ea = rng.random() < 0.2
        full = cell_len(str(node))
        for w in {full - 1, full, rng.randint(-2, 30)}:
            out = pretty_repr(node, max_width=w, indent_size=ind, expand_all=ea)
            rec.case("pretty.render", [DROP_SUFFIX, en, w, ind, enc_bool(ea)], enc_str(out), shape=("wf" if wf else "raw") + (":multi" if "\n" in out else ":one"))
            if wf:
                expandable = bool(node.children)
                rec.check(("\n" in out) == (expandable and (ea or full > w)), "Node.render:one_line_iff_fits", (en, w, ea), f"node of {full} cells at width {w}: {out!r}")


def glue(rec, n_cases):
    """option plumbing around pretty_repr: Pretty.__rich_console__, pprint."""
    import io

    import lib_pretty as L
    from rich.console import Console
    from rich.pretty import Pretty, pprint, pretty_repr

    rng = rec.rng
    for _ in range(n_cases):
        v = L.rand_value(rng, 3, top=True)
        width = rng.randint(5, 70)
        margin = rng.choice([0, 0, 3, 12])
        ind = rng.choice(INDENTS)
        ml = rng.choice(MAX_LENGTHS)
        ms = rng.choice(MAX_STRINGS)
        ea = rng.random() < 0.3
        console = Console(file=io.StringIO(), width=width, color_system=None, force_terminal=False, legacy_windows=False)
        p = Pretty(v, indent_size=ind, max_length=ml, max_string=ms, expand_all=ea, margin=margin)
        parts = list(p.__rich_console__(console, console.options))
        want = pretty_repr(v, max_width=width - margin, indent_size=ind, max_length=ml, max_string=ms, expand_all=ea)
        inp = dict(value=_short(v), width=width, margin=margin, indent_size=ind, max_length=ml, max_string=ms, expand_all=ea)
        rec.check(parts and parts[-1].plain == want, "Pretty.__rich_console__", inp, "Pretty does not pass its options to pretty_repr")
        if rng.random() < 0.3:
            console = Console(file=io.StringIO(), width=200, color_system=None, force_terminal=False, legacy_windows=False)
            pprint(v, console=console, indent_guides=False, max_length=ml, max_string=ms, expand_all=ea)
            got = console.file.getvalue()
            want = pretty_repr(v, max_width=200, max_length=ml, max_string=ms, expand_all=ea)
            if all(cell_ok(l) for l in want.split("\n")):
                rec.check(got == want + "\n", "pprint", inp, f"pprint wrote {got!r}, pretty_repr gives {want!r}")


def cell_ok(line):
    from lib_pretty import table_cell_len as cell_len

    return cell_len(line) <= 200 and "\t" not in line


# ------------------------------------------------------------------ worker entry
def work(task):
    kind, seed, quick, arg = task
    import lib_pretty as L

    rec = Rec(seed)
    if kind == "exh":
        k, of = arg
        for i, v in enumerate(L.exhaustive_values()):
            if i % of == k:
                eval_value(rec, v, quick, 2 if quick else 4, "exh")
    elif kind == "boundary":
        k, of = arg
        for i, (v, cls) in enumerate(L.boundary_values()):
            if i % of == k:
                rec.note("boundary:" + cls)
                eval_value(rec, v, quick, 1 if quick else 2, "boundary", sweep=True)
        for _ in range(20 if quick else 200):  # mixed strings of boundary characters, as items and keys
            s1, s2, s3 = (L.rand_boundary_string(rec.rng) for _ in range(3))
            v = rec.rng.choice([[s1, s2, s3], {s1: s2, s3: [s1]}, (s1, (s2,)), {"k": {s1, s2}}])
            eval_value(rec, v, quick, 1, "boundary-mix", sweep=True)
    elif kind == "rand":
        n, depth = arg
        for _ in range(n):
            d = rec.rng.randint(1, depth)
            eval_value(rec, L.rand_value(rec.rng, d, top=True), quick, 3 if quick else 4, "rand")
    elif kind == "cyc":
        for _ in range(arg):
            eval_value(rec, L.rand_cyclic(rec.rng), quick, 3, "cyc")
    elif kind == "edge":
        k, of = arg
        for i, v in enumerate(L.edge_values()):
            if i % of == k:
                eval_value(rec, v, quick, 3 if quick else 6, "edge")
    elif kind == "fixed":
        for v in fixed_values():
            eval_value(rec, v, quick, 6, "fixed")
    elif kind == "synth":
        synth(rec, arg, quick)
    elif kind == "glue":
        glue(rec, arg)
    return rec.result()


def fixed_values():
    """hand-picked structural combinations (the fragile ones named in the statement)."""
    from array import array
    from collections import Counter, defaultdict, deque

    import lib_pretty as L

    long = {None: "a", "wide あい": "new\nline"}
    vals = [
        (defaultdict(None, long),),
        ([1, 2],),
        ((1, 2),),
        (("a" * 20, "b" * 20),),
        ({"k": [1, 2, 3]},),
        [([1, 2],)],
        {"k": ([1, 2],)},
        ((([1, 2],),),),
        (deque([1, 2, 3]),),
        (Counter("abracadabra"),),
        (array("i", [1, 2, 3]),),
        ({1, 2, 3},),
        (frozenset([1, 2, 3]),),
        array("i"),
        array("d"),
        array("u"),
        [array("i"), array("b")],
        (array("i"),),
        {"a": array("d")},
        (),
        ((),),
        [()],
        [[]],
        {"k": {}},
        set(),
        frozenset(),
        deque(),
        Counter(),
        defaultdict(None),
        defaultdict(L.FACTORY),
        defaultdict(int),
        [set(), frozenset(), deque(), Counter(), defaultdict(None), {}, [], ()],
        (1,),
        ((1,),),
        [(1,)],
        [(1,), 2],
        [2, (1,)],
        {"t": (1,)},
        L.make_environ({"A": "1", "BB": "xyz"}),
        L.make_environ({}),
        [L.make_environ({"A": "x" * 30})],
        "plain string",
        b"bytes",
        12,
        None,
        1.5,
        ["あ" * 10, "い" * 10],
        {"あ" * 5: ["い" * 5]},
        deque([1, 2], maxlen=5),
    ]
    return vals


def run(ctx):
    quick = ctx.quick
    rng = ctx.rng
    ctx.assumptions += [
        "repr() of leaves (numbers, None, str/bytes incl. quoting and escapes) is Python's and enters the model as opaque token strings (str/bytes: the characters are in the model, repr of the printed prefix is supplied per case)",
        "eval() semantics (layout whitespace inside brackets, trailing commas) is Python's; checked per case by evaluating the real output",
        "container identity = id(); leaves have no identity in the model (they are never in _CONTAINERS)",
        "max_width, indent_size, max_length, max_string are integers in the model as in the code (negative max_length: ValueError from islice on a non-empty root; negative max_string: Python slice semantics); the statement is evaluated only for max_length, max_string >= 0",
        "objects whose exact type is not in _CONTAINERS (subclasses of list/tuple/dict/str, namedtuples, dataclass instances, objects with any __repr__) are leaves: opaque repr strings; strings with lone surrogates answer `unmodelled` (not representable as Lean Char) and are evaluated directly only",
        "Pretty.__rich_measure__/__rich_console__ are modelled on the traversed tree; Text.with_indent_guides, highlighting and Text wrapping are not (only that they are requested with the right arguments)",
        "the width function is rich.cells.cell_len over the generated CELL_WIDTHS table (property C13)",
    ]
    P = 14
    tasks = [("fixed", rng.getrandbits(32), quick, None)]
    tasks += [("exh", rng.getrandbits(32), quick, (k, P)) for k in range(P)]
    tasks += [("boundary", rng.getrandbits(32), quick, (k, P)) for k in range(P)]
    tasks += [("edge", rng.getrandbits(32), quick, (k, 4)) for k in range(4)]
    tasks += [("rand", rng.getrandbits(32), quick, (150, 4 if quick else 6)) for _ in range(40 if quick else 260)]
    tasks += [("cyc", rng.getrandbits(32), quick, 100) for _ in range(3 if quick else 30)]
    tasks += [("synth", rng.getrandbits(32), quick, 450) for _ in range(8 if quick else 80)]
    tasks += [("glue", rng.getrandbits(32), quick, 150) for _ in range(1 if quick else 16)]
    with multiprocessing.get_context("fork").Pool(16) as pool:
        # ordered, lazily consumed: the verdict does not depend on worker timing
        for (kind, _, _, _), (cases, fails, passes, notes) in zip(tasks, pool.imap(work, tasks, chunksize=1)):
            for fn, args, ans, shape, sample in cases:
                ctx.case(fn, args, ans, shape=shape, sample=sample)
            for site, n in passes.items():
                ctx.note("prop:" + site, n)
            for site, inp, what, finding in fails:
                ctx.check(False, site, inp, what, finding=finding)
            for k, n in notes.items():
                ctx.note(k, n)
    ctx.flush()
    ctx.rule = (
        "bounded-exhaustive: every container kind x 0..3 children over %r, each wrapped in every kind and in one-element "
        "tuples (depth <= 3); seeded random typed values to depth %d over list/tuple/dict/set/frozenset/deque/Counter/"
        "defaultdict/array/str/bytes/int/float/bool/None; cyclic and shared structures; hand-picked fragile shapes; "
        "for EVERY row of CELL_WIDTHS (read at run time) the first / last / interior code points and the neighbours just "
        "outside, as string items and dict keys, swept over every width within +-2 of each fit threshold; "
        "objects at the edge of the domain (empty / multi-line / raising __repr__, list/tuple/dict/str subclasses, "
        "namedtuple, dataclass, lone surrogates, deque(maxlen), nested default factories, arrays of all 13 typecodes, "
        "huge ints, nan/inf/-0.0); each x option sets (indent_size, expand_all, max_length, max_string; one in 12 with a "
        "negative option; max_width <= 0) x the widths at which some line's fit "
        "decision flips (+-1) and random widths up to %d; synthetic well-formed and ill-formed Node/_Line objects. "
        "distinct = distinct canonical requests" % ([1, "a", "あ", None], 4 if quick else 6, 60 if quick else 200)
    )


def replay(ctx, case):
    """re-run one recorded failing input on the real code (layout/eval sites record the call's arguments)."""
    print("site:", case.get("site"))
    print("input:", case.get("input"))
    print("what:", case.get("what"))
    inp = case.get("input")
    if isinstance(inp, dict) and "margin" in inp and "max_width" in inp and "value" in inp:
        # Pretty(margin=).__rich_measure__ against what __rich_console__ renders at the measured width
        import dataclasses

        import lib_pretty as L
        from rich.pretty import Pretty

        try:
            v = eval(inp["value"], dict(L.EVAL_NS))  # noqa: S307 - the recorded repr of the value
        except Exception as e:  # noqa: BLE001
            print("value cannot be rebuilt from its repr:", e)
            return False
        p = Pretty(v, indent_size=inp["indent_size"], max_length=inp["max_length"], max_string=inp["max_string"], expand_all=inp["expand_all"], margin=inp["margin"])
        m = p.__rich_measure__(_console(), inp["max_width"]).maximum
        opts = dataclasses.replace(_console().options, max_width=m, min_width=m)
        text = list(p.__rich_console__(_console(), opts))[-1].plain
        widest = max(L.table_cell_len(l) for l in text.split("\n"))
        print(f"measured {m}; rendered at {m}: widest line {widest} cells: {text!r}")
        return widest <= m
    if isinstance(inp, dict) and "max_width" in inp and "value" in inp:
        import lib_pretty as L
        from rich.pretty import pretty_repr

        try:
            v = eval(inp["value"], dict(L.EVAL_NS))  # noqa: S307 - the recorded repr of the value
        except Exception as e:  # noqa: BLE001
            print("value cannot be rebuilt from its repr:", e)
            return False
        kw = dict(max_width=inp["max_width"], indent_size=inp["indent_size"], max_length=inp["max_length"], max_string=inp["max_string"], expand_all=inp["expand_all"])
        out = pretty_repr(v, **kw)
        tree = L.ref_tree(v, inp["max_length"], inp["max_string"])
        lines = L.ref_lines(tree, L.table_cell_len, inp["max_width"], inp["indent_size"], inp["expand_all"])
        ok, _ = L.ref_matches(out, lines, inp["indent_size"])
        if ok and inp["max_length"] is None and inp["max_string"] is None and L.evaluable(v):
            try:
                ok = L.same(eval(out, dict(L.EVAL_NS)), v)  # noqa: S307
            except Exception:  # noqa: BLE001
                ok = False
        print("pretty_repr now gives:", repr(out))
        return ok
    print("re-run `./check C16` to re-evaluate (the generators are seeded: VERIF_SEED=%s)" % case.get("seed"))
    return False


MANIFEST = {
    "text": "Lean 4 theorems (Props/C16.lean; arbitrary width function, no bound on tree size, depth, width or indent; "
    "max_width and indent_size are integers as in the code) about an executable model of rich/pretty.py (Node.iter_tokens/"
    "check_length/__str__, _Line.expandable/check_length/expand/__str__, the Node.render loop, traverse over a heap of objects "
    "with identities, pretty_repr, Pretty.__rich_measure__ and the option plumbing of Pretty.__rich_console__): the render "
    "loop terminates within weight(node)+2 steps and equals a structural specification (open / one item per line at +indent "
    "/ close, recursively); layout_only: erasing indentation, line breaks and the blank after kept separators from the "
    "rendered lines gives exactly the one-line form, so no comma/brace/key/leaf is lost or added (repaired variant; "
    "machine-checked counter-example for the code as found: F24); one line iff leaf/empty or (not expand_all and the one-line "
    "form fits); every kept container line fits max_width; expand_all — and any max_width <= 0 — leaves no container on one "
    "line; indentation is a whole multiple of max(indent_size,0) with braces aligned and contents strictly deeper; traverse "
    "is total on every well-formed heap including cyclic ones, emits `...` exactly for containers on the current path, "
    "produces well-formed trees, and for max_length/max_string >= 0 abbreviations show min(N,max) items/characters and report "
    "exactly N-max (negative max_length: ValueError exactly for a non-empty root container; negative max_string: what the "
    "code prints is stated, it is not a count); the root's `last` flag is unobservable after fix 376cec1; "
    "pretty_measure_sound: if __rich_measure__ reports m then rendering at width m has no line wider than m (for the variant "
    "that passes expand_all = /repo since fix db5535b; machine-checked counter-example for the code as found: F26); F12 witness. Tie: ~310k (quick) "
    "/ millions (thorough) generated cases per run compare model and rich.pretty character for character (traverse on a heap "
    "description of the real object graph, Node.render, pretty_repr, __rich_measure__, __rich_console__ attributes, and the "
    "Node/_Line methods on synthetic also ill-formed objects, options inside and outside their documented domain); on every "
    "in-domain case the real output is eval()-ed and compared for deep typed equality, compared with a statement-level "
    "reference printer up to the legal trailing comma, with repr() when it fits, for indentation regularity and for "
    "measure soundness on the real Pretty, at the widths where a fit decision flips (+-1; +-2 sweep for strings built from "
    "the first/last/interior/outside code points of every CELL_WIDTHS row). Deepening round 4 (Model/PrettyConsole.lean, "
    "Lemmas/PrettyConsole.lean): everything Pretty.__rich_console__ yields is modelled as characters (prettyConsoleFull: "
    "pretty_repr at options.max_width - margin, Text.__init__'s control-code strip, Text.with_indent_guides itself — "
    "Text.split, the blank-line counter, divmod with ZeroDivisionError at indent_size 0 and Python semantics for a negative "
    "size, the join into a NEW Text that loses justify/overflow/no_wrap — and the inserted empty renderable decided on the "
    "guided text); theorems console_chars_exact / console_is_pretty_repr (without guides the characters yielded are exactly "
    "those of pretty_repr at max_width - margin, plus the optional empty renderable; all trees, widths, options), "
    "console_guides_chars (with guides, indent_size > 0, no blank line: same lines, same length, same characters after the "
    "indentation, the indentation's blanks replaced by one guide at every whole multiple of indent_size), "
    "console_guides_zero_raises; pretty_measure_sound_pieces (the measurement theorem for leaf reprs that contain line "
    "boundaries: pieces of str.splitlines; only container lines KEPT at the measured width must be free of boundaries, "
    "machine-checked witness kept_line_break_needed that this cannot be dropped); pretty_measure_sound_margin for the "
    "repaired measurement with margin >= 0, witness old_pretty_measure_margin_unsound for the code as it is. New "
    "correspondence functions pretty.console_full (~14.8k quick, real ReprHighlighter, real with_indent_guides; 3 direct "
    "evaluations with a statement-level guide oracle) and pretty.measure_m (~29k quick, margins 1..12, direct soundness "
    "against __rich_console__ at the measured width).",
    "note": "PARTIAL by nature: 'evaluates back' rests on Python's eval() and repr() of leaves, which are runtime and enter the "
    "model as opaque token strings (str/bytes: characters are modelled, repr of the printed prefix is supplied per case); this "
    "part is validated per generated case, not proved. Scope of the eval round trip: built-in containers and literal leaves; "
    "repr(nan)/repr(inf) are not literals (names nan/inf are supplied to eval), deque(maxlen=) loses maxlen (equal by ==), "
    "non-evaluable default_factory, subclass/namedtuple/dataclass/custom-__repr__ leaves (exact type not in _CONTAINERS) are "
    "checked for layout only; a mapping key whose repr is empty is dropped by the code (`if self.key_repr`) and is outside "
    "the statement. Trusted: Lean kernel; axioms propext/Classical.choice/Quot.sound; the correspondence harness (heap/Node "
    "encoders, reference printer, deep equality); identities = id() of containers; the width function is the generated "
    "CELL_WIDTHS table (C13); strings with lone surrogates answer `unmodelled`. pretty_measure_sound assumes blanks are one "
    "cell wide, margin = 0 and no leaf repr containing a line boundary; a leaf with empty repr makes __rich_measure__ raise "
    "ValueError (modelled, stated). Not modelled: install(), highlighting, Text.with_indent_guides itself (only that it is "
    "requested with indent_size and style repr.indent) in the older pretty.console comparison — since round 4 "
    "pretty.console_full models its characters, except Text.expand_tabs (a tab under guides answers `unmodelled`) and the "
    "spans; Text wrapping/cropping is not modelled. Round-4 finding, FIXED in f3605d0 (MEASURE_IGNORES_MARGIN = 0): "
    "Pretty.__rich_measure__ never looked at self.margin although __rich_console__ renders at max_width - margin "
    "(Panel.fit(Pretty([['aaaa']], margin=1)) cropped the value); pretty_measure_sound_margin is the theorem for the repaired code, "
    "old_pretty_measure_margin_unsound the witness against the code as found. "
    "pretty_measure_sound_pieces still assumes one-cell blanks and no line boundary in a container line kept at the "
    "measured width (false without it: kept_line_break_needed; only custom multi-line __repr__ objects get there, "
    "outside the statement's values). Variant flags (1 = rich 9.10.0 as found): DROP_SUFFIX = 0 (F24, fix 376cec1), "
    "ARRAY_LITERAL = 0 (F12, fix e5d1b9a), MEASURE_NO_EXPAND_ALL = 0 (F26, fix db5535b): all three defects are fixed in "
    "/repo, so the check has no known finding and prints no KNOWN-FINDING line; the classifiers pretty-expand-drops-suffix, "
    "pretty-empty-array-literal and pretty-measure-ignores-expand-all only label a failure should one of them reappear.",
    "design_ref": "DESIGN.md section 7, C16 (and the Pretty clause of C09); section 8: fixed in e5d1b9a (F12), 376cec1 (F24), db5535b (F26)",
}
